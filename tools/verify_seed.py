#!/venv/bin/python
"""Confirms a sub-agent's seeded change independently and files it under /verif/seeded/.

usage: verify_seed.py <PROP> <k> [--src /tmp/seed_out] [--from DIR] [--base COMMIT] [extra props]

Steps (all in a fresh scratch worktree of /repo under /tmp, removed afterwards):
  1. demo on the unchanged tree must exit 0;
  2. patch applies; demo with the patch must exit non-zero;
  3. the unedited suite must still pass all 267 baseline tests with the patch;
  4. /verif's check for the property is run against /repo with the patch applied
     (git apply ... ; check ; git checkout -- .), quick tier.
Result: /verif/seeded/<PROP>_<k>/{patch.diff,demo.py,NOTES.md,meta.json}
"""
import json
import os
import shutil
import subprocess
import sys
import time

prop, k = sys.argv[1], sys.argv[2]
src = "/tmp/seed_out"
if "--src" in sys.argv:
    src = sys.argv[sys.argv.index("--src") + 1]
d = f"{src}/{prop}/{k}"
if "--from" in sys.argv:  # deliverables of a later wave: --from /tmp/seed_out/C01b/1 filed as <PROP>_<k>
    d = sys.argv[sys.argv.index("--from") + 1]
wt = f"/tmp/vs_{prop}_{k}_{os.getpid()}"
PY = "/venv/bin/python"


def sh(cmd, cwd=None, timeout=1500):
    p = subprocess.run(cmd, shell=True, cwd=cwd, capture_output=True, text=True, timeout=timeout,
                       env=dict(os.environ, PYTHONDONTWRITEBYTECODE="1"))
    return p.returncode, (p.stdout + p.stderr)[-3000:]


meta = {"property": prop, "source": "independent sub-agent (given only the property text and a scratch worktree)", "ran": []}
_base = sys.argv[sys.argv.index("--base") + 1] if "--base" in sys.argv else "HEAD"
rc, out = sh(f"git -C /repo worktree add --detach {wt} {_base} -q")
assert rc == 0, out
try:
    rc0, o0 = sh(f"{PY} {d}/demo.py", cwd=wt)
    meta["ran"].append({"cmd": "demo.py on unchanged tree", "exit": rc0})
    rc, out = sh(f"git apply {d}/patch.diff", cwd=wt)
    assert rc == 0, "patch does not apply: " + out
    rc1, o1 = sh(f"{PY} {d}/demo.py", cwd=wt)
    meta["ran"].append({"cmd": "demo.py with patch", "exit": rc1, "tail": o1[-600:]})
    rcb, ob = sh(f"{PY} /verif/tools/baseline_check.py {wt}", timeout=2400)
    meta["ran"].append({"cmd": "baseline_check.py (267 stable tests) with patch", "exit": rcb, "out": ob.strip()[-300:]})
finally:
    sh(f"git -C /repo worktree remove --force {wt}")
    shutil.rmtree(wt, ignore_errors=True)

# the checker, on a scratch worktree at the seed's base commit (never touches /repo):
# detection = violations reported with the patch that are not reported on the base tree
import fcntl

_lock = open("/tmp/verify_seed.lock", "w")
fcntl.flock(_lock, fcntl.LOCK_EX)  # evidence files are shared: one checker run at a time
base = "HEAD"
if "--base" in sys.argv:
    base = sys.argv[sys.argv.index("--base") + 1]
meta["base_commit"] = subprocess.run(f"git -C /repo rev-parse --short {base}", shell=True, capture_output=True, text=True).stdout.strip()
props = [prop] + [x for x in sys.argv[3:] if x.startswith("C") and len(x) == 3]
det = {}
wt2 = f"/tmp/vc_{prop}_{k}_{os.getpid()}"
rc, out = sh(f"git -C /repo worktree add --detach {wt2} {base} -q")
assert rc == 0, out


def viol(outtxt):
    return {l.split("replay=")[1].strip() for l in outtxt.splitlines() if l.startswith("VIOLATION")}


try:
    before = {}
    for p_ in props:
        rcc, oc = sh(f"{PY} -m jtsa check {p_} --root {wt2}", cwd="/verif")
        before[p_] = (rcc, viol(oc))
    rc, out = sh(f"git apply {d}/patch.diff", cwd=wt2)
    assert rc == 0, "patch does not apply to base: " + out
    for p_ in props:
        rcc, oc = sh(f"{PY} -m jtsa check {p_} --root {wt2}", cwd="/verif")
        newv = viol(oc) - before[p_][1]
        lines = [l for l in oc.splitlines() if l.startswith("[C") or "ANALYSIS-ERROR" in l]
        det[p_] = {"exit_base": before[p_][0], "exit": rcc, "new_violations": len(newv), "report": [l[:300] for l in lines[:10]]}
finally:
    sh(f"git -C /repo worktree remove --force {wt2}")
    shutil.rmtree(wt2, ignore_errors=True)
    for p_ in props:
        sh(f"{PY} -m jtsa check {p_}", cwd="/verif")  # restore the evidence files for /repo
meta["checker"] = det
meta["valid"] = (rc0 == 0 and rc1 != 0 and rcb == 0)
meta["detected_by"] = [p_ for p_, v in det.items() if v["exit"] == 1 and v["new_violations"] > 0]
notes = open(f"{d}/NOTES.md").read() if os.path.exists(f"{d}/NOTES.md") else ""
meta["needs_to_manifest"] = notes[:1500]
dst = f"/verif/seeded/{prop}_{k}"
if meta["valid"]:
    os.makedirs(dst, exist_ok=True)
    for fn in ("patch.diff", "demo.py", "NOTES.md"):
        if os.path.exists(f"{d}/{fn}"):
            shutil.copy(f"{d}/{fn}", f"{dst}/{fn}")
    json.dump(meta, open(f"{dst}/meta.json", "w"), indent=1)
print(json.dumps({"seed": f"{prop}/{k}", "valid": meta["valid"], "demo_clean": rc0, "demo_patched": rc1, "baseline": rcb,
                  "detected_by": meta["detected_by"], "checker_exit": {p_: v["exit"] for p_, v in det.items()}}))
