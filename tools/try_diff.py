#!/venv/bin/python
"""Applies a diff to a throw-away copy of /repo's sources and runs one property check on it,
printing the full report (debugging aid).  usage: try_diff.py <diff> <PROP> [--keep]"""
import os, shutil, subprocess, sys, tempfile
d, prop = os.path.abspath(sys.argv[1]), sys.argv[2]
tmp = tempfile.mkdtemp(prefix="jtsa_try_")
try:
    shutil.copytree("/repo/jaxtyping", os.path.join(tmp, "jaxtyping"), ignore=shutil.ignore_patterns("__pycache__"))
    shutil.copytree("/repo/docs", os.path.join(tmp, "docs"))
    r = subprocess.run(["git", "apply", "--unsafe-paths", "--directory", tmp, d], cwd=tmp, capture_output=True, text=True)
    if r.returncode:
        print("apply failed", r.stderr)
        sys.exit(3)
    here = os.path.dirname(os.path.dirname(os.path.abspath(__file__)))
    p = subprocess.run(["/venv/bin/python", "-m", "jtsa", "check", prop, "--root", tmp], cwd=here, env=dict(os.environ, JTSA_NO_EVIDENCE="1"))
    if "--keep" in sys.argv:
        print("kept", tmp)
        tmp = None
finally:
    if tmp:
        shutil.rmtree(tmp, ignore_errors=True)
