#!/usr/bin/env python3
"""Writes notes/detection_matrix.md from seeded/*/meta.json (independent sub-agent seeds)."""
import json, os, glob
here = os.path.dirname(os.path.dirname(os.path.abspath(__file__)))
rows = []
for mp in sorted(glob.glob(os.path.join(here, "seeded", "*", "meta.json"))):
    m = json.load(open(mp))
    name = os.path.basename(os.path.dirname(mp))
    notes = m.get("needs_to_manifest", "")
    first = next((l.strip("# ").strip() for l in notes.splitlines() if l.strip()), "")
    ch = m.get("checker", {})
    rules = []
    for p, v in ch.items():
        for l in v.get("report", []):
            if l.startswith("[C"):
                rules.append(l.split("]")[0][1:])
    det = "yes" if m.get("detected_by") else ("no (ANALYSIS-ERROR: no verdict)" if any(v.get("exit") == 2 or any("ANALYSIS-ERROR" in l for l in v.get("report", [])) for v in ch.values()) else "no")
    rows.append((name, m.get("base_commit", "?"), m["valid"], det, ", ".join(sorted(set(rules))) or "-", first[:110]))
out = ["# Independent seeds (sub-agents given only the property text and a scratch worktree)", "",
       "Each seed was confirmed by `tools/verify_seed.py`: demo passes on the unchanged tree, fails with the patch, and the patch keeps all 267 baseline tests passing.",
       "`detected` = the property's quick check reports a violation on the patched tree that it does not report on the seed's base commit.", "",
       "| seed | base | valid | detected | rules that fired | what it is |", "|---|---|---|---|---|---|"]
for r in rows:
    out.append("| " + " | ".join(str(x) for x in r) + " |")
n = len(rows); d = sum(1 for r in rows if r[3] == "yes")
ae = sum(1 for r in rows if r[3].startswith("no (ANALYSIS"))
silent = [r[0] for r in rows if r[3] == "no"]
out += ["", f"{d} of {n} valid seeds detected by the check of their own property; {ae} end in ANALYSIS-ERROR (exit 2: no verdict); "
        f"{len(silent)} pass it silently ({', '.join(silent)}; DESIGN.md §6.3 says what each of them is and which other check, if any, reports it)."]
open(os.path.join(here, "notes", "detection_matrix.md"), "w").write("\n".join(out) + "\n")
print(f"{d}/{n}")
