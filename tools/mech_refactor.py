#!/venv/bin/python
"""Mechanical, semantics-preserving rewrites of the whole package (a static 'refactoring fuzzer'): every variant is written to
a throw-away copy of /repo's sources and all property checks are run on it.  A VIOLATION on a variant is a false alarm of a
rule that matched spelling instead of meaning.  Nothing from /repo is executed; the rewrites are AST -> ast.unparse.

  rename   every local variable (not parameters, not names used by nested scopes, not in functions that use locals() /
           global / nonlocal) gets the suffix `_v`
  flip     `if a: X else: Y` -> `if not a: Y else: X` (only plain if/else without elif)
  copy     `x.copy()` -> `dict(x)` on plain names (the four memos are dicts)
  rettemp  `return <call>` -> `result_ = <call>; return result_` (not in generators)
  elseret  `if a: return X else: Y...` -> `if a: return X` + `Y...` (else after return dropped)
  rename2  like rename, closure variables included (suffix `_w`)
  nestand  `if a and b: X` -> `if a: if b: X`
  guard    trailing `if c: BODY` of a loop body -> `if not c: continue` + BODY
  testtemp `if <call>:` -> `testN_ = <call>; if testN_:`
  noann    annotations of undecorated functions removed
  kwargs   last positional argument of calls of plain package functions passed by keyword
  demorgan `if a and b: X else: Y` -> `if not a or not b: Y else: X`; `not (a or b)` -> `not a and not b`
  renamefn private module-level functions renamed consistently across the package (suffix `_r`)
  methodorder runs of consecutive undecorated defs reversed (module level and class bodies)
  splitor  `if a or b: <leaving body>` -> two ifs
  renamecls private module-level classes renamed consistently across the package (suffix `_k`)
  calltemp a call that is the first argument of a call hoisted into a temporary
  walrus   `type(x)` / `len(x)` of an if/elif chain cached with `:=` in the first test and re-used in the later ones
usage: mech_refactor.py [--props C01,C04] [--only rename,flip]"""
import ast, copy, glob, os, shutil, sys, tempfile
sys.path.insert(0, os.path.dirname(os.path.dirname(os.path.abspath(__file__))))
from concurrent.futures import ProcessPoolExecutor
from jtsa.runner import PROPS, analyse, load_known, match_known
from jtsa.core import AnalysisError

FILES = ["_array_types.py", "_decorator.py", "_storage.py", "_pytree_type.py", "_import_hook.py", "_config.py", "_ipython_extension.py", "_pytest_plugin.py", "__init__.py"]


def own_nodes(fn):
    work = list(fn.body)
    while work:
        n = work.pop()
        yield n
        for c in ast.iter_child_nodes(n):
            if isinstance(c, (ast.FunctionDef, ast.AsyncFunctionDef, ast.Lambda, ast.ClassDef, ast.ListComp, ast.SetComp, ast.DictComp, ast.GeneratorExp)):
                continue
            work.append(c)


def t_rename(tree):
    for fn in [n for n in ast.walk(tree) if isinstance(n, (ast.FunctionDef, ast.AsyncFunctionDef))]:
        if any(isinstance(x, (ast.Global, ast.Nonlocal)) for x in ast.walk(fn)):
            continue
        if any(isinstance(x, ast.Name) and x.id in ("locals", "vars", "eval", "exec") for x in ast.walk(fn)):
            continue
        params = {a.arg for a in ast.walk(fn.args) if isinstance(a, ast.arg)}
        stored = {x.id for x in own_nodes(fn) if isinstance(x, ast.Name) and isinstance(x.ctx, ast.Store)} - params
        # names seen by nested scopes (closures, comprehensions) or bound by import / def / class / except stay
        nested = set()
        for x in ast.walk(fn):
            if x is not fn and isinstance(x, (ast.FunctionDef, ast.AsyncFunctionDef, ast.Lambda, ast.ClassDef, ast.ListComp, ast.SetComp, ast.DictComp, ast.GeneratorExp)):
                nested |= {y.id for y in ast.walk(x) if isinstance(y, ast.Name)}
                if hasattr(x, "name"):
                    nested.add(x.name)
        special = {al.asname or al.name.split(".")[0] for x in own_nodes(fn) if isinstance(x, (ast.Import, ast.ImportFrom)) for al in x.names}
        special |= {x.name for x in own_nodes(fn) if isinstance(x, ast.ExceptHandler) and x.name}
        todo = {n for n in stored - nested - special if not n.startswith("__")}
        for x in own_nodes(fn):
            if isinstance(x, ast.Name) and x.id in todo:
                x.id = x.id + "_v"
    return tree


def t_flip(tree):
    class T(ast.NodeTransformer):
        def visit_If(self, n):
            self.generic_visit(n)
            if n.orelse and not (len(n.orelse) == 1 and isinstance(n.orelse[0], ast.If)):
                t = n.test.operand if isinstance(n.test, ast.UnaryOp) and isinstance(n.test.op, ast.Not) else ast.UnaryOp(op=ast.Not(), operand=n.test)
                return ast.copy_location(ast.If(test=t, body=n.orelse, orelse=n.body), n)
            return n
    return T().visit(tree)


def t_copy(tree):
    class T(ast.NodeTransformer):
        def visit_Call(self, n):
            self.generic_visit(n)
            if isinstance(n.func, ast.Attribute) and n.func.attr == "copy" and not n.args and not n.keywords and isinstance(n.func.value, ast.Name) and "memo" in n.func.value.id:
                return ast.copy_location(ast.Call(func=ast.Name(id="dict", ctx=ast.Load()), args=[n.func.value], keywords=[]), n)
            return n
    return T().visit(tree)


def t_rettemp(tree):
    for fn in [n for n in ast.walk(tree) if isinstance(n, (ast.FunctionDef, ast.AsyncFunctionDef))]:
        if any(isinstance(x, (ast.Yield, ast.YieldFrom)) for x in own_nodes(fn)):
            continue
        if any(isinstance(x, ast.Name) and x.id == "result_" for x in ast.walk(fn)):
            continue

        def rec(stmts):
            i = 0
            while i < len(stmts):
                st = stmts[i]
                if isinstance(st, ast.Return) and isinstance(st.value, ast.Call):
                    a = ast.copy_location(ast.Assign(targets=[ast.Name(id="result_", ctx=ast.Store())], value=st.value, lineno=st.lineno), st)
                    st.value = ast.Name(id="result_", ctx=ast.Load())
                    stmts.insert(i, a)
                    i += 2
                    continue
                if not isinstance(st, (ast.FunctionDef, ast.AsyncFunctionDef, ast.ClassDef)):
                    for fld in ("body", "orelse", "finalbody"):
                        sub = getattr(st, fld, None)
                        if isinstance(sub, list) and sub and isinstance(sub[0], ast.stmt):
                            rec(sub)
                    for hd in getattr(st, "handlers", []) or []:
                        rec(hd.body)
                i += 1

        rec(fn.body)
    return tree


def t_elseret(tree):
    def rec(stmts):
        i = 0
        while i < len(stmts):
            st = stmts[i]
            if not isinstance(st, (ast.FunctionDef, ast.AsyncFunctionDef, ast.ClassDef)):
                for fld in ("body", "orelse", "finalbody"):
                    sub = getattr(st, fld, None)
                    if isinstance(sub, list) and sub and isinstance(sub[0], ast.stmt):
                        rec(sub)
                for hd in getattr(st, "handlers", []) or []:
                    rec(hd.body)
            if isinstance(st, ast.If) and st.orelse and not (len(st.orelse) == 1 and isinstance(st.orelse[0], ast.If)) and isinstance(st.body[-1], (ast.Return, ast.Raise, ast.Continue, ast.Break)):
                tail = st.orelse
                st.orelse = []
                stmts[i + 1:i + 1] = tail
            i += 1

    for fn in [n for n in ast.walk(tree) if isinstance(n, (ast.FunctionDef, ast.AsyncFunctionDef))]:
        rec(fn.body)
    return tree


def t_rename2(tree):
    """like rename, but also the locals that nested scopes read (closure variables), when no nested scope binds the name"""
    SC = (ast.FunctionDef, ast.AsyncFunctionDef, ast.Lambda, ast.ClassDef, ast.ListComp, ast.SetComp, ast.DictComp, ast.GeneratorExp)
    fns = [n for n in ast.walk(tree) if isinstance(n, (ast.FunctionDef, ast.AsyncFunctionDef))]
    for fn in fns:
        if any(isinstance(x, (ast.Global, ast.Nonlocal)) for x in ast.walk(fn)):
            continue
        if any(isinstance(x, ast.Name) and x.id in ("locals", "vars", "eval", "exec") for x in ast.walk(fn)):
            continue
        params = {a.arg for a in ast.walk(fn.args) if isinstance(a, ast.arg)}
        stored = {x.id for x in own_nodes(fn) if isinstance(x, ast.Name) and isinstance(x.ctx, ast.Store)} - params
        bound_nested = set()
        for x in ast.walk(fn):
            if x is not fn and isinstance(x, SC):
                if hasattr(x, "name"):
                    bound_nested.add(x.name)
                if hasattr(x, "args"):
                    bound_nested |= {a.arg for a in ast.walk(x.args) if isinstance(a, ast.arg)}
                bound_nested |= {y.id for y in ast.walk(x) if isinstance(y, ast.Name) and isinstance(y.ctx, (ast.Store, ast.Del))}
        special = {al.asname or al.name.split(".")[0] for x in ast.walk(fn) if isinstance(x, (ast.Import, ast.ImportFrom)) for al in x.names}
        special |= {x.name for x in ast.walk(fn) if isinstance(x, ast.ExceptHandler) and x.name}
        todo = {n for n in stored - bound_nested - special if not n.startswith("__") and not n.endswith("_w")}
        for x in ast.walk(fn):
            if isinstance(x, ast.Name) and x.id in todo:
                x.id = x.id + "_w"
    return tree


def _rec_blocks(tree, visit):
    def rec(stmts):
        for st in list(stmts):
            if not isinstance(st, (ast.ClassDef,)):
                for fld in ("body", "orelse", "finalbody"):
                    sub = getattr(st, fld, None)
                    if isinstance(sub, list) and sub and isinstance(sub[0], ast.stmt):
                        rec(sub)
                for hd in getattr(st, "handlers", []) or []:
                    rec(hd.body)
        visit(stmts)
    for fn in [n for n in ast.walk(tree) if isinstance(n, (ast.FunctionDef, ast.AsyncFunctionDef))]:
        rec(fn.body)
    return tree


def t_nestand(tree):
    """`if a and b: X` (no else) -> `if a: if b: X`"""
    def visit(stmts):
        for st in stmts:
            if isinstance(st, ast.If) and not st.orelse and isinstance(st.test, ast.BoolOp) and isinstance(st.test.op, ast.And) and len(st.test.values) == 2:
                a, b = st.test.values
                inner = ast.copy_location(ast.If(test=b, body=st.body, orelse=[]), st)
                st.test, st.body = a, [inner]
    return _rec_blocks(tree, visit)


def t_guard(tree):
    """last statement of a for body `if c: BODY` (no else) -> `if not c: continue` + BODY"""
    def visit(stmts):
        for st in stmts:
            if isinstance(st, (ast.For, ast.While)) and st.body and isinstance(st.body[-1], ast.If) and not st.body[-1].orelse and len(st.body[-1].body) > 1:
                i = st.body.pop()
                t = i.test.operand if isinstance(i.test, ast.UnaryOp) and isinstance(i.test.op, ast.Not) else ast.UnaryOp(op=ast.Not(), operand=i.test)
                st.body.append(ast.copy_location(ast.If(test=t, body=[ast.Continue()], orelse=[]), i))
                st.body.extend(i.body)
    return _rec_blocks(tree, visit)


def t_testtemp(tree):
    """`if <call>: ...` (the head of a chain) -> `test_ = <call>` + `if test_: ...`"""
    def visit(stmts):
        i = 0
        while i < len(stmts):
            st = stmts[i]
            if isinstance(st, ast.If) and isinstance(st.test, ast.Call):
                nm = f"test{st.lineno}_"
                stmts.insert(i, ast.copy_location(ast.Assign(targets=[ast.Name(id=nm, ctx=ast.Store())], value=st.test, lineno=st.lineno), st))
                st.test = ast.Name(id=nm, ctx=ast.Load())
                i += 1
            i += 1
    return _rec_blocks(tree, visit)


def _package_private_functions():
    """private module-level functions of the package (not the vendored typeguard): name -> parameter names (None when not plain)"""
    out = {}
    for f_ in FILES:
        tree = ast.parse(open(os.path.join("/repo/jaxtyping", f_)).read())
        for st in tree.body:
            if isinstance(st, ast.FunctionDef):
                a = st.args
                plain = not (a.vararg or a.kwarg or a.posonlyargs or a.kwonlyargs or st.decorator_list)
                out.setdefault(st.name, []).append([x.arg for x in a.args] if plain else None)
    return {k: v[0] for k, v in out.items() if len(v) == 1}


_PKG_FUNCS = None


def _pkg_funcs():
    global _PKG_FUNCS
    if _PKG_FUNCS is None:
        _PKG_FUNCS = _package_private_functions()
    return _PKG_FUNCS


def t_noann(tree):
    """parameter and return annotations of undecorated functions removed"""
    for fn in [n for n in ast.walk(tree) if isinstance(n, (ast.FunctionDef, ast.AsyncFunctionDef))]:
        if any(not (isinstance(d, ast.Name) and d.id in ("staticmethod", "classmethod")) for d in fn.decorator_list):
            continue
        fn.returns = None
        for a in ast.walk(fn.args):
            if isinstance(a, ast.arg):
                a.annotation = None
    return tree


def t_kwargs(tree):
    """`f(a, b, c)` -> `f(a, b, c=c)` for calls of undecorated module-level package functions with plain parameters"""
    funcs = _pkg_funcs()
    for c in [n for n in ast.walk(tree) if isinstance(n, ast.Call)]:
        if isinstance(c.func, ast.Name) and funcs.get(c.func.id) and len(c.args) >= 2 and not any(isinstance(a, ast.Starred) for a in c.args) \
                and len(c.args) <= len(funcs[c.func.id]) and not any(k.arg is None for k in c.keywords):
            ps = funcs[c.func.id]
            last = c.args.pop()
            c.keywords.insert(0, ast.keyword(arg=ps[len(c.args)], value=last))
    return tree


def t_demorgan(tree):
    """`if a and b: X else: Y` -> `if not a or not b: Y else: X`; `not (a or b)` -> `not a and not b`"""
    def neg(e):
        if isinstance(e, ast.UnaryOp) and isinstance(e.op, ast.Not):
            return e.operand
        return ast.UnaryOp(op=ast.Not(), operand=e)

    class T(ast.NodeTransformer):
        def visit_If(self, n):
            self.generic_visit(n)
            if n.orelse and not (len(n.orelse) == 1 and isinstance(n.orelse[0], ast.If)) and isinstance(n.test, ast.BoolOp) and isinstance(n.test.op, ast.And):
                t = ast.BoolOp(op=ast.Or(), values=[neg(v) for v in n.test.values])
                return ast.copy_location(ast.If(test=t, body=n.orelse, orelse=n.body), n)
            return n

        def visit_UnaryOp(self, n):
            self.generic_visit(n)
            if isinstance(n.op, ast.Not) and isinstance(n.operand, ast.BoolOp):
                op = ast.And() if isinstance(n.operand.op, ast.Or) else ast.Or()
                return ast.copy_location(ast.BoolOp(op=op, values=[neg(v) for v in n.operand.values]), n)
            return n
    return T().visit(tree)


def t_renamefn(tree):
    """every private module-level function of the package gets the suffix `_r`, consistently in all modules"""
    names = {k for k in _pkg_funcs() if k.startswith("_") and not k.startswith("__")}
    # the cache-path function's name is magical for importlib's traceback trimming: `_call_with_frames_removed`
    names.discard("_call_with_frames_removed")
    for n in ast.walk(tree):
        if isinstance(n, ast.Name) and n.id in names:
            n.id += "_r"
        elif isinstance(n, ast.Attribute) and n.attr in names:
            n.attr += "_r"
        elif isinstance(n, ast.FunctionDef) and n.name in names and n in tree.body:
            n.name += "_r"
        elif isinstance(n, ast.alias) and n.name in names:
            n.name += "_r"
    return tree


def t_methodorder(tree):
    """runs of consecutive undecorated defs (module level and class bodies) reversed"""
    def reorder(body):
        i = 0
        while i < len(body):
            j = i
            while j < len(body) and isinstance(body[j], ast.FunctionDef) and not body[j].decorator_list and not body[j].args.defaults and not body[j].args.kw_defaults:
                j += 1
            if j - i >= 2:
                body[i:j] = list(reversed(body[i:j]))
            i = max(j, i + 1)
    reorder(tree.body)
    for c in [n for n in ast.walk(tree) if isinstance(n, ast.ClassDef)]:
        reorder(c.body)
    return tree


def t_splitor(tree):
    """`if a or b: <body ending in return / raise / continue / break>` (no else) -> `if a: <body>` + `if b: <body>`"""
    def visit(stmts):
        i = 0
        while i < len(stmts):
            st = stmts[i]
            if isinstance(st, ast.If) and not st.orelse and isinstance(st.test, ast.BoolOp) and isinstance(st.test.op, ast.Or) and len(st.test.values) == 2 \
                    and isinstance(st.body[-1], (ast.Return, ast.Raise, ast.Continue, ast.Break)) and len(st.body) <= 2:
                a, b = st.test.values
                second = ast.copy_location(ast.If(test=b, body=copy.deepcopy(st.body), orelse=[]), st)
                st.test = a
                stmts.insert(i + 1, second)
                i += 1
            i += 1
    return _rec_blocks(tree, visit)


def _package_private_classes():
    out = set()
    for f_ in FILES:
        tree = ast.parse(open(os.path.join("/repo/jaxtyping", f_)).read())
        for st in tree.body:
            if isinstance(st, ast.ClassDef) and st.name.startswith("_") and not st.name.startswith("__"):
                out.add(st.name)
    return out


def t_renamecls(tree):
    """every private module-level class of the package gets the suffix `_k`, consistently in all modules (string constants with the
    class name -- `__qualname__`-style uses -- are left alone)"""
    names = _package_private_classes()
    for n in ast.walk(tree):
        if isinstance(n, ast.Name) and n.id in names:
            n.id += "_k"
        elif isinstance(n, ast.Attribute) and n.attr in names:
            n.attr += "_k"
        elif isinstance(n, ast.ClassDef) and n.name in names and n in tree.body:
            n.name += "_k"
        elif isinstance(n, ast.alias) and n.name in names:
            n.name += "_k"
    return tree


def t_calltemp(tree):
    """`f(g(x), y)` as an expression statement / assignment value, first argument a call -> `argN_ = g(x)` + `f(argN_, y)`"""
    def visit(stmts):
        i = 0
        while i < len(stmts):
            st = stmts[i]
            v = st.value if isinstance(st, (ast.Assign, ast.Expr, ast.Return)) else None
            if isinstance(v, ast.Call) and isinstance(v.func, ast.Name) and v.args and isinstance(v.args[0], ast.Call) and not isinstance(v.args[0].func, ast.Attribute):
                nm = f"arg{st.lineno}_"
                stmts.insert(i, ast.copy_location(ast.Assign(targets=[ast.Name(id=nm, ctx=ast.Store())], value=v.args[0], lineno=st.lineno), st))
                v.args[0] = ast.Name(id=nm, ctx=ast.Load())
                i += 1
            i += 1
    return _rec_blocks(tree, visit)


def t_walrus(tree):
    """`elif type(d) is A: .. elif type(d) is B:` style chains: the first `type(<name>)` / `len(<name>)` call of an if/elif chain's test is
    cached with a walrus and re-used in the later tests of the same chain"""
    counter = [0]

    def visit(stmts):
        for st in stmts:
            if not isinstance(st, ast.If):
                continue
            chain = [st]
            while len(chain[-1].orelse) == 1 and isinstance(chain[-1].orelse[0], ast.If):
                chain.append(chain[-1].orelse[0])
            if len(chain) < 2:
                continue
            first = None
            for c in ast.walk(chain[0].test):
                if isinstance(c, ast.Call) and isinstance(c.func, ast.Name) and c.func.id in ("type", "len") and len(c.args) == 1 and isinstance(c.args[0], ast.Name):
                    first = c
                    break
            if first is None:
                continue
            text = ast.dump(first)
            later = [c for link in chain[1:] for c in ast.walk(link.test) if isinstance(c, ast.Call) and ast.dump(c) == text]
            if not later:
                continue
            # only when the first test evaluates the call first (so the name is bound before the later tests)
            t0 = chain[0].test
            head = t0.left if isinstance(t0, ast.Compare) else t0
            if head is not first:
                continue
            counter[0] += 1
            nm = f"cached{counter[0]}_"

            class R(ast.NodeTransformer):
                def visit_Call(self, n):
                    if n is first:
                        return ast.copy_location(ast.NamedExpr(target=ast.Name(id=nm, ctx=ast.Store()), value=n), n)
                    if ast.dump(n) == text:
                        return ast.copy_location(ast.Name(id=nm, ctx=ast.Load()), n)
                    return self.generic_visit(n)

            for link in chain:
                link.test = R().visit(link.test)
    return _rec_blocks(tree, visit)


def t_tiny(tree):
    """equivalent micro-rewrites: a literal on the left of `==` / `!=`; `x[:i]` -> `x[0:i]`; `for i, v in enumerate(xs)` (xs a plain name) ->
    `for i in range(len(xs)): v = xs[i]`"""
    class R(ast.NodeTransformer):
        def visit_Compare(self, n):
            self.generic_visit(n)
            if len(n.ops) == 1 and isinstance(n.ops[0], (ast.Eq, ast.NotEq)) and isinstance(n.comparators[0], ast.Constant) and isinstance(n.comparators[0].value, str) \
                    and not isinstance(n.left, ast.Constant):
                return ast.copy_location(ast.Compare(left=n.comparators[0], ops=n.ops, comparators=[n.left]), n)
            return n

        def visit_Subscript(self, n):
            self.generic_visit(n)
            if isinstance(n.slice, ast.Slice) and n.slice.lower is None and n.slice.upper is not None and n.slice.step is None and isinstance(n.ctx, ast.Load):
                n.slice.lower = ast.Constant(value=0)
            return n

        def visit_For(self, n):
            self.generic_visit(n)
            if isinstance(n.target, ast.Tuple) and len(n.target.elts) == 2 and all(isinstance(e, ast.Name) for e in n.target.elts) and isinstance(n.iter, ast.Call) \
                    and isinstance(n.iter.func, ast.Name) and n.iter.func.id == "enumerate" and len(n.iter.args) == 1 and isinstance(n.iter.args[0], ast.Name) and not n.iter.keywords:
                i, v, xs = n.target.elts[0].id, n.target.elts[1].id, n.iter.args[0].id
                n.target = ast.Name(id=i, ctx=ast.Store())
                n.iter = ast.Call(func=ast.Name(id="range", ctx=ast.Load()), args=[ast.Call(func=ast.Name(id="len", ctx=ast.Load()), args=[ast.Name(id=xs, ctx=ast.Load())], keywords=[])], keywords=[])
                n.body = [ast.Assign(targets=[ast.Name(id=v, ctx=ast.Store())], value=ast.Subscript(value=ast.Name(id=xs, ctx=ast.Load()), slice=ast.Name(id=i, ctx=ast.Load()), ctx=ast.Load()))] + n.body
            return n
    tree = R().visit(tree)
    ast.fix_missing_locations(tree)
    return tree


TRANSFORMS = {"tiny": t_tiny, "rename": t_rename, "flip": t_flip, "copy": t_copy, "rettemp": t_rettemp, "elseret": t_elseret, "rename2": t_rename2, "nestand": t_nestand, "guard": t_guard, "testtemp": t_testtemp,
              "noann": t_noann, "kwargs": t_kwargs, "demorgan": t_demorgan, "renamefn": t_renamefn, "methodorder": t_methodorder, "splitor": t_splitor, "renamecls": t_renamecls, "calltemp": t_calltemp, "walrus": t_walrus}


def variant(names, files):
    tmp = tempfile.mkdtemp(prefix="jtsa_mech_")
    shutil.copytree("/repo/jaxtyping", os.path.join(tmp, "jaxtyping"), ignore=shutil.ignore_patterns("__pycache__"))
    shutil.copytree("/repo/docs", os.path.join(tmp, "docs"))
    for fn_ in files:
        p = os.path.join(tmp, "jaxtyping", fn_)
        tree = ast.parse(open(p).read())
        for nm in names:
            tree = TRANSFORMS[nm](tree)
        ast.fix_missing_locations(tree)
        src = ast.unparse(tree)
        compile(src, p, "exec")
        open(p, "w").write(src + "\n")
    return tmp


def one(job):
    names, files, props = job
    tmp = variant(names, files)
    out = {}
    try:
        for p in props:
            try:
                ctx = analyse(p, tmp, False)
                new = [f for f in ctx.findings if match_known(f, load_known(), set(ctx.model.functions)) is None]
                if new:
                    out[p] = ["VIOLATION " + f.rule + " " + f.function + ": " + f.message[:150] for f in new[:2]]
                elif ctx.errors:
                    out[p] = ["ANALYSIS-ERROR " + "; ".join(ctx.errors)[:180]]
            except AnalysisError as e:
                out[p] = ["ANALYSIS-ERROR " + str(e)[:180]]
    finally:
        shutil.rmtree(tmp, ignore_errors=True)
    return "+".join(names) + " on " + (",".join(files) if len(files) < 9 else "all files"), out


if __name__ == "__main__":
    args = sys.argv[1:]
    props = args[args.index("--props") + 1].split(",") if "--props" in args else list(PROPS)
    only = args[args.index("--only") + 1].split(",") if "--only" in args else list(TRANSFORMS)
    jobs = [([t], FILES, props) for t in only]
    jobs += [([t], [f], props) for t in only for f in FILES[:5]]
    if len(only) > 1:
        jobs.append((only, FILES, props))
    with ProcessPoolExecutor(max_workers=min(16, os.cpu_count() or 4)) as ex:
        res = list(ex.map(one, jobs))
    nv = ne = 0
    for name, out in res:
        print(name, "->", "silent" if not out else "")
        for p, lst in out.items():
            for x in lst:
                print("     ", p, x)
                nv += x.startswith("VIOLATION")
                ne += x.startswith("ANALYSIS")
    print(f"{len(res)} mechanical variants: {nv} VIOLATION lines, {ne} ANALYSIS-ERROR lines")
