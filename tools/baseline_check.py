#!/venv/bin/python
"""Runs the pinned test suite of a jaxtyping tree (default /repo) and compares with the
267 stable_pass ids of /root/.vp/BASELINE.json.  Usage: baseline_check.py [repo_dir]"""
import json, os, subprocess, sys, tempfile
import xml.etree.ElementTree as ET

repo = sys.argv[1] if len(sys.argv) > 1 else "/repo"
base = json.load(open("/root/.vp/BASELINE.json"))
want = set(base["stable_pass"])
fd, junit = tempfile.mkstemp(suffix=".xml")
os.close(fd)
env = dict(os.environ, PYTHONDONTWRITEBYTECODE="1")
extra = []
if repo != "/repo":
    env["PYTHONPATH"] = repo
subprocess.run(["/venv/bin/python", "-m", "pytest", "-q", "-p", "no:cacheprovider", "--timeout=900",
                "--continue-on-collection-errors", f"--junitxml={junit}"] + sys.argv[2:], cwd=repo, env=env,
               stdout=subprocess.DEVNULL, stderr=subprocess.DEVNULL)
passed = set()
for tc in ET.parse(junit).getroot().iter("testcase"):
    if not any(ch.tag in ("failure", "error", "skipped") for ch in tc):
        passed.add(f"{tc.get('classname')}::{tc.get('name')}")
os.unlink(junit)
missing = sorted(want - passed)
print(f"{repo}: {len(want & passed)}/{len(want)} baseline tests pass; missing: {missing[:10]}")
sys.exit(0 if not missing else 1)
