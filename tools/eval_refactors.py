#!/venv/bin/python
"""Runs all property checks against behaviour-preserving refactorings (diffs) applied to a
throw-away copy of /repo's sources; reports false alarms (VIOLATION) and no-verdicts."""
import glob, json, os, shutil, subprocess, sys, tempfile
sys.path.insert(0, "/verif")
from jtsa.runner import PROPS, analyse, load_known, match_known
from jtsa.core import AnalysisError

src = "/verif/benign"
only = None
props = list(PROPS)
args = sys.argv[1:]
while args:
    a = args.pop(0)
    if a == "--only":
        only = set(args.pop(0).split(","))
    elif a == "--props":
        props = args.pop(0).split(",")
    else:
        src = a
PROPS = props
base = {}
for p in PROPS:
    try:
        base[p] = {f.key for f in analyse(p, "/repo", False).findings}
    except AnalysisError as e:
        base[p] = None
def one(d):
    name = os.path.relpath(d, src)
    tmp = tempfile.mkdtemp(prefix="jtsa_rf_")
    try:
        shutil.copytree("/repo/jaxtyping", os.path.join(tmp, "jaxtyping"), ignore=shutil.ignore_patterns("__pycache__"))
        shutil.copytree("/repo/docs", os.path.join(tmp, "docs"))
        r = subprocess.run(["git", "apply", "--unsafe-paths", "--directory", tmp, d], cwd=tmp, capture_output=True, text=True)
        if r.returncode != 0:
            return name, {"apply": "failed: " + r.stderr[:100]}
        out = {}
        for p in PROPS:
            try:
                ctx = analyse(p, tmp, False)
                new = [f for f in ctx.findings if f.key not in (base[p] or set()) and match_known(f, load_known(), set(ctx.model.functions)) is None]
                if new:
                    out[p] = ["VIOLATION " + f.rule + " " + f.function + ": " + f.message[:140] for f in new[:3]]
                elif ctx.errors:
                    out[p] = ["ANALYSIS-ERROR " + "; ".join(ctx.errors)[:200]]  # a sub-rule gave no verdict (exit 2 of the check)
            except AnalysisError as e:
                out[p] = ["ANALYSIS-ERROR " + str(e)[:200]]
        return name, out
    finally:
        shutil.rmtree(tmp, ignore_errors=True)


diffs = [d for d in sorted(glob.glob(os.path.join(src, "*", "*.diff"))) if "patch_current" not in d]
if only:
    diffs = [d for d in diffs if os.path.relpath(d, src).replace(".diff", "") in only]
from concurrent.futures import ProcessPoolExecutor

with ProcessPoolExecutor(max_workers=min(16, os.cpu_count() or 4)) as ex:
    res = dict(ex.map(one, diffs))
nv = sum(1 for v in res.values() for lst in v.values() if isinstance(lst, list) and any(x.startswith("VIOLATION") for x in lst))
ne = sum(1 for v in res.values() for lst in v.values() if isinstance(lst, list) and any(x.startswith("ANALYSIS") for x in lst))
for k, v in res.items():
    print(k, "->", "silent" if not v else "")
    for p, lst in v.items():
        if isinstance(lst, list):
            for x in lst:
                print("     ", p, x)
        else:
            print("     ", p, lst)
print(f"{len(res)} refactorings: {nv} (refactoring, property) pairs with VIOLATION, {ne} with ANALYSIS-ERROR")
if not only and props == PROPS and len(PROPS) >= 20:
    json.dump(res, open("/verif/notes/benign_eval.json", "w"), indent=1)
