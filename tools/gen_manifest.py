#!/usr/bin/env python3
"""Regenerates /verif/MANIFEST.json from the table below (claimed properties are those
for which jtsa/rules/<id>.py exists)."""
import json
import os

HERE = os.path.dirname(os.path.abspath(__file__))
VERIF = os.path.dirname(HERE)

PY = "/venv/bin/python"

CLAIMS = {
    "C01": dict(
        tech="static analysis: writer/reader exhaustiveness of dim kinds, branch-table vs statement, exception-translation and alias/copy provenance, slice agreement (ast)",
        text="Decides six structural necessary conditions of the array check (dim-kind exhaustiveness, per-axis branch table against the table the statement spells out, NameError->AnnotationError translation with eval on copies, slice agreement, bind-if-absent, rank test) on every path of the checking functions; the shape arithmetic itself is value-level and not decided. Also: no lossy conversion of a symbolic value before the comparison. Also (re-used clauses): the array check's snapshot / restore discipline (C04) and the dtype-name comparison (C03.3); an eval namespace copied once per call while the loop keeps binding is reported as stale. Prefix axes are matched before suffix axes.",
        ref="DESIGN.md §4 C01"),
    "C02": dict(
        tech="static analysis: push/pop typestate through the wrapper (one context for parameters, body and return), argument-forwarding and parameter-kind exhaustiveness checks (ast + CFG)",
        text="Decides that parameters, body and return value are judged in one and the same binding context, forwarded unchanged, with synthetic signatures covering all five parameter kinds; the exists-assignment equivalence is value-level and not decided. Also: wrapping of a dataclass's __init__ is skipped only on the strength of the class's own __init__ (no inherited lookup). Also: push / pop balance and no suspension inside a context around every wrapped call (C05's clauses), so that a call's checks see that call's frame. Also: apply_defaults between bind and push. Within one annotation axes are matched left to right (C01.4). The parameter-check signature is derived from the final full signature.",
        ref="DESIGN.md §4 C02"),
    "C03": dict(
        tech="static analysis: constant folding of the dtype tables, agreement of three export lists, documented hierarchy (docs/api/array.md) vs folded sets, comparison-operator check (ast)",
        text="Decides the table half: which dtype names each of the 34 categories contains (against the documented hierarchy) and how a name is compared; dtype-name extraction per backend depends on run-time names and is not decided. Also: no dtype name / verdict of the checked array is remembered on the annotation class or a module-level object. Also: names are compared by equality only under the test that the entry is a string; plain names are not compiled into an unanchored regex; the check reads the annotation's own dtypes, not a table of the category class. Also: a category's dtypes are never re-bound after the class was defined. The escape hatch asks isinstance(dtype, str), not the exact type.",
        ref="DESIGN.md §4 C03"),
    "C04": dict(
        tech="static analysis: rollback typestate on a statement CFG with Exception/BaseException edge classes (restore followed into helpers and context managers by summaries; callee parameter-write summaries), snapshot provenance and dominance, 4-slot order agreement, unconditional in-place restore (ast + CFG product exploration)",
        text="Decides rollback on every failing exit (False, Exception, BaseException) of both check sites, that snapshots are real copies taken before the mutating call, and that the four memo slots keep one order across get/push/set/restore sites. A lazy snapshot (generator / map object) is reported.",
        ref="DESIGN.md §4 C04"),
    "C05": dict(
        tech="static analysis: interprocedural push/pop typestate with function summaries on a CFG with finally-duplication and two exception classes; storage-discipline and ownership census (ast)",
        text="Decides, for all paths and all three exits of every function that pushes a binding context, that it is popped exactly once; context-manager pairing; no suspension inside a context; storage discipline of the five primitives. Also: the push function cannot fail after it appended the frame; only the innermost frame of the stack is ever read. Also: the push function re-initialises no thread-local / module-level slot beside the stack that the pop function does not put back (per-frame state is part of the frame). Generator detection unwraps the whole __wrapped__ chain.",
        ref="DESIGN.md §4 C05"),
    "C06": dict(
        tech="static analysis: thread-confinement by effect classification of every store reachable from the check entry points over the resolved call graph (ast + call graph)",
        text="Confinement argument valid for all schedules: every module-level object written by check-time code is a threading.local, and no reachable store is rooted in a module-level name, class object or global -- except a keyed memo whose entry is determined by its key through side-effect-free code (a lossy key or an entry computed from the binding context is a violation, anything else undecided). Also: the per-call wrappers write no object created at decoration time (closure cells shared by all threads).",
        ref="DESIGN.md §4 C06"),
    "C07": dict(
        tech="static analysis: path counting of the single call of fn, dominance of the parameter check, handler-exit analysis (exception transparency of every handler around the call of fn), generated-code hole provenance, descriptor sibling agreement (ast + CFG, after inlining of helpers new w.r.t. the pinned tree)",
        text="Decides exactly-once call and identity of the returned object on every normal path, body-not-run on violation, bind errors outside converting handlers, that a handler around the call of fn re-raises and cannot replace the body's exception, functools.wraps/descriptor rebuilding, hygiene of every hole of the exec'd template, coroutine-kind coverage. Also: the forwarded argument list is never re-bound. Also: the set of names a generated name avoids is not a stale snapshot; leaving a context raises nothing of its own (no raise / assert in the pop primitive or the wrappers' finally clauses). The signature follows __wrapped__ like get_type_hints; the checkers are called with one ** mapping.",
        ref="DESIGN.md §4 C07"),
    "C08": dict(
        tech="static analysis: must-pass-through and dominance on the CFG of the PyTree check (every leaf checked, reject on first failure, accept only after the loop), predicate identity flatten/check, rollback and flag typestates (ast + CFG)",
        text="Decides the clauses of the property that are visible in the shape of the code: trivial acceptances first, flatten from the checked value with is_leaf = the very predicate that later checks each leaf, every leaf checked / first failure rejects / acceptance only after the loop, leaf predicate = full typeguard check false exactly on TypeError, no new binding context for leaves, rollback on rejection, flatten-mode flag around the flatten, every union kind jaxtyping recognises dispatched by the leaf predicate's check_type. Which containers jax treats as nodes and PyTree[L] == PyTree[PyTree[L]] are value-level and not decided. Also: no acceptance of an ordinary value before its leaves were checked; the checked leaves come from this call's flatten only. Also: the check predicate is not re-defined with a short cut that accepts a leaf on the flatten-time answer.",
        ref="DESIGN.md §4 C08, §7"),
    "C09": dict(
        tech="static analysis: exception-translation discipline for unbound composite names, ValueError-only raise census and validation dominance in PyTree.__getitem__, bind-if-absent shape (ast + CFG)",
        text="Decides three clauses: unbound name in a composite raises AnnotationError and is not swallowed, structure-string validation raises only ValueError on nodes dominating the class return, identifier form is bind-if-absent/compare; tree composition semantics are value-level and not decided. Also: every name of a composite is looked up; no mode reaches the leaves without one of the three comparisons. Also: the value is walked once, with the leaf predicate; no comparison re-walks the raw value. Every name of a composite is substituted by tree_map; nothing else re-binds the accumulator in the loop.",
        ref="DESIGN.md §4 C09"),
    "C10": dict(
        tech="static analysis: frame condition (complete write set) of the AST transformer, visitor surface, traversal and location-copy checks, template folding and re-parsing (ast)",
        text="A frame condition over JaxtypingTransformer, hence over all programs: the only writes to a visited tree are one import insertion after docstring/__future__, decorator_list.insert(0) on classes, decorator_list.append on functions; copy_location direction; generic_visit on every path; fresh decorator per site; pipeline order. Also: Typechecker.lookup entries are never removed. The decorator table holds its entries strongly.",
        ref="DESIGN.md §4 C10"),
    "C11": dict(
        tech="static analysis: control dependence of loader construction on should_instrument, predicate truth-table vs the statement, install/uninstall object identity, checker dataflow finder->loader->transformer (ast + CFG)",
        text="Decides the predicate shape (equality or prefix with the dot separator), that instrumentation is control-dependent on it, install/uninstall pairing and per-install checker flow, that the configured names reach the finder unchanged and a possibly shared name list is never mutated in place, and the two front ends' wiring; nothing but install_import_hook (or an installer of the same shape) puts a finder on sys.meta_path; the pytest plugin never uninstalls a hook kept in a module-level variable. Also: the pytest plugin imports nothing named on the command line before the hook is installed; the typechecker string is hashed without lossy normalisation (the hash keys the decorator lookup). The name predicate is not a bare prefix test against the list and not an unescaped regex; the decorator table keeps its entries (C10.6).",
        ref="DESIGN.md §4 C11"),
    "C12": dict(
        tech="static analysis: entry-value flag typestate (value at every exit = value at entry, incl. BaseException edges, re-entrancy via call-graph dispatch edges), class-object store census (ast + CFG + call graph)",
        text="Decides that the flatten-mode flag and the '?' label have, at every exit of every function that sets them, the value they had on entry; that the context stack is balanced (C05.1); that annotation classes are immutable after construction; no check-time shared writes; a failed check leaves no binding behind; loading a pickled annotation goes through no process-wide mutable table. A hook instruments exactly the named packages (C11.2).",
        ref="DESIGN.md §4 C12"),
    "C13": dict(
        tech="static analysis: freshness (alias vs live top-of-stack) of the bindings reported on error paths, handler order for AnnotationError, stage wiring and cause-polarity truth table (ast + CFG + call graph)",
        text="Decides that reported bindings denote the live top of the stack, AnnotationError handlers precede Exception handlers around both checks, parameter/return messages are wired to the right stage and raise TypeCheckError, cause polarity per raise site, blame in the same context, no leaked flatten flag / leaf label, no blame data memoised under a lossy rendering of the signature, the blame helper stops probing at the first failing parameter, a failed check leaves no binding that a later message would list; which parameter is blamed is otherwise value-level and not decided. Also: the argument table has the defaults applied (apply_defaults between bind and push), so a {name} axis naming an omitted parameter is not reported as misuse. The parameter check and the blame checkers are built from the final full signature (C02.3).",
        ref="DESIGN.md §4 C13"),
    "C14": dict(
        tech="static analysis: interprocedural may-raise census (only ValueError from construction), guard-dominance for partial operations on the user's spec, modifier-loop and legality-matrix extraction vs the documented one (ast + CFG)",
        text="Decides exception discipline and totality of annotation construction, the modifier loop against the documented modifier bullets, the legality matrix {fixed,symbolic,anonymous} x {variadic,anonymous,treepath,broadcastable}, that the comma / trailing-# tests see the token as written, that nothing parses or compiles a piece of the specification at construction time, and that a token is not used as a string after it was re-bound to its parsed value (raises followed through error factories); the meaning of accepted forms is C01. Also: the two-variadic test of the nesting branch (identity tests against None).",
        ref="DESIGN.md §4 C14"),
    "C15": dict(
        tech="static analysis: reaching-definition and order agreement in the nesting branch, union/TypeVar table, scalar-ladder prefix agreement, lazy aliases vs docs code block (ast)",
        text="Decides agreement clauses only: nested dims/dim_str concatenated outer-first with index_variadic shifted by the outer length, dtype intersection, ValueError on double variadic/empty intersection; every union member built through _make_array with the same category/spec (a member passed on raw is a witness); TypeVar table; scalar ladder (incl. the dim-kind table of the rank-0 test over all six kinds of dim objects); aliases equal the documented definitions. Also: no returned field is computed from the outer dims before the nesting merge without being recomputed; for Any the array-type stage rejects exactly when shape or dtype is missing. The scalar-kind prefix test is asked of the dtype name itself.",
        ref="DESIGN.md §4 C15"),
    "C16": dict(
        tech="static analysis: '?'-label typestate with guard-correlated product states and re-entrancy (call-graph dispatch edges), sibling agreement of treepath prefixing, label-template key disjointness (ast + CFG)",
        text="Decides label ownership (a clear only after this activation's own set, restore instead of constant reset where re-entrant), identical treepath prefixing for single and variadic dims, key disjointness of the label template, the two AnnotationError conditions, that the label only ever builds keys (labelled keys are never taken apart) and that the leaves list has one source (positions are labels). Also: the PyTree check site restores every memo on every failing exit (per-leaf '?' sizes included). The vendored typeguard's check_union moves on to the next member on TypeError only.",
        ref="DESIGN.md §4 C16"),
    "C17": dict(
        tech="static analysis: information-flow census of every use of the checked value (only isinstance / hasattr / .shape / .dtype / forwarding) in the check functions and wrappers (ast def-use)",
        text="Non-interference: the checked value is observed only through its type, .shape and .dtype, so no element value can influence a verdict and a tracer is never concretised by jaxtyping; the argument memo keeps every bound argument whatever its value (values handed to new helpers and loop variables over the bound arguments are followed); neither the check path nor the wrappers consult a tracing framework or sys.modules; behaviour of jax transformations is trusted.",
        ref="DESIGN.md §4 C17"),
    "C18": dict(
        tech="static analysis: cache-tag composition, hash determinism (hashlib only), extent of the cache_from_source patch against a table of loader methods that execute module code, must-pass-through-the-transformer for every return of source_to_code (ast + CFG dominance)",
        text="Decides that the cache tag carries a version literal and the per-loader typechecker hash, the hash is a deterministic digest, the patched region executes no module code, source validation is not bypassed, every code object source_to_code returns was compiled from the transformed tree, nothing run from source_to_code (which importlib calls inside the patched region) imports or executes a module named at run time, no memo of compiled code shared between hooks is keyed without the loader's typechecker, and nothing read while compiling comes from the config object or the environment (inputs the tag does not carry).",
        ref="DESIGN.md §4 C18"),
    "C19": dict(
        tech="static analysis: dominance of the disable guard over bind/push/checks, truth table of the guard over its three atoms, branch table of _maybestr2bool vs the statement, env->update->attribute wiring (ast + CFG)",
        text="Decides, for every wrapper jaxtyped hands back that opens a binding context (new-style and old-style), that the pass-through is taken iff at least one switch is on, is read per call (never at decoration time nor when a hooked module is imported / instrumented), dominates every check; the switches live in one process-wide object (no thread-local / context-local store); the switch parser equals the table in the statement (constant tables of spellings followed); the environment variable is wired to the attribute the wrapper reads, no other key writes it, nothing outside the config module writes it, lazily loaded settings do not reload it. Also: a wrapper that is a coroutine / generator function defers its guard (reported); the parser table includes the numbers 0 and 1.",
        ref="DESIGN.md §4 C19"),
    "C20": dict(
        tech="static analysis: reducer registration, no-sentinel-on-the-wire, determinacy of every class-dict field from what the reducer replays (ast def-use)",
        text="Decides that a reducer is registered at import time for exactly every metaclass _make_array can instantiate (copyreg dispatches on the exact type), replays only picklable fields, and that every attribute of an annotation class is a function of what the reducer replays (constructor arguments), including nested annotations; by-reference resolvability of categories (C03.1a); no verdict table keyed by id()/str()/name of something a reloaded copy owns; nothing but plain literals is put on an annotation class after it was created, and no function building the namespace reads a module-level table whose stored values depend on registration order in this process (by-value serialisers ship the namespace). Also: nothing process-local goes on the wire; a category's dtypes are bound in __init_subclass__ only.",
        ref="DESIGN.md §4 C20"),
}

NOT_APPLICABLE = {}

NOTE = ("Static analysis of /repo's source text with CPython's ast (jtsa: own name resolution, call graph, statement CFG "
        "with Exception/BaseException edge classes and finally-duplication, product-state typestate solver). Nothing under "
        "/repo is imported or executed. Decides the structural clauses named in level_claimed.text (necessary conditions of the "
        "behaviour); value-level clauses are listed as 'Not decided' in DESIGN.md §4. Exit 2 + 'ANALYSIS-ERROR' = no verdict "
        "(anchor vanished / unknown shape), never a silent pass.")


def main():
    checks = []
    na = dict(NOT_APPLICABLE)
    for pid in sorted(CLAIMS):
        c = CLAIMS[pid]
        if not os.path.exists(os.path.join(VERIF, "jtsa", "rules", f"{pid.lower()}.py")):
            na[pid] = "check not built yet (planned: " + c["tech"] + ")"
            continue
        checks.append({
            "property_id": pid,
            "quick_cmd": f"{PY} -m jtsa check {pid}",
            "thorough_cmd": f"{PY} -m jtsa check {pid} --thorough",
            "evidence_file": f"/verif/evidence/{pid}.json",
            "replay_cmd_template": f"{PY} -m jtsa replay {{path}}",
            "engine": "jtsa",
            "level_claimed": {"category": "other", "text": c["text"], "design_ref": c["ref"]},
            "level_note": NOTE,
            "technique": c["tech"],
        })
    man = {
        "version": 1,
        "setup_cmd": f"{PY} -c \"import ast, sys; assert sys.version_info >= (3, 9)\"",
        "hooks": {
            "guard": "PATRICK_KIDGER_JAXTYPING_VERIF",
            "enable": "none needed: the checks read /repo's source with ast and never import or run it; no hook commit exists",
            "baseline_off_cmd": "cd /repo && /venv/bin/python -m pytest -ra -q -p no:cacheprovider --timeout=900 --continue-on-collection-errors",
            "source_commits": [],
            "add_only": True,
        },
        "engines": [{
            "name": "jtsa",
            "path": "/verif/jtsa",
            "serves_properties": [c["property_id"] for c in checks],
            "kind_free_text": "repository-specific static analyser on CPython ast: source model + callee resolution, call graph with dispatch pseudo-edges, statement CFG with two exception classes and finally duplication, product-state typestate solver, constant folder, branch tables, effect/ownership classification",
        }],
        "checks": checks,
        "notes": "All checks are static (family: static analysis). known_findings.json lists recorded defects; fix: commits in /repo are listed there as fixed entries (suppress nothing).",
        "not_applicable": [{"property_id": k, "reason": v} for k, v in sorted(na.items())],
    }
    with open(os.path.join(VERIF, "MANIFEST.json"), "w") as f:
        json.dump(man, f, indent=1)
    print(f"MANIFEST: {len(checks)} checks, {len(na)} not applicable")


if __name__ == "__main__":
    main()
