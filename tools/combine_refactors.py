#!/venv/bin/python
"""Applies random *combinations* of the benign refactorings (as many as apply cleanly on top of each other, up to
--max per combination) to a throw-away copy of /repo's sources and runs all property checks: refactorings that are
each harmless must stay harmless together.  usage: combine_refactors.py [--n 12] [--max 5] [--seed 1]"""
import glob, os, random, shutil, subprocess, sys, tempfile
sys.path.insert(0, os.path.dirname(os.path.dirname(os.path.abspath(__file__))))
from jtsa.runner import PROPS, analyse, load_known, match_known
from jtsa.core import AnalysisError
from concurrent.futures import ProcessPoolExecutor

args = sys.argv[1:]
def opt(name, default):
    return int(args[args.index(name) + 1]) if name in args else default
N, MAX, SEED = opt("--n", 12), opt("--max", 5), opt("--seed", 1)
src = os.path.join(os.path.dirname(os.path.dirname(os.path.abspath(__file__))), "benign")
diffs = sorted(d for d in glob.glob(os.path.join(src, "*", "*.diff")) if "patch_current" not in d)
base = {}
for p in PROPS:
    try:
        base[p] = {f.key for f in analyse(p, "/repo", False).findings}
    except AnalysisError:
        base[p] = None


def one(i):
    rnd = random.Random(SEED * 1000 + i)
    order = diffs[:]
    rnd.shuffle(order)
    tmp = tempfile.mkdtemp(prefix="jtsa_cmb_")
    applied = []
    try:
        shutil.copytree("/repo/jaxtyping", os.path.join(tmp, "jaxtyping"), ignore=shutil.ignore_patterns("__pycache__"))
        shutil.copytree("/repo/docs", os.path.join(tmp, "docs"))
        for d in order:
            if len(applied) >= MAX:
                break
            r = subprocess.run(["git", "apply", "--unsafe-paths", "--directory", tmp, d], cwd=tmp, capture_output=True, text=True)
            if r.returncode == 0:
                applied.append(os.path.relpath(d, src).replace(".diff", ""))
        # the combination must still be valid Python
        for py in glob.glob(os.path.join(tmp, "jaxtyping", "*.py")):
            compile(open(py).read(), py, "exec")
        out = {}
        for p in PROPS:
            try:
                ctx = analyse(p, tmp, False)
                new = [f for f in ctx.findings if f.key not in (base[p] or set()) and match_known(f, load_known(), set(ctx.model.functions)) is None]
                if new:
                    out[p] = ["VIOLATION " + f.rule + " " + f.function + ": " + f.message[:140] for f in new[:2]]
                elif ctx.errors:
                    out[p] = ["ANALYSIS-ERROR " + "; ".join(ctx.errors)[:200]]
            except AnalysisError as e:
                out[p] = ["ANALYSIS-ERROR " + str(e)[:200]]
        return applied, out
    finally:
        shutil.rmtree(tmp, ignore_errors=True)


with ProcessPoolExecutor(max_workers=min(16, os.cpu_count() or 4)) as ex:
    res = list(ex.map(one, range(N)))
nv = ne = 0
for applied, out in res:
    print("+".join(applied), "->", "silent" if not out else "")
    for p, lst in out.items():
        for x in lst:
            print("     ", p, x)
            nv += x.startswith("VIOLATION")
            ne += x.startswith("ANALYSIS")
print(f"{len(res)} combinations: {nv} VIOLATION lines, {ne} ANALYSIS-ERROR lines")
