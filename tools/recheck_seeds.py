#!/venv/bin/python
"""Re-evaluates the independent seeds under /verif/seeded against the *current* rules: for each seed the sources of /repo at
the seed's base commit are unpacked into a throw-away directory, the property's quick check is run there before and after the
patch (nothing from /repo is executed; /repo itself is not touched), and the `checker` / `detected_by` fields of meta.json are
rewritten.  The validity fields (demo, baseline suite) are left as verify_seed.py recorded them.

usage: recheck_seeds.py [C13_7 C18_8 ...]      (default: all seeds)"""
import glob, json, os, shutil, subprocess, sys, tempfile
from concurrent.futures import ProcessPoolExecutor

HERE = os.path.dirname(os.path.dirname(os.path.abspath(__file__)))
PY = "/venv/bin/python"


def viol(outtxt):
    return {l.split("replay=")[1].strip() for l in outtxt.splitlines() if l.startswith("VIOLATION")}


def run_check(prop, root):
    p = subprocess.run([PY, "-m", "jtsa", "check", prop, "--root", root], cwd=HERE, capture_output=True, text=True, env=dict(os.environ, JTSA_NO_EVIDENCE="1"))
    return p.returncode, p.stdout + p.stderr


def one(d):
    mp = os.path.join(d, "meta.json")
    meta = json.load(open(mp))
    prop = meta["property"]
    base = meta.get("base_commit") or "HEAD"
    props = list(meta.get("checker", {prop: None}).keys()) or [prop]
    tmp = tempfile.mkdtemp(prefix="jtsa_rs_")
    try:
        r = subprocess.run(f"git -C /repo archive {base} jaxtyping docs | tar -x -C {tmp}", shell=True, capture_output=True, text=True)
        if r.returncode:
            return os.path.basename(d), "archive failed: " + r.stderr[:100]
        before = {p_: run_check(p_, tmp) for p_ in props}
        r = subprocess.run(["git", "apply", "--unsafe-paths", "--directory", tmp, os.path.join(d, "patch.diff")], cwd=tmp, capture_output=True, text=True)
        if r.returncode:
            return os.path.basename(d), "patch does not apply: " + r.stderr[:100]
        det = {}
        for p_ in props:
            rcc, oc = run_check(p_, tmp)
            newv = viol(oc) - viol(before[p_][1])
            lines = [l for l in oc.splitlines() if l.startswith("[C") or "ANALYSIS-ERROR" in l]
            # findings already reported on the base tree are not detections
            base_lines = {l for l in before[p_][1].splitlines() if l.startswith("[C")}
            lines = [l for l in lines if l not in base_lines]
            det[p_] = {"exit_base": before[p_][0], "exit": rcc, "new_violations": len(newv), "report": [l[:300] for l in lines[:10]]}
        meta["checker"] = det
        meta["detected_by"] = [p_ for p_, v in det.items() if v["exit"] == 1 and v["new_violations"] > 0]
        json.dump(meta, open(mp, "w"), indent=1)
        own = det[prop]
        return os.path.basename(d), ("detected" if prop in meta["detected_by"] else "no verdict (exit 2)" if own["exit"] == 2 else "silent")
    finally:
        shutil.rmtree(tmp, ignore_errors=True)


if __name__ == "__main__":
    want = set(sys.argv[1:])
    dirs = [d for d in sorted(glob.glob(os.path.join(HERE, "seeded", "*"))) if os.path.exists(os.path.join(d, "meta.json")) and (not want or os.path.basename(d) in want)]
    with ProcessPoolExecutor(max_workers=min(16, os.cpu_count() or 4)) as ex:
        res = list(ex.map(one, dirs))
    tally = {}
    for name, r in res:
        tally[r] = tally.get(r, 0) + 1
        print(name, r)
    print(tally)
