"""Anchor discovery by role: thread-local storage objects, the functions that operate on
them (census of storage operations), flag setters/clearers, wrappers, check entry points.

Names are used to *find* candidates; the role (what the function does to the
thread-local) is verified structurally, and a vanished anchor is an AnalysisError.
"""
from __future__ import annotations

import ast
from typing import Optional

from .core import AnalysisError, need, norm
from .model import FuncInfo, Model, dotted_of, root_name, walk_scope, walk_with_lambdas


def call_order_key(c: ast.AST):
    return (getattr(c, "end_lineno", 0), getattr(c, "end_col_offset", 0))


def node_eval_asts(node) -> list:
    """AST sub-trees evaluated when control passes through a CFG node."""
    k = node.kind
    a = node.ast
    if a is None:
        return []
    if k in ("stmt", "return", "raise", "assert", "test", "while", "with_enter"):
        return [a]
    if k == "def":
        out = list(getattr(a, "decorator_list", []))
        if hasattr(a, "args"):
            out += list(a.args.defaults) + [d for d in a.args.kw_defaults if d is not None]
        if isinstance(a, ast.ClassDef):
            out += list(a.bases) + [kw.value for kw in a.keywords]
        return out
    return []


def calls_in_asts(asts) -> list:
    out = []
    for a in asts:
        stack = [a]
        while stack:
            n = stack.pop()
            if isinstance(n, (ast.FunctionDef, ast.AsyncFunctionDef, ast.ClassDef)) and n is not a:
                continue
            if isinstance(n, ast.Lambda):
                continue  # body runs only when the lambda is called
            if isinstance(n, ast.Call):
                out.append(n)
            stack.extend(ast.iter_child_nodes(n))
    out.sort(key=call_order_key)
    return out


def node_calls(node) -> list:
    return calls_in_asts(node_eval_asts(node))


class StorageOp:
    def __init__(self, fn, tl, attr, op, node):
        self.fn, self.tl, self.attr, self.op, self.node = fn, tl, attr, op, node

    def __repr__(self):
        return f"<{self.op} {self.tl[1]}.{self.attr} in {self.fn.qualname}>"


class Roles:
    def __init__(self, model: Model):
        self.m = model
        self.thread_locals: dict = {}  # (modshort, name) -> value node
        self.plain_storage: dict = {}  # module-level *_storage objects that are NOT threading.local
        self._inst_tl: dict = {}
        self._find_thread_locals()
        self.ops: list[StorageOp] = []
        self._census()

    # ---------------------------------------------------------------- storage
    def is_threading_local_call(self, mod, v) -> bool:
        if not isinstance(v, ast.Call):
            return False
        d = dotted_of(v.func)
        if d is None:
            return False
        parts = d.split(".")
        head = mod.imports.get(parts[0])
        if head is not None:
            full = ".".join([head] + parts[1:])
            if full == "threading.local":
                return True
        # an instance of a subclass of threading.local that keeps per-thread state per thread: no
        # __slots__ (slots live on the class: shared), no mutable class attributes (shared), an __init__
        # (run once per thread *with the same arguments*) that takes no arguments and stores only fresh values
        t = self.m.resolve_expr_static(mod, v.func) if isinstance(v.func, (ast.Name, ast.Attribute)) else None
        from .model import ClassInfo

        if isinstance(t, ClassInfo) and "threading.local" in self.m.external_bases(t) and not v.args and not v.keywords:
            return self.local_subclass_is_confined(t) is None
        return False

    def local_subclass_is_confined(self, c):
        """None if every attribute of an instance of this threading.local subclass is per-thread;
        otherwise a description of what is shared between threads."""
        from .model import ClassInfo

        for k in self.m.mro(c):
            if not isinstance(k, ClassInfo):
                continue
            for name, vals in k.assigns.items():
                if name == "__slots__":
                    return f"`__slots__` on {k.name}: slot descriptors live on the class, their values are not per-thread"
                for v in vals:
                    if v is None:
                        continue  # bare annotation
                    if not (isinstance(v, ast.Constant) or (isinstance(v, ast.Tuple) and all(isinstance(e, ast.Constant) for e in v.elts))):
                        return f"class attribute `{k.name}.{name} = {norm(v)[:40]}` is one object shared by all threads"
            init = k.methods.get("__init__")
            if init is not None:
                if len(init.params) > 1:
                    return f"{k.name}.__init__ takes arguments: threading.local re-runs __init__ in every thread with the same argument objects"
                for n in walk_scope(init.node):
                    if isinstance(n, ast.Assign) and not (isinstance(n.value, (ast.Constant, ast.List, ast.Dict, ast.Set, ast.Tuple))
                                                          or (isinstance(n.value, ast.Call) and isinstance(n.value.func, ast.Name) and n.value.func.id in ("list", "dict", "set"))):
                        return f"{k.name}.__init__ stores `{norm(n.value)[:40]}`, which may be shared between threads"
        return None

    def _find_thread_locals(self):
        for mod in self.m.modules.values():
            for name, vals in mod.assigns.items():
                for v in vals:
                    if self.is_threading_local_call(mod, v):
                        if len(vals) != 1:
                            raise AnalysisError(
                                f"{mod.relpath}: {name} is assigned {len(vals)} times, once from threading.local()"
                            )
                        self.thread_locals[(mod.short, name)] = v

    def tl_of_expr(self, fn, e, aliases=None) -> Optional[tuple]:
        """If expression `e` is rooted in a thread-local object: ((mod,name), attr-chain)."""
        chain = []
        x = e
        while True:
            if isinstance(x, ast.Attribute):
                chain.append(x.attr)
                x = x.value
            elif isinstance(x, ast.Subscript):
                chain.append("[]")
                x = x.value
            elif isinstance(x, ast.Call) and isinstance(x.func, ast.Name) and x.func.id == "getattr" and len(x.args) in (2, 3) and not x.keywords \
                    and isinstance(x.args[1], ast.Constant) and isinstance(x.args[1].value, str):
                chain.append(x.args[1].value)  # `getattr(tl, "attr", default)` reads tl.attr
                x = x.args[0]
            else:
                break
        if not isinstance(x, ast.Name):
            return None
        chain.reverse()
        if aliases and x.id in aliases:
            tl, pre = aliases[x.id]
            return (tl, pre + chain)
        b = self.m.resolve_name(fn, x.id)
        if b.kind == "modvar":
            mod, name = b.target
            if (mod.short, name) in self.thread_locals:
                return ((mod.short, name), chain)
        # a threading.local() kept in an attribute of an object of an internal class
        # (`self._local = threading.local()` in a method; reached as `self._local.x` / `obj._local.x`)
        if chain and chain[0] != "[]":
            ic = self.m.instance_class(fn, x)
            if ic is not None:
                key = (ic.module.short, f"{ic.name}.{chain[0]}")
                if key not in self._inst_tl:
                    vals = self.m.instance_attr_values(ic, chain[0])
                    self._inst_tl[key] = bool(vals) and all(v is not None and self.is_threading_local_call(ic.module, v) for _, v in vals)
                    if self._inst_tl[key]:
                        self.thread_locals[key] = vals[0][1]
                if self._inst_tl[key]:
                    return (key, chain[1:])
        return None

    def local_aliases(self, fn) -> dict:
        """One-level local aliases `v = <tl>.attr` (also chained `a = b = <tl>.attr = []`)."""
        al = {}
        stores = {}
        for n in walk_scope(fn.node):
            if isinstance(n, ast.Name) and isinstance(n.ctx, ast.Store):
                stores[n.id] = stores.get(n.id, 0) + 1
        for _round in range(3):  # `storage = self._storage; stack = storage.memo_stack`: aliases of aliases
            before = len(al)
            for n in walk_scope(fn.node):
                if isinstance(n, ast.Assign):
                    srcs = [n.value] + [t for t in n.targets if not isinstance(t, ast.Name)]
                    hit = None
                    for s in srcs:
                        r = self.tl_of_expr(fn, s, al)
                        # an alias of the thread-local object itself (empty chain) only for a local bound once
                        if r is not None and (r[1] or all(isinstance(t, ast.Name) and stores.get(t.id) == 1 for t in n.targets)):
                            hit = r
                    if hit is not None:
                        for t in n.targets:
                            if isinstance(t, ast.Name) and t.id not in al:
                                al[t.id] = hit
            if len(al) == before:
                break
        return al

    MUTATORS = {"append", "insert", "pop", "remove", "clear", "extend", "update", "setdefault",
                "add", "discard", "popitem", "sort", "reverse", "__setitem__", "__delitem__"}

    def _census(self):
        for fn in self.m.all_functions():
            al = self.local_aliases(fn)
            for n in walk_with_lambdas(fn.node):
                self._census_node(fn, n, al)
        # module-level statements touching the thread-locals (other than creation)
        for mod in self.m.modules.values():
            for st in mod.tree.body:
                if isinstance(st, (ast.FunctionDef, ast.AsyncFunctionDef, ast.ClassDef)):
                    continue
                for n in ast.walk(st):
                    if isinstance(n, (ast.FunctionDef, ast.AsyncFunctionDef, ast.ClassDef)):
                        break
                    self._census_node(mod, n, {})

    def _census_node(self, fn, n, al):
        def rec(e, op):
            r = self.tl_of_expr(fn, e, al)
            if r is not None and r[1]:
                self.ops.append(StorageOp(fn, r[0], ".".join(r[1]), op, n))
                return True
            return False

        if isinstance(n, ast.Call) and isinstance(n.func, ast.Attribute):
            if n.func.attr in self.MUTATORS:
                if rec(n.func.value, "call:" + n.func.attr):
                    return
        if isinstance(n, ast.Call) and isinstance(n.func, ast.Name) and n.func.id in ("setattr", "delattr"):
            if n.args and isinstance(n.args[0], ast.Name):
                b = self.m.resolve_name(fn, n.args[0].id)
                if b.kind == "modvar" and (b.target[0].short, b.target[1]) in self.thread_locals:
                    self.ops.append(StorageOp(fn, (b.target[0].short, b.target[1]), "?", "store", n))
        if isinstance(n, ast.Call) and isinstance(n.func, ast.Name) and n.func.id in ("getattr", "hasattr") and len(n.args) >= 2 \
                and isinstance(n.args[0], ast.Name) and isinstance(n.args[1], ast.Constant) and isinstance(n.args[1].value, str):
            b = self.m.resolve_name(fn, n.args[0].id)
            if b.kind == "modvar" and (b.target[0].short, b.target[1]) in self.thread_locals:
                self.ops.append(StorageOp(fn, (b.target[0].short, b.target[1]), n.args[1].value, "load", n))
        if isinstance(n, (ast.Attribute, ast.Subscript)):
            if isinstance(n.ctx, ast.Store):
                rec(n, "store")
            elif isinstance(n.ctx, ast.Del):
                rec(n, "del")
            elif isinstance(n.ctx, ast.Load):
                # only record the outermost load of a chain
                rec(n, "load")

    def ops_by_fn(self) -> dict:
        d = {}
        for o in self.ops:
            if o.op == "load":
                continue
            d.setdefault(o.fn.qualname, []).append(o)
        return d

    # ------------------------------------------------------------ named roles
    def storage_fn(self, name: str) -> FuncInfo:
        return self.m.func(f"_storage.{name}")

    def _stack_role(self, role: str) -> FuncInfo:
        """The API function with a role on the binding-context stack.  The pinned name is used
        when it still exists; after a rename the function is found by what it does to the
        thread-local stack (the attribute something `.append`s to): push appends, pop pops,
        'set' writes the dicts on top of it (or replaces the top), 'get' hands the top out."""
        cache = self.__dict__.setdefault("_stack_roles", {})
        if role in cache:
            return cache[role]
        named = {"push": "push_shape_memo", "pop": "pop_shape_memo", "get": "get_shape_memo", "set": "set_shape_memo"}[role]
        f = self.m.functions.get(f"_storage.{named}")
        if f is None:
            try:
                f = self.m.func(f"_storage.{named}")
            except AnalysisError:
                f = None
        if f is None:
            f = self._discover_stack_role(role, named)
        cache[role] = f
        return f

    def _discover_stack_role(self, role: str, named: str) -> FuncInfo:
        stacks = {(o.tl, o.attr.split(".")[0]) for o in self.ops if o.op == "call:append"}
        need(len(stacks) == 1, f"anchor function _storage.{named} not found (and {len(stacks)} thread-local stacks to look for its role)")
        (tl, attr), = stacks
        by_fn: dict = {}
        for o in self.ops:
            if o.tl == tl and o.attr.split(".")[0] == attr and isinstance(o.fn, FuncInfo):
                by_fn.setdefault(o.fn.qualname, []).append(o)
        cands = []
        for q, ops in by_fn.items():
            fn = self.m.functions[q]
            kinds = {o.op for o in ops}
            has_value_return = any(isinstance(n, ast.Return) and n.value is not None and not (isinstance(n.value, ast.Constant) and n.value.value is None)
                                   for n in walk_scope(fn.node))
            mutates_elems = any(isinstance(n, ast.Call) and isinstance(n.func, ast.Attribute) and n.func.attr in ("clear", "update")
                                and isinstance(n.func.value, ast.Name) for n in walk_scope(fn.node))
            if role == "push" and "call:append" in kinds:
                cands.append(fn)
            elif role == "pop" and "call:pop" in kinds:
                cands.append(fn)
            elif role == "set" and "call:append" not in kinds and "call:pop" not in kinds and ("store" in kinds or mutates_elems) and not has_value_return:
                cands.append(fn)
            elif role == "get" and kinds <= {"load"} and has_value_return and not mutates_elems \
                    and any(isinstance(n, ast.Return) and isinstance(n.value, ast.Tuple) and len(n.value.elts) == 4 for n in walk_scope(fn.node)):
                cands.append(fn)
        # prefer the outermost API function: one that is not only called by another candidate
        need(len(cands) == 1, f"anchor function _storage.{named} not found (role '{role}': {len(cands)} candidates by effect: {[c.qualname for c in cands]})")
        return cands[0]

    @property
    def push(self):
        return self._stack_role("push")

    @property
    def pop(self):
        return self._stack_role("pop")

    @property
    def get(self):
        return self._stack_role("get")

    @property
    def set(self):
        return self._stack_role("set")

    CANON = ("push_shape_memo", "pop_shape_memo", "get_shape_memo", "set_shape_memo", "shape_str", "print_bindings",
             "set_treepath_memo", "clear_treepath_memo", "get_treepath_memo", "set_treeflatten_memo", "clear_treeflatten_memo",
             "get_treeflatten_memo")

    def role_of_call(self, fn, call: ast.Call) -> Optional[str]:
        """Canonical name of the _storage function a call resolves to (through imports and
        module-level aliases such as `push_shape_memo = _Stack.push`), else None."""
        t = self.m.resolve_call(fn, call)
        if t.kind == "func" and t.target.module.short == "_storage":
            if not hasattr(self, "_canon_by_id"):
                self._canon_by_id = {}
                for nm in self.CANON:
                    f = self.m.functions.get(f"_storage.{nm}")
                    if f is None:
                        try:
                            f = self.m.func(f"_storage.{nm}")
                        except Exception:
                            f = None
                    if f is None and nm in ("push_shape_memo", "pop_shape_memo", "get_shape_memo", "set_shape_memo"):
                        try:
                            f = self._stack_role(nm.split("_")[0])
                        except AnalysisError:
                            f = None
                    if f is not None:
                        self._canon_by_id[id(f)] = nm
            return self._canon_by_id.get(id(t.target), t.target.name)
        return None

    # -------------------------------------------------------------- entry points
    def instancecheck_methods(self) -> list:
        out = []
        for c in self.m.classes.values():
            if c.module.short.startswith("_typeguard"):
                continue
            for nm in ("__instancecheck__", "__instancecheck_str__", "__subclasscheck__"):
                if nm in c.methods:
                    out.append(c.methods[nm])
        return out

    def wrappers(self) -> dict:
        """Closures created by `jaxtyped`: 'wraps' = those jaxtyped hands back to the user
        (their name is returned by jaxtyped, or they carry functools.wraps), 'impl' = the
        other nested functions."""
        jt = self.m.func("_decorator.jaxtyped")
        returned = set()
        for st in walk_scope(jt.node):
            if isinstance(st, ast.Return) and isinstance(st.value, ast.Name):
                returned.add(st.value.id)
        res = {"wraps": [], "impl": []}
        for f in self.m.functions.values():
            if f.parent is not jt:
                continue
            is_wraps = f.name in returned
            for d in f.decorators:
                if isinstance(d, ast.Call):
                    t = self.m.resolve_call(jt, d)
                    if t.kind == "ext" and t.target == "functools.wraps":
                        is_wraps = True
            if is_wraps:
                res["wraps"].append(f)
            else:
                # the checking implementation(s): nested functions that take part in the call -- they mention the decorated function or one of the
                # synthesised checkers, or are called by a wrapper with the call's arguments.  A nested predicate / formatting helper
                # (`lacks_jaxtyping_note(e)`, `modify_annotation(ann)`) is neither a wrapper nor an implementation.
                names = {n.id for n in ast.walk(f.node) if isinstance(n, ast.Name)}
                checkers = {t.id for st in walk_scope(jt.node) if isinstance(st, ast.Assign) and isinstance(st.value, ast.Call)
                            and isinstance(st.value.func, ast.Name) and st.value.func.id in ("_make_fn_with_signature", "_apply_typechecker")
                            for t in st.targets for t in ([t] if isinstance(t, ast.Name) else [e for e in getattr(t, "elts", []) if isinstance(e, ast.Name)])}
                if "fn" in names or (names & checkers) or f.name == "modify_annotation":
                    res["impl"].append(f)
                else:
                    res.setdefault("helpers", []).append(f)
        need(res["wraps"], "no wrapper closure returned by jaxtyped found")
        return res


_ROLES_CACHE: dict = {}


def roles_for(model: Model) -> Roles:
    r = _ROLES_CACHE.get(id(model))
    if r is None or r.m is not model:
        r = Roles(model)
        _ROLES_CACHE.clear()
        _ROLES_CACHE[id(model)] = r
    return r
