"""Anchor discovery by role: thread-local storage objects, the functions that operate on
them (census of storage operations), flag setters/clearers, wrappers, check entry points.

Names are used to *find* candidates; the role (what the function does to the
thread-local) is verified structurally, and a vanished anchor is an AnalysisError.
"""
from __future__ import annotations

import ast
from typing import Optional

from .core import AnalysisError, need, norm
from .model import FuncInfo, Model, dotted_of, root_name, walk_scope, walk_with_lambdas


def call_order_key(c: ast.AST):
    return (getattr(c, "end_lineno", 0), getattr(c, "end_col_offset", 0))


def node_eval_asts(node) -> list:
    """AST sub-trees evaluated when control passes through a CFG node."""
    k = node.kind
    a = node.ast
    if a is None:
        return []
    if k in ("stmt", "return", "raise", "assert", "test", "while", "with_enter"):
        return [a]
    if k == "def":
        out = list(getattr(a, "decorator_list", []))
        if hasattr(a, "args"):
            out += list(a.args.defaults) + [d for d in a.args.kw_defaults if d is not None]
        if isinstance(a, ast.ClassDef):
            out += list(a.bases) + [kw.value for kw in a.keywords]
        return out
    return []


def calls_in_asts(asts) -> list:
    out = []
    for a in asts:
        stack = [a]
        while stack:
            n = stack.pop()
            if isinstance(n, (ast.FunctionDef, ast.AsyncFunctionDef, ast.ClassDef)) and n is not a:
                continue
            if isinstance(n, ast.Lambda):
                continue  # body runs only when the lambda is called
            if isinstance(n, ast.Call):
                out.append(n)
            stack.extend(ast.iter_child_nodes(n))
    out.sort(key=call_order_key)
    return out


def node_calls(node) -> list:
    return calls_in_asts(node_eval_asts(node))


class StorageOp:
    def __init__(self, fn, tl, attr, op, node):
        self.fn, self.tl, self.attr, self.op, self.node = fn, tl, attr, op, node

    def __repr__(self):
        return f"<{self.op} {self.tl[1]}.{self.attr} in {self.fn.qualname}>"


class Roles:
    def __init__(self, model: Model):
        self.m = model
        self.thread_locals: dict = {}  # (modshort, name) -> value node
        self.plain_storage: dict = {}  # module-level *_storage objects that are NOT threading.local
        self._inst_tl: dict = {}
        self._find_thread_locals()
        self.ops: list[StorageOp] = []
        self._census()

    # ---------------------------------------------------------------- storage
    def is_threading_local_call(self, mod, v) -> bool:
        if not isinstance(v, ast.Call):
            return False
        d = dotted_of(v.func)
        if d is None:
            return False
        parts = d.split(".")
        head = mod.imports.get(parts[0])
        if head is None:
            return False
        full = ".".join([head] + parts[1:])
        return full == "threading.local"

    def _find_thread_locals(self):
        for mod in self.m.modules.values():
            for name, vals in mod.assigns.items():
                for v in vals:
                    if self.is_threading_local_call(mod, v):
                        if len(vals) != 1:
                            raise AnalysisError(
                                f"{mod.relpath}: {name} is assigned {len(vals)} times, once from threading.local()"
                            )
                        self.thread_locals[(mod.short, name)] = v

    def tl_of_expr(self, fn, e, aliases=None) -> Optional[tuple]:
        """If expression `e` is rooted in a thread-local object: ((mod,name), attr-chain)."""
        chain = []
        x = e
        while True:
            if isinstance(x, ast.Attribute):
                chain.append(x.attr)
                x = x.value
            elif isinstance(x, ast.Subscript):
                chain.append("[]")
                x = x.value
            else:
                break
        if not isinstance(x, ast.Name):
            return None
        chain.reverse()
        if aliases and x.id in aliases:
            tl, pre = aliases[x.id]
            return (tl, pre + chain)
        b = self.m.resolve_name(fn, x.id)
        if b.kind == "modvar":
            mod, name = b.target
            if (mod.short, name) in self.thread_locals:
                return ((mod.short, name), chain)
        # a threading.local() kept in an attribute of an object of an internal class
        # (`self._local = threading.local()` in a method; reached as `self._local.x` / `obj._local.x`)
        if chain and chain[0] != "[]":
            ic = self.m.instance_class(fn, x)
            if ic is not None:
                key = (ic.module.short, f"{ic.name}.{chain[0]}")
                if key not in self._inst_tl:
                    vals = self.m.instance_attr_values(ic, chain[0])
                    self._inst_tl[key] = bool(vals) and all(v is not None and self.is_threading_local_call(ic.module, v) for _, v in vals)
                    if self._inst_tl[key]:
                        self.thread_locals[key] = vals[0][1]
                if self._inst_tl[key]:
                    return (key, chain[1:])
        return None

    def local_aliases(self, fn) -> dict:
        """One-level local aliases `v = <tl>.attr` (also chained `a = b = <tl>.attr = []`)."""
        al = {}
        for n in walk_scope(fn.node):
            if isinstance(n, ast.Assign):
                srcs = [n.value] + [t for t in n.targets if not isinstance(t, ast.Name)]
                hit = None
                for s in srcs:
                    r = self.tl_of_expr(fn, s)
                    if r is not None and r[1]:
                        hit = r
                if hit is not None:
                    for t in n.targets:
                        if isinstance(t, ast.Name):
                            al[t.id] = hit
        return al

    MUTATORS = {"append", "insert", "pop", "remove", "clear", "extend", "update", "setdefault",
                "add", "discard", "popitem", "sort", "reverse", "__setitem__", "__delitem__"}

    def _census(self):
        for fn in self.m.all_functions():
            al = self.local_aliases(fn)
            for n in walk_with_lambdas(fn.node):
                self._census_node(fn, n, al)
        # module-level statements touching the thread-locals (other than creation)
        for mod in self.m.modules.values():
            for st in mod.tree.body:
                if isinstance(st, (ast.FunctionDef, ast.AsyncFunctionDef, ast.ClassDef)):
                    continue
                for n in ast.walk(st):
                    if isinstance(n, (ast.FunctionDef, ast.AsyncFunctionDef, ast.ClassDef)):
                        break
                    self._census_node(mod, n, {})

    def _census_node(self, fn, n, al):
        def rec(e, op):
            r = self.tl_of_expr(fn, e, al)
            if r is not None and r[1]:
                self.ops.append(StorageOp(fn, r[0], ".".join(r[1]), op, n))
                return True
            return False

        if isinstance(n, ast.Call) and isinstance(n.func, ast.Attribute):
            if n.func.attr in self.MUTATORS:
                if rec(n.func.value, "call:" + n.func.attr):
                    return
        if isinstance(n, ast.Call) and isinstance(n.func, ast.Name) and n.func.id in ("setattr", "delattr"):
            if n.args and isinstance(n.args[0], ast.Name):
                b = self.m.resolve_name(fn, n.args[0].id)
                if b.kind == "modvar" and (b.target[0].short, b.target[1]) in self.thread_locals:
                    self.ops.append(StorageOp(fn, (b.target[0].short, b.target[1]), "?", "store", n))
        if isinstance(n, ast.Call) and isinstance(n.func, ast.Name) and n.func.id in ("getattr", "hasattr") and len(n.args) >= 2 \
                and isinstance(n.args[0], ast.Name) and isinstance(n.args[1], ast.Constant) and isinstance(n.args[1].value, str):
            b = self.m.resolve_name(fn, n.args[0].id)
            if b.kind == "modvar" and (b.target[0].short, b.target[1]) in self.thread_locals:
                self.ops.append(StorageOp(fn, (b.target[0].short, b.target[1]), n.args[1].value, "load", n))
        if isinstance(n, (ast.Attribute, ast.Subscript)):
            if isinstance(n.ctx, ast.Store):
                rec(n, "store")
            elif isinstance(n.ctx, ast.Del):
                rec(n, "del")
            elif isinstance(n.ctx, ast.Load):
                # only record the outermost load of a chain
                rec(n, "load")

    def ops_by_fn(self) -> dict:
        d = {}
        for o in self.ops:
            if o.op == "load":
                continue
            d.setdefault(o.fn.qualname, []).append(o)
        return d

    # ------------------------------------------------------------ named roles
    def storage_fn(self, name: str) -> FuncInfo:
        return self.m.func(f"_storage.{name}")

    @property
    def push(self):
        return self.storage_fn("push_shape_memo")

    @property
    def pop(self):
        return self.storage_fn("pop_shape_memo")

    @property
    def get(self):
        return self.storage_fn("get_shape_memo")

    @property
    def set(self):
        return self.storage_fn("set_shape_memo")

    CANON = ("push_shape_memo", "pop_shape_memo", "get_shape_memo", "set_shape_memo", "shape_str", "print_bindings",
             "set_treepath_memo", "clear_treepath_memo", "get_treepath_memo", "set_treeflatten_memo", "clear_treeflatten_memo",
             "get_treeflatten_memo")

    def role_of_call(self, fn, call: ast.Call) -> Optional[str]:
        """Canonical name of the _storage function a call resolves to (through imports and
        module-level aliases such as `push_shape_memo = _Stack.push`), else None."""
        t = self.m.resolve_call(fn, call)
        if t.kind == "func" and t.target.module.short == "_storage":
            if not hasattr(self, "_canon_by_id"):
                self._canon_by_id = {}
                for nm in self.CANON:
                    f = self.m.functions.get(f"_storage.{nm}")
                    if f is None:
                        try:
                            f = self.m.func(f"_storage.{nm}")
                        except Exception:
                            f = None
                    if f is not None:
                        self._canon_by_id[id(f)] = nm
            return self._canon_by_id.get(id(t.target), t.target.name)
        return None

    # -------------------------------------------------------------- entry points
    def instancecheck_methods(self) -> list:
        out = []
        for c in self.m.classes.values():
            if c.module.short.startswith("_typeguard"):
                continue
            for nm in ("__instancecheck__", "__instancecheck_str__", "__subclasscheck__"):
                if nm in c.methods:
                    out.append(c.methods[nm])
        return out

    def wrappers(self) -> dict:
        """Closures created by `jaxtyped`: 'wraps' = those jaxtyped hands back to the user
        (their name is returned by jaxtyped, or they carry functools.wraps), 'impl' = the
        other nested functions."""
        jt = self.m.func("_decorator.jaxtyped")
        returned = set()
        for st in walk_scope(jt.node):
            if isinstance(st, ast.Return) and isinstance(st.value, ast.Name):
                returned.add(st.value.id)
        res = {"wraps": [], "impl": []}
        for f in self.m.functions.values():
            if f.parent is not jt:
                continue
            is_wraps = f.name in returned
            for d in f.decorators:
                if isinstance(d, ast.Call):
                    t = self.m.resolve_call(jt, d)
                    if t.kind == "ext" and t.target == "functools.wraps":
                        is_wraps = True
            if is_wraps:
                res["wraps"].append(f)
            else:
                res["impl"].append(f)
        need(res["wraps"], "no wrapper closure returned by jaxtyped found")
        return res


_ROLES_CACHE: dict = {}


def roles_for(model: Model) -> Roles:
    r = _ROLES_CACHE.get(id(model))
    if r is None or r.m is not model:
        r = Roles(model)
        _ROLES_CACHE.clear()
        _ROLES_CACHE[id(model)] = r
    return r
