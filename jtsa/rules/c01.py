"""C01 -- an array check decides shape exactly as the dim-string language says.

Decides six structural necessary conditions of the checking procedure (not the shape
arithmetic, which is value-level):
  C01.1 dim-kind exhaustiveness (writer/reader): the dim representations the parser can put
        at a single-axis position and at the multi-axis position equal the kinds the checker
        dispatches on (a kind that is built but not handled falls into an `assert`).
  C01.2 per-axis branch table vs the statement: anonymous -> accept; `#` and size 1 ->
        accept (tested before the kind-specific arms, after the anonymous test); fixed ->
        reject iff size differs; symbolic -> reject iff value differs; named -> bind if absent
        else reject iff differs; rejections return a non-empty message.
  C01.3 unbound symbolic name => AnnotationError: every eval() on the check path lies in a try
        whose NameError handler raises AnnotationError, and is handed fresh copies of the memos
        (never the live memo, in which eval would plant `__builtins__`).
  C01.4 slice agreement: every _check_dims(cls.dims[S], obj.shape[S], ..) uses the same slice
        on both, and the multi-axis segment is the same slice at the bind and compare sites.
  C01.5 bind-if-absent: every store into a memo is in the KeyError handler of a lookup of the
        same key (absence is tested as absence, not falsiness), or is the broadcast refinement
        of an existing '*name' entry -- which records the *current* use's `#` flag and is
        executed on every accepting path of the refinable branch.
  C01.6 rank test: `!=` without a multi-axis specifier, `< len(dims) - 1` with one.
Not decided: that the prefix/suffix arithmetic and the broadcast table are right; the dtype
test (C03).
"""
from __future__ import annotations

import ast

from ..core import region, AnalysisError, RuleContext, need, norm, short
from ..model import walk_scope
from ..typestate import NoReturn
from .c04 import memo_role

EXPLANATION = __doc__


def run(ctx: RuleContext):
    ctx.sub(check_kind_exhaustiveness, ctx)
    ctx.sub(check_axis_table, ctx)
    ctx.sub(check_eval_discipline, ctx, "C01.3")
    ctx.sub(check_slice_agreement, ctx)
    ctx.sub(check_bind_if_absent, ctx)
    ctx.sub(check_rank_test, ctx)
    ctx.sub(check_no_accept_before_shape_check, ctx)
    # C01.7: the "only look at the array type" mode (set while a PyTree is being flattened) makes every array
    # check answer after the array-type test alone; it must never outlive the flatten that set it -- otherwise
    # every later check on the thread is true regardless of dtype and shape (flag typestate of C12.1 / C08.7,
    # flatten flag only)
    from ._flags import run_flag_typestate

    ctx.reuse("C01.7", run_flag_typestate, ctx, "C01.7", only_attr_of=lambda fl: not fl.guarded_setters and not fl.raising_getters)
    # C01.9: "under the axis sizes already bound in that context": the sizes a *rejected* array check bound on the way must be gone again,
    # or the next check in the context is decided under bindings no accepted value ever made (C04's snapshot / restore clauses at the
    # array-check site: an optimisation that skips the snapshot for annotations that "bind nothing" is wrong for nested annotations)
    ctx.reuse("C01.9", _array_rollback, ctx)
    # C01.10: "its dtype is in the category": the comparison of the dtype name with the annotation's entries (C03.3: names by equality,
    # regexes by match, decided from the annotation's own dtypes)
    from .c03 import check_comparison

    ctx.reuse("C01.10", check_comparison, ctx)


def _array_rollback(ctx):
    from . import c04
    from ..roles import roles_for

    r = roles_for(ctx.model)
    sites = [s_ for s_ in c04.find_sites(ctx, r) if s_.fn.module.short == "_array_types"]
    for s_ in sites:
        c04.check_site(ctx, r, s_)
    ctx.counters["array_rollback_sites"] = len(sites)
    ctx.floor("C01.9", "array_rollback_sites", 1)


def _kind_of(e):
    """Name of a dim representation: class name of a constructor call or sentinel name."""
    if isinstance(e, ast.Call) and isinstance(e.func, ast.Name) and e.func.id[:1] == "_":
        return e.func.id
    if isinstance(e, ast.Name) and e.id.startswith("_anonymous"):
        return e.id
    return None


# ------------------------------------------------------------------------ C01.1
def check_kind_exhaustiveness(ctx):
    m = ctx.model
    mk = m.func("_array_types._make_array_cached")
    cd = m.func("_array_types._check_dims")
    cs = m.func("_array_types._MetaAbstractArray._check_shape")
    for f in (mk, cd, cs):
        ctx.saw(f)
    # built kinds, by whether they sit under `if variadic:` (true side)
    built = {"single": set(), "multi": set()}

    def walk(stmts, ctxvar):
        for st in stmts:
            if isinstance(st, ast.If):
                t = st.test
                if (isinstance(t, ast.Name) and t.id == "variadic") or (isinstance(t, ast.Attribute) and t.attr == "variadic" and isinstance(t.value, ast.Name)):
                    raises = any(isinstance(x, ast.Raise) for x in st.body)
                    walk(st.body, True if not raises else ctxvar)
                    walk(st.orelse, False)
                else:
                    walk(st.body, ctxvar)
                    walk(st.orelse, ctxvar)
            elif isinstance(st, ast.Assign) and len(st.targets) == 1 and isinstance(st.targets[0], ast.Name):
                k = _kind_of(st.value)
                if k:
                    built["multi" if ctxvar else "single"].add(k)
            elif isinstance(st, ast.Return) and st.value is not None:
                k = _kind_of(st.value)  # the classification may live in a helper that returns the dim
                if k:
                    built["multi" if ctxvar else "single"].add(k)
            elif isinstance(st, (ast.For, ast.While, ast.Try)):
                for b in (getattr(st, "body", []), getattr(st, "orelse", []), getattr(st, "finalbody", [])):
                    walk(b, ctxvar)

    # the classification chain on the dim type (in the parser itself or in a helper it calls)
    chains = []
    for fn_ in [x for x in m.all_functions(include_typeguard=False) if x.module.short == "_array_types"]:
        for st in ast.walk(fn_.node):
            if isinstance(st, ast.If) and isinstance(st.test, ast.Compare) and norm(st.test.left) == "dim_type" and "_DimType" in norm(st.test):
                chains.append(st)
    tops = [c for c in chains if not any(c in p_.orelse for p_ in chains)]
    need(tops, "C01.1: the classification chain on the dim type was not found")
    walk(tops, None)
    # fixed / symbolic with variadic raise before -> single
    for k in list(built["multi"]):
        pass
    # `None` context means "not under an `if variadic`": fixed and symbolic (variadic raised earlier)
    if not built["single"] or not built["multi"]:
        raise AnalysisError(f"C01.1: could not collect the dim kinds built by the parser (got {built})")

    all_kinds = built["single"] | built["multi"]

    def handled(f0, stop=()):
        """dim kinds the checker dispatches on (`x is K`, `type(x) is K`, `isinstance(x, K)`) in f0
        or in the helpers it was split into"""
        out = set()
        for f in region(m, f0, stop=stop):
            for n in ast.walk(f.node):
                if isinstance(n, ast.Compare) and len(n.ops) == 1 and isinstance(n.ops[0], (ast.Is, ast.IsNot, ast.Eq, ast.NotEq)):
                    l, r_ = n.left, n.comparators[0]
                    if isinstance(r_, ast.Name) and r_.id in all_kinds and (isinstance(l, (ast.Name, ast.Attribute, ast.Subscript)) or (
                            isinstance(l, ast.Call) and norm(l.func) == "type")):
                        out.add(r_.id)
                if isinstance(n, ast.Call) and norm(n.func) == "isinstance" and len(n.args) == 2:
                    for x in (n.args[1].elts if isinstance(n.args[1], ast.Tuple) else [n.args[1]]):
                        if isinstance(x, ast.Name) and x.id in all_kinds:
                            out.add(x.id)
        return out

    h_single = handled(cd)
    h_multi = handled(cs, stop=(cd.qualname,))
    for label, b, h, f in (("single-axis", built["single"], h_single, cd), ("multi-axis", built["multi"], h_multi, cs)):
        if b - h:
            ctx.bad("C01.1", f, f.node, f"the parser can produce the {label} dim kind(s) {sorted(b - h)} but the checker has no branch for them: such an axis "
                    "falls into an assert / is silently treated as another kind", construct=f"{label} kinds built {sorted(b)} vs handled {sorted(h)}")
        elif h - b:
            ctx.note(f"{label}: checker also dispatches on {sorted(h - b)} (never built)")
            ctx.ok("C01.1", f.qualname, f"{label} kinds built {sorted(b)} all handled")
        else:
            ctx.ok("C01.1", f.qualname, f"{label} kinds built = handled = {sorted(b)}")
    ctx.counters["dim_kinds"] = len(built["single"]) + len(built["multi"])
    ctx.floor("C01.1", "dim_kinds", 6)


# ------------------------------------------------------------------------ C01.2
class _Crash(Exception):
    pass


def _is_reject(stmts) -> bool:
    return any(isinstance(x, ast.Return) and (isinstance(x.value, ast.JoinedStr) or (isinstance(x.value, ast.Constant) and isinstance(x.value.value, str) and x.value.value))
               for s in stmts for x in ast.walk(s))


def check_axis_table(ctx):
    """The per-axis decision procedure, walked on the CFG for every abstract class of
    (dim kind, `#`, size 1, equal, bound, NameError): insensitive to if/elif vs guard clauses,
    try/else vs code after the try, flipped tests."""
    from ..absim import eval_bool, simulate

    m = ctx.model
    f = m.func("_array_types._check_dims")
    g = NoReturn(m).cfg(f)
    hdrs = [n for n in g.live_nodes() if n.kind == "for" and isinstance(n.ast.iter, ast.Call) and norm(n.ast.iter.func) == "zip" and isinstance(n.ast.target, ast.Tuple) and len(n.ast.target.elts) == 2]
    need(len(hdrs) == 1, "_check_dims: per-axis loop `for dim, size in zip(dims, shape)` not found")
    hdr = hdrs[0]
    lp = hdr.ast
    dvar, svar = lp.target.elts[0].id, lp.target.elts[1].id
    if [norm(a) for a in lp.iter.args] != [f.params[0], f.params[1]]:
        ctx.bad("C01.2", f, lp, "the per-axis loop does not pair each dim with the axis size at the same position (zip(cls_dims, obj_shape))")
    memo = next((p_ for p_ in f.params if memo_role(p_) == "single"), None)
    need(memo, "_check_dims: the size memo parameter was not found")
    # variables holding the evaluated symbolic size / the looked-up bound size
    evalvars, lookvars = set(), set()
    for a in ast.walk(lp):
        if isinstance(a, ast.Assign) and len(a.targets) == 1 and isinstance(a.targets[0], ast.Name):
            if isinstance(a.value, ast.Call) and norm(a.value.func) == "eval":
                evalvars.add(a.targets[0].id)
            if isinstance(a.value, ast.Subscript) and norm(a.value.value) == memo:
                lookvars.add(a.targets[0].id)
            if isinstance(a.value, ast.Call) and isinstance(a.value.func, ast.Attribute) and a.value.func.attr == "get" and norm(a.value.func.value) == memo:
                lookvars.add("!get:" + a.targets[0].id)
    # the evaluated size is compared as it is: a lossy numeric conversion in between (int() truncates 2.5 to 2, round, floor ...) makes an
    # axis "match" an expression whose value it does not equal
    LOSSY = {"int", "round", "math.floor", "math.ceil", "math.trunc", "floor", "ceil", "trunc", "abs", "operator.index", "bool"}
    for a in ast.walk(lp):
        if isinstance(a, ast.Assign) and len(a.targets) == 1 and isinstance(a.targets[0], ast.Name) and a.targets[0].id in evalvars \
                and isinstance(a.value, ast.Call) and norm(a.value.func) in LOSSY and any(isinstance(x, ast.Name) and x.id in evalvars for x in ast.walk(a.value)):
            ctx.bad("C01.3", f, a, f"`{short(a, 50)}`: the value of a symbolic axis expression is converted with `{norm(a.value.func)}` before it is compared with the axis size: "
                    "a fractional value is truncated, so an axis can match an expression it does not equal (`dim/2` with dim=5 matches 2)", construct="symbolic value converted lossily before the comparison")
    # `x = memo.get(key, SENTINEL)` / `(x := memo.get(key, SENTINEL)) is SENTINEL`: absence is told apart from
    # every stored value when the default is a dedicated sentinel compared by identity
    sentinel_gets = {}
    for a in ast.walk(lp):
        tgt, val = None, None
        if isinstance(a, ast.NamedExpr) and isinstance(a.target, ast.Name):
            tgt, val = a.target.id, a.value
        elif isinstance(a, ast.Assign) and len(a.targets) == 1 and isinstance(a.targets[0], ast.Name):
            tgt, val = a.targets[0].id, a.value
        if tgt and isinstance(val, ast.Call) and isinstance(val.func, ast.Attribute) and val.func.attr == "get" and norm(val.func.value) == memo \
                and len(val.args) == 2 and isinstance(val.args[1], ast.Name):
            b_ = m.resolve_name(f, val.args[1].id)
            if b_.kind == "modvar":
                vals_ = b_.target[0].assigns.get(b_.target[1], [])
                # a dedicated identity sentinel: `object()` or an instance of a class of the package
                if len(vals_) == 1 and isinstance(vals_[0], ast.Call) and (norm(vals_[0].func) == "object" or m.instance_class(b_.target[0], vals_[0]) is not None):
                    sentinel_gets[tgt] = val.args[1].id
                    lookvars.discard("!get:" + tgt)
                    lookvars.add(tgt)
    if any(v.startswith("!get:") for v in lookvars):
        bad_get = [x for x in ast.walk(lp) if isinstance(x, ast.Call) and isinstance(x.func, ast.Attribute) and x.func.attr == "get" and norm(x.func.value) == memo][0]
        ctx.bad("C01.5", f, bad_get, "a named axis is looked up with `.get()` and the result tested for falsiness / None: a name bound to size 0 is treated as unbound "
                "(absence must be tested as absence: KeyError / `not in`)", construct="named arm: absence not tested as absence")
        return
    start = [s_ for k, s_ in hdr.succ if k == "loop"][0]

    def mk_oracles(cls):
        kind, bc, size1, eq, bound, nameerr = cls

        def atom(e):
            t = norm(e)
            if isinstance(e, ast.Compare) and len(e.ops) == 1:
                l, r_, op = e.left, e.comparators[0], e.ops[0]
                ln, rn = norm(l), norm(r_)
                if isinstance(op, (ast.Is, ast.IsNot)) and ln == dvar and rn == "_anonymous_dim":
                    v = kind == "anon"
                    return v if isinstance(op, ast.Is) else not v
                if isinstance(op, (ast.Is, ast.IsNot, ast.Eq, ast.NotEq)) and ln == f"type({dvar})" and rn in ("_FixedDim", "_SymbolicDim", "_NamedDim"):
                    v = {"_FixedDim": "fixed", "_SymbolicDim": "symbolic", "_NamedDim": "named"}[rn] == kind
                    return v if isinstance(op, (ast.Is, ast.Eq)) else not v
                if isinstance(op, (ast.Eq, ast.NotEq)) and {ln, rn} == {svar, "1"}:
                    return size1 if isinstance(op, ast.Eq) else not size1
                if isinstance(op, (ast.Eq, ast.NotEq)) and svar in (ln, rn):
                    other = rn if ln == svar else ln
                    if other == f"{dvar}.size":
                        if kind != "fixed":
                            raise _Crash(f"`{t}` evaluated for a {kind} dim")
                        return eq if isinstance(op, ast.Eq) else not eq
                    if other in evalvars or other in lookvars:
                        return eq if isinstance(op, ast.Eq) else not eq
                    return "unknown-compare"
                if isinstance(op, (ast.Lt, ast.Gt, ast.LtE, ast.GtE)) and svar in (ln, rn):
                    other = rn if ln == svar else ln
                    if other == f"{dvar}.size" or other in evalvars or other in lookvars:
                        raise _Crash(f"the expected size is compared with the axis size by `{t}` (an ordering, not (in)equality)")
                    return "unknown-compare"
                if isinstance(op, (ast.In, ast.NotIn)) and rn == memo:
                    return bound if isinstance(op, ast.In) else not bound
                if isinstance(op, (ast.Is, ast.IsNot)):
                    lv = l.target.id if isinstance(l, ast.NamedExpr) and isinstance(l.target, ast.Name) else (l.id if isinstance(l, ast.Name) else None)
                    if lv in sentinel_gets and rn == sentinel_gets[lv]:
                        return (not bound) if isinstance(op, ast.Is) else bound
            if isinstance(e, ast.Call) and norm(e.func) == "isinstance" and norm(e.args[0]) == dvar and norm(e.args[1]) in ("_FixedDim", "_SymbolicDim", "_NamedDim"):
                return {"_FixedDim": "fixed", "_SymbolicDim": "symbolic", "_NamedDim": "named"}[norm(e.args[1])] == kind
            if isinstance(e, ast.Attribute) and norm(e.value) == dvar:
                if kind == "anon":
                    raise _Crash(f"`{t}` read from the anonymous-axis sentinel (it has no attributes)")
                if e.attr == "broadcastable":
                    return bc
                if e.attr == "treepath":
                    return None
            # a condition about something other than this axis (a lazily initialised scratch value ...):
            # both outcomes are explored
            mentioned = {x.id for x in ast.walk(e) if isinstance(x, ast.Name)}
            if not (mentioned & ({dvar, svar, memo} | evalvars | {v for v in lookvars if not v.startswith("!")})):
                return None
            # the bound / evaluated size compared with a literal (`cls_size == 1`): true for some bindings, false for others -- both outcomes
            # belong to the abstract input class "name bound, sizes differ" and are explored (a temporary holding this test is treated the same)
            if isinstance(e, ast.Compare) and len(e.ops) == 1 and isinstance(e.ops[0], (ast.Eq, ast.NotEq)) and isinstance(e.comparators[0], ast.Constant) \
                    and isinstance(e.left, ast.Name) and (e.left.id in evalvars or e.left.id in lookvars) and type(e.comparators[0].value) is int:
                return None
            raise AnalysisError(f"C01.2: unrecognised condition `{t}` in the per-axis check")

        def test_oracle(node):
            v = eval_bool(node.ast, atom)
            if v == "unknown-compare":
                raise AnalysisError(f"C01.2: unrecognised comparison `{norm(node.ast)}` in the per-axis check")
            return v

        def raise_oracle(node):
            if node.ast is None or node.kind not in ("stmt", "test", "return"):
                return None
            def evaluated(e):
                """the operands of a test that are actually evaluated (short-circuit of and / or under the current valuation)"""
                if isinstance(e, ast.BoolOp):
                    for v_ in e.values:
                        yield from evaluated(v_)
                        try:
                            val_ = eval_bool(v_, atom)
                        except (_Crash, AnalysisError):
                            return
                        if (isinstance(e.op, ast.Or) and val_ is True) or (isinstance(e.op, ast.And) and val_ is False):
                            return
                elif isinstance(e, ast.UnaryOp) and isinstance(e.op, ast.Not):
                    yield from evaluated(e.operand)
                else:
                    yield e

            roots = list(evaluated(node.ast)) if node.kind == "test" and isinstance(node.ast, ast.expr) else [node.ast]
            for x in (y for r_ in roots for y in ast.walk(r_)):
                if isinstance(x, ast.Subscript) and isinstance(x.ctx, ast.Load) and norm(x.value) == memo and not bound:
                    return "KeyError"
                if isinstance(x, ast.Call) and norm(x.func) == "eval" and nameerr:
                    return "NameError"
                if isinstance(x, ast.Attribute) and norm(x.value) == dvar and kind == "anon" and isinstance(x.ctx, ast.Load):
                    raise _Crash(f"`{norm(x)}` read from the anonymous-axis sentinel")
            return None

        return test_oracle, raise_oracle

    def event_of(node):
        if node.kind == "stmt" and isinstance(node.ast, ast.Assign) and isinstance(node.ast.targets[0], ast.Subscript) and norm(node.ast.targets[0].value) == memo:
            return "bind:" + norm(node.ast.targets[0].slice) + "=" + norm(node.ast.value)
        return None

    def stop(node):
        return node is hdr or node.kind in ("return", "raise", "exit", "exit_e", "exit_b", "falloff", "assert") and (node.kind != "assert" or (isinstance(node.ast.test, ast.Constant) and not node.ast.test.value))

    classes = [("anon", False, s1, True, False, False) for s1 in (False, True)]
    for kind in ("fixed", "symbolic", "named"):
        for bc in (False, True):
            for s1 in (False, True):
                for eq in (False, True):
                    if kind == "named":
                        for bound in (False, True):
                            classes.append((kind, bc, s1, eq, bound, False))
                    elif kind == "symbolic":
                        classes.append((kind, bc, s1, eq, False, False))
                        classes.append((kind, bc, s1, eq, False, True))
                    else:
                        classes.append((kind, bc, s1, eq, False, False))
    n = 0
    wrong = []
    for cls in classes:
        kind, bc, s1, eq, bound, nameerr = cls
        n += 1
        t_or, r_or = mk_oracles(cls)
        try:
            outs = simulate(g, start, stop, t_or, r_or, event_of)
        except _Crash as e:
            wrong.append((cls, f"crash: {e}"))
            continue
        if kind == "anon" or (bc and s1):
            want = ("accept", False)
        elif kind == "symbolic" and nameerr:
            want = ("raise:AnnotationError", False)
        elif kind == "named" and not bound:
            want = ("accept", True)
        else:
            want = ("accept" if eq else "reject", False)
        for o in outs:
            binds = [e for e in o.events if e.startswith("bind:")]
            if o.end is hdr:
                got = "accept"
            elif o.end.kind == "return":
                v = o.end.ast.value
                if isinstance(v, ast.Name) and o.env.get(v.id) in ("empty", "nonempty"):
                    # the verdict is carried in a local (`check = ...; if check != "": return check`)
                    got = "accept-all" if o.env[v.id] == "empty" else "reject"
                elif isinstance(v, ast.Constant) and v.value == "":
                    got = "accept-all"
                elif isinstance(v, ast.JoinedStr) or (isinstance(v, ast.Constant) and isinstance(v.value, str)):
                    got = "reject"
                else:
                    got = f"return {norm(v)}"
            elif o.end.kind == "raise":
                got = "raise:" + ",".join(o.end.info.get("kinds", ["?"]))
            elif o.end.kind == "assert":
                got = "assert-false"
            else:
                got = o.end.kind
            if (got, bool(binds)) != want:
                wrong.append((cls, f"{got}{' +bind' if binds else ''} (expected {want[0]}{' +bind' if want[1] else ''})"))
            elif binds and not all(b.endswith("=" + svar) for b in binds):
                wrong.append((cls, f"binds {binds[0]} instead of the axis size"))
    ctx.counters["axis_classes"] = n
    if wrong:
        seen = set()
        for cls, what in wrong:
            kind, bc, s1, eq, bound, nameerr = cls
            desc = f"{kind} axis" + (" marked `#`" if bc else "") + (", size 1" if s1 else "") + ("" if kind == "anon" else (", sizes equal" if eq else ", sizes differ")) \
                + (", name bound" if kind == "named" and bound else (", name not bound yet" if kind == "named" else "")) + (", expression mentions an unbound name" if nameerr else "")
            key = (kind, what)
            if key in seen:
                continue
            seen.add(key)
            rule = "C01.5" if kind == "named" and ("bind" in what) else ("C01.3" if nameerr else "C01.2")
            ctx.bad(rule, f, lp, f"per-axis decision for a {desc}: {what}", construct=f"axis table: {desc} -> {what}")
    else:
        ctx.ok("C01.2", f.qualname, f"per-axis decision walked on the CFG for {n} abstract classes: anonymous -> accept; `#` & size 1 -> accept; fixed/symbolic -> reject iff differs; "
               "named -> bind if absent else reject iff differs; unbound symbolic name -> AnnotationError")
    # after the last axis: accept
    after = [s_ for k, s_ in hdr.succ if k == "done"]
    x = after[0] if after else None
    hops = 0
    ok_end = False
    while x is not None and hops < 5:
        hops += 1
        if x.kind == "return":
            ok_end = isinstance(x.ast.value, ast.Constant) and x.ast.value.value == ""
            break
        nx = [y for kk, y in x.succ if kk == "n"]
        x = nx[0] if len(nx) == 1 else None
    if not ok_end:
        ctx.bad("C01.2", f, lp, "after all axes matched, _check_dims does not return the empty (accepting) message")


# ------------------------------------------------------------------------ C01.3
def check_eval_discipline(ctx, tag):
    from . import c05

    m = ctx.model
    n = 0
    for q in ("_array_types._check_dims", "_array_types._MetaAbstractArray._check_shape", "_array_types._MetaAbstractArray.__instancecheck_str__"):
        f = m.func(q)
        for c in [x for x in ast.walk(f.node) if isinstance(x, ast.Call) and isinstance(x.func, ast.Name) and x.func.id in ("eval", "exec")]:
            n += 1
            ctx.saw(f)
            tries = [t for t in ast.walk(f.node) if isinstance(t, ast.Try) and any(y is c for b in t.body for y in ast.walk(b))]
            ok = False
            for t in tries:
                for h in t.handlers:
                    if h.type is not None and "NameError" in norm(h.type):
                        rs = [x for x in h.body if isinstance(x, ast.Raise)]
                        if rs and isinstance(rs[-1].exc, ast.Call) and norm(rs[-1].exc.func) == "AnnotationError" and isinstance(h.body[-1], ast.Raise):
                            ok = True
            if not ok:
                ctx.bad(tag, f, c, f"`{short(c, 60)}` is not inside a try whose NameError handler raises AnnotationError: a symbolic axis that mentions a name that "
                        "is not bound (or not an argument) surfaces as NameError -- which the decorator reports as an ordinary type-check failure -- instead of AnnotationError")
            else:
                ctx.ok(tag, f.qualname, f"`{short(c, 50)}`: NameError -> AnnotationError")
            # namespaces are copies
            def _fresh(scope, a, depth=0):
                """True: a new dict; False: positively a live memo (a parameter / a name bound to one); None: cannot tell"""
                if isinstance(a, ast.Dict) or isinstance(a, ast.DictComp):
                    return True
                if isinstance(a, ast.Call) and ((isinstance(a.func, ast.Attribute) and a.func.attr == "copy") or norm(a.func) == "dict"):
                    return True
                if isinstance(a, ast.BinOp) and isinstance(a.op, ast.BitOr):
                    return True  # `d1 | d2` builds a new dict
                if isinstance(a, ast.Name):
                    if a.id in scope.params:
                        return False
                    ds = c05._assignments_to(scope, a.id)
                    if ds and all(d[2] is None and d[1] is not None for d in ds):
                        vs = {_fresh(scope, d[1], depth + 1) for d in ds}
                        return vs.pop() if len(vs) == 1 else None
                    return None
                if isinstance(a, ast.Call) and depth < 3:
                    t_ = m.resolve_call(scope, a)
                    if t_.kind == "func" and not t_.target.module.short.startswith("_typeguard"):
                        vs = {_fresh(t_.target, rt.value, depth + 1) for rt in walk_scope(t_.target.node) if isinstance(rt, ast.Return)}
                        return vs.pop() if len(vs) == 1 else None
                    return None
                if isinstance(a, (ast.Attribute, ast.Subscript)):
                    return None
                return None

            def _stale(scope, a):
                """A copy is only as good as the moment it was taken: `<name>` bound to `<memo parameter>.copy()` outside the loop the eval runs in
                (or lazily, once, under `if <name> is None`) while that loop goes on binding axes into the parameter -> the expression does not see
                the sizes bound by the axes before it.  Returns (memo parameter, definition) or None."""
                if not isinstance(a, ast.Name) or a.id in scope.params:
                    return None
                parents = {}
                for p_ in ast.walk(scope.node):
                    for c_ in ast.iter_child_nodes(p_):
                        parents[id(c_)] = p_

                def loops_of(n):
                    out = []
                    while id(n) in parents:
                        n = parents[id(n)]
                        if isinstance(n, (ast.For, ast.While)):
                            out.append(n)
                    return out

                eval_loops = loops_of(c)
                if not eval_loops:
                    return None
                inner = eval_loops[0]
                for st, val, _ in c05._assignments_to(scope, a.id):
                    src = None
                    if isinstance(val, ast.Call) and isinstance(val.func, ast.Attribute) and val.func.attr == "copy" and isinstance(val.func.value, ast.Name):
                        src = val.func.value.id
                    elif isinstance(val, ast.Call) and norm(val.func) == "dict" and len(val.args) == 1 and isinstance(val.args[0], ast.Name):
                        src = val.args[0].id
                    if src is None or src not in scope.params:
                        continue
                    writes = [w for w in ast.walk(inner) if isinstance(w, ast.Subscript) and isinstance(w.ctx, ast.Store) and isinstance(w.value, ast.Name) and w.value.id == src]
                    if not writes:
                        continue  # nothing is bound into it while the loop runs: an earlier copy is as good as a later one
                    once = False
                    q_ = st
                    while id(q_) in parents and parents[id(q_)] is not inner:
                        q_ = parents[id(q_)]
                        if isinstance(q_, ast.If):
                            # a once-guard: the test reads a local that the guarded block itself binds (`if x is None: x = ..; y = ..`)
                            bound = {t_.id for b_ in q_.body for s_ in ast.walk(b_) if isinstance(s_, ast.Assign) for t_ in s_.targets if isinstance(t_, ast.Name)}
                            if any(isinstance(x_, ast.Name) and x_.id in bound for x_ in ast.walk(q_.test)):
                                once = True
                    if inner not in loops_of(st) or once:
                        return src, st
                return None

            for a in c.args[1:]:
                stale = _stale(f, a)
                if stale is not None:
                    ctx.bad(tag, f, c, f"eval is handed `{norm(a)}`, a copy of `{stale[0]}` taken once (`{short(stale[1], 50)}`) while the loop goes on binding axes into `{stale[0]}`: "
                            "a symbolic axis does not see the sizes bound by the axes before it in the same annotation", construct=f"stale eval namespace {norm(a)}")
                    continue
                fresh = _fresh(f, a)
                if fresh is None and isinstance(a, ast.Name) and {_fresh(f, d[1]) for d in c05._assignments_to(f, a.id) if d[1] is not None and not (isinstance(d[1], ast.Constant) and d[1].value is None)} == {True}:
                    fresh = True  # `x = None` placeholder + lazily made copy (of something the loop does not write)
                if fresh is None:
                    raise AnalysisError(f"{tag}: whether the namespace `{norm(a)}` handed to eval in {f.qualname} is a fresh dict could not be read")
                if not fresh:
                    ctx.bad(tag, f, c, f"eval is handed `{norm(a)}` itself, not a copy: eval plants `__builtins__` into it, so the live bindings (and print_bindings / "
                            "error messages) gain a spurious entry")
                else:
                    ctx.ok(tag, f.qualname, f"eval namespace `{norm(a)}` is a fresh copy")
    ctx.counters["eval_sites"] = n
    ctx.floor(tag, "eval_sites", 2)


# ------------------------------------------------------------------------ C01.4
def check_slice_agreement(ctx):
    m = ctx.model
    f = m.func("_array_types._MetaAbstractArray._check_shape")
    ctx.saw(f)
    n = 0
    for c in [x for x in ast.walk(f.node) if m.is_call_to(f, x, "_array_types._check_dims")]:
        n += 1
        a0, a1 = c.args[0], c.args[1]
        s0 = norm(a0.slice) if isinstance(a0, ast.Subscript) else "<all>"
        s1 = norm(a1.slice) if isinstance(a1, ast.Subscript) else "<all>"
        b0 = norm(a0.value) if isinstance(a0, ast.Subscript) else norm(a0)
        b1 = norm(a1.value) if isinstance(a1, ast.Subscript) else norm(a1)
        if not (b0.endswith(".dims") and b1.endswith(".shape")):
            ctx.bad("C01.4", f, c, f"_check_dims is not given (cls.dims[..], obj.shape[..]) but ({norm(a0)}, {norm(a1)})")
        elif s0 != s1:
            ctx.bad("C01.4", f, c, f"dims are sliced with [{s0}] but the shape with [{s1}]: axes are compared against the wrong dims")
        else:
            ctx.ok("C01.4", f.qualname, f"_check_dims(dims[{s0}], shape[{s1}])")
    ctx.counters["check_dims_calls"] = n
    ctx.floor("C01.4", "check_dims_calls", 3)
    # left to right: the axes in front of the multi-axis specifier are matched (and bind their names) before the axes after it -- a symbolic axis
    # after `*name` may use a name bound in front of it (`"c *spatial 2*c"`); matched the other way round `2*c` meets an unbound `c`
    order = {}

    def _pre(n_):
        order[id(n_)] = len(order)
        for c_ in ast.iter_child_nodes(n_):
            _pre(c_)

    _pre(f.node)
    pre_calls = [c for c in ast.walk(f.node) if m.is_call_to(f, c, "_array_types._check_dims") and isinstance(c.args[0], ast.Subscript) and isinstance(c.args[0].slice, ast.Slice)
                 and c.args[0].slice.lower is None and c.args[0].slice.upper is not None]
    suf_calls = [c for c in ast.walk(f.node) if m.is_call_to(f, c, "_array_types._check_dims") and isinstance(c.args[0], ast.Subscript) and isinstance(c.args[0].slice, ast.Slice)
                 and c.args[0].slice.lower is not None and c.args[0].slice.upper is None]
    if len(pre_calls) == 1 and len(suf_calls) == 1:
        if order[id(suf_calls[0])] < order[id(pre_calls[0])]:
            ctx.bad("C01.4", f, suf_calls[0], f"the axes after the multi-axis specifier (`{short(suf_calls[0], 50)}`) are matched before the axes in front of it (`{short(pre_calls[0], 50)}`): "
                    "names bind left to right, so a symbolic axis behind `*name` / `...` that uses a name bound in front of it is evaluated while that name is still unbound "
                    "(AnnotationError on a well-typed array)", construct="suffix axes matched before prefix axes")
        else:
            ctx.ok("C01.4", f.qualname, "prefix axes are matched before suffix axes (names bind left to right)")
    # the multi-axis segment: every slice of the shape that is not an argument of _check_dims
    arg_ids = {id(a) for c in ast.walk(f.node) if m.is_call_to(f, c, "_array_types._check_dims") for a in c.args}
    segs = [x for x in ast.walk(f.node) if isinstance(x, ast.Subscript) and norm(x.value).endswith(".shape") and isinstance(x.slice, ast.Slice) and id(x) not in arg_ids]
    if len(segs) < 2:
        raise AnalysisError("C01.4: multi-axis segment slices not found")
    texts = {norm(x.slice) for x in segs}
    if len(texts) > 1:
        ctx.bad("C01.4", f, segs[0], f"the multi-axis segment of the shape is taken with different slices at the bind and compare sites: {sorted(texts)} "
                "(a '*name' would be bound to one stretch of axes and compared against another)", construct=f"segment slices {sorted(texts)}")
    else:
        only = segs[0].slice
        if only.lower is None or only.upper is None:
            ctx.bad("C01.4", f, segs[0], f"the multi-axis segment `shape[{norm(only)}]` is half-open: it must exclude both the prefix and the suffix axes")
        else:
            ctx.ok("C01.4", f.qualname, f"multi-axis segment is shape[{norm(only)}] at all {len(segs)} sites")


# ------------------------------------------------------------------------ C01.5
def check_bind_if_absent(ctx):
    """'*name' entries: stores only (a) under the KeyError handler of the lookup of the same key
    (bind if absent) or (b) on the previously-`#` side (broadcast refinement); decided by
    dominance / reachability on the CFG, not by the nesting of the source."""
    m = ctx.model
    f = m.func("_array_types._MetaAbstractArray._check_shape")
    g = NoReturn(m).cfg(f)
    memo = next((p_ for p_ in f.params if memo_role(p_) == "variadic"), None)
    need(memo, "_check_shape: the '*name' memo parameter was not found")
    stores = [n for n in g.live_nodes() if n.kind == "stmt" and isinstance(n.ast, ast.Assign) and isinstance(n.ast.targets[0], ast.Subscript) and norm(n.ast.targets[0].value) == memo]
    looks = [n for n in g.live_nodes() if n.kind == "stmt" and isinstance(n.ast, ast.Assign) and isinstance(n.ast.value, ast.Subscript) and norm(n.ast.value.value) == memo]
    need(len(looks) == 1, f"C01.5: expected one lookup of the '*name' memo, found {len(looks)}")
    need(len(stores) >= 2, "C01.5: stores into the '*name' memo not found")
    ctx.counters["variadic_memo_stores"] = len(stores)
    look = looks[0]
    key = norm(look.ast.value.slice)
    # the KeyError handler of the lookup
    hnodes = [n for n in g.live_nodes() if n.kind == "handler" and n.ast.type is not None and "KeyError" in norm(n.ast.type)
              and any(isinstance(t, ast.Try) and any(h is n.ast for h in t.handlers) and any(y is look.ast for b in t.body for y in ast.walk(b)) for t in ast.walk(f.node))]
    if not hnodes:
        ctx.bad("C01.5", f, look.ast, "the lookup of a '*name' binding has no KeyError handler: bind-if-absent is not decided by absence")
        return
    dom = g.dominators()
    tests = [n for n in g.live_nodes() if n.kind == "test" and isinstance(n.ast, ast.Name) and n.ast.id.startswith("prev_")]
    tests = [n for n in tests if any(isinstance(t, ast.Tuple) and any(isinstance(e, ast.Name) and e.id == n.ast.id for e in t.elts) for t in look.ast.targets) or
             any(isinstance(t, ast.Name) and t.id == n.ast.id for t in look.ast.targets)]
    # which unpacked element is the flag: the first of `prev_flag, prev_shape = memo[key]`
    flagvar = None
    t0 = look.ast.targets[0]
    if isinstance(t0, ast.Tuple) and len(t0.elts) == 2 and isinstance(t0.elts[0], ast.Name):
        flagvar = t0.elts[0].id
    tnode = next((n for n in g.live_nodes() if n.kind == "test" and flagvar and norm(n.ast) in (flagvar, f"not {flagvar}")), None)
    pos = tnode is None or not norm(tnode.ast).startswith("not ")
    true_edge = "t" if pos else "f"
    # nodes reachable without taking the `previously #` edge
    seen, stack = set(), [g.entry]
    while stack:
        n = stack.pop()
        if n.id in seen:
            continue
        seen.add(n.id)
        for k, s_ in n.succ:
            if tnode is not None and n is tnode and k == true_edge:
                continue
            stack.append(s_)
    for sn in stores:
        st = sn.ast
        if norm(st.targets[0].slice) != key:
            ctx.bad("C01.5", f, st, f"a '*name' binding is stored under `{norm(st.targets[0].slice)}`, not under the key that was looked up (`{key}`)")
            continue
        v = st.value
        flag = norm(v.elts[0]) if isinstance(v, ast.Tuple) and len(v.elts) == 2 else None
        in_handler = any(h.id in dom[sn.id] for h in hnodes)
        on_refine_side = tnode is not None and sn.id not in seen
        # the current use's `#` flag: `<dim>.broadcastable`, or a local holding it (under any name)
        flag_ok = False
        if isinstance(v, ast.Tuple) and len(v.elts) == 2:
            fe = v.elts[0]
            if isinstance(fe, ast.Attribute) and fe.attr == "broadcastable":
                flag_ok = True
            elif isinstance(fe, ast.Name):
                fdefs = [a_.value for a_ in ast.walk(f.node) if isinstance(a_, ast.Assign) and any(isinstance(t_, ast.Name) and t_.id == fe.id for t_ in a_.targets)]
                flag_ok = bool(fdefs) and all(isinstance(d_, ast.Attribute) and d_.attr == "broadcastable" for d_ in fdefs) and fe.id != (flagvar or "")
        if not flag_ok:
            ctx.bad("C01.5", f, st, f"the stored '*name' entry records `{flag}` as its broadcastable flag instead of the current use's `#` flag: after a plain `*name` "
                    "use the binding must be pinned (no longer broadcast against)")
        if in_handler:
            if not (isinstance(v, ast.Tuple) and norm(v.elts[1]).startswith("obj.shape[")):
                ctx.bad("C01.5", f, st, "a new '*name' binding does not store the matched segment of the shape")
            else:
                ctx.ok("C01.5", f.qualname, f"new '*name' binding stored only under the KeyError handler of its lookup: `{short(st, 70)}`")
        elif on_refine_side:
            ctx.ok("C01.5", f.qualname, f"broadcast refinement of an existing (still `#`) '*name' entry: `{short(st, 70)}`")
        elif tnode is not None:
            ctx.bad("C01.5", f, st, "a '*name' binding is overwritten on a path that is neither 'name absent' nor 'existing entry still broadcastable'")
    need(tnode is not None, "C01.5: test of the previous binding's `#` flag not found")
    # the broadcast of a `#` binding is delegated to numpy (trusted reference); a hand-written
    # replacement is value-level arithmetic this family cannot judge: no verdict rather than a pass
    bcalls = [c for fn_ in region(m, f) for c in m.calls_in(fn_) if norm(c.func).endswith("broadcast_shapes")]
    resolved = [c for c in bcalls if norm(c.func) in ("np.broadcast_shapes", "numpy.broadcast_shapes")]
    if not resolved:
        raise AnalysisError("C01.5: the shapes of a `#` multi-axis binding are not broadcast with numpy.broadcast_shapes (the trusted reference); "
                            "a hand-written broadcast cannot be judged statically")
    # the refinement must be executed on every accepting path of the refinable (previously-#) branch
    store_ids = {n.id for n in stores}
    start = [s_ for k, s_ in tnode.succ if k == true_edge]
    seen2, stack, leak = set(), list(start), None
    while stack:
        n = stack.pop()
        if n.id in seen2 or n.id in store_ids:
            continue
        seen2.add(n.id)
        if n.kind == "return" and isinstance(n.ast.value, ast.Constant) and n.ast.value.value == "":
            leak = n
            break
        for k, s_ in n.succ:
            if k in ("e", "b"):
                continue
            stack.append(s_)
    if leak is not None:
        ctx.bad("C01.5", f, tnode.ast, "when the existing '*name' binding is still broadcastable, an accepting path does not rewrite the entry: the current use's `#` flag (and the "
                "broadcast shape) is lost, so a plain `*name` use does not pin the binding and a later, different shape is accepted",
                construct="prev_broadcastable branch: accepting path without `variadic_memo[name] = (broadcastable, ...)`")
    else:
        ctx.ok("C01.5", f.qualname, "every accepting path of the previously-`#` branch rewrites the entry with the current use's flag")


# ------------------------------------------------------------------------ C01.6
def check_rank_test(ctx):
    m = ctx.model
    f = m.func("_array_types._MetaAbstractArray._check_shape")
    g = NoReturn(m).cfg(f)
    sel = [n for n in g.live_nodes() if n.kind == "test" and "index_variadic is" in norm(n.ast) and "None" in norm(n.ast)]
    need(len(sel) >= 1, "C01.6: dispatch on index_variadic not found")
    tn = sel[0]
    t = norm(tn.ast)
    none_edge = "t" if ("is None" in t and not t.startswith("not ")) or (t.startswith("not ") and "is not None" in t) else "f"
    other_edge = "f" if none_edge == "t" else "t"

    def side(edge):
        starts = [s_ for k, s_ in tn.succ if k == edge]
        return g.reach_from(starts[0]) if starts else set()

    none_side, var_side = side(none_edge), side(other_edge)
    ranks = [n for n in g.live_nodes() if n.kind == "test" and "len(obj.shape)" in norm(n.ast) and "len(cls.dims)" in norm(n.ast)]
    a = [n for n in ranks if n.id in none_side and n.id not in var_side]
    b = [n for n in ranks if n.id in var_side and n.id not in none_side]
    if not a or not b:
        raise AnalysisError("C01.6: the rank tests (len(obj.shape) against len(cls.dims)) were not found on both sides of the multi-axis dispatch")

    def branch_verdict(n, edge):
        """'reject' | 'accept' | 'unknown' | None for the return the given branch of the test leads to directly"""
        for k, s_ in n.succ:
            if k == edge and s_.kind == "return":
                v = s_.ast.value
                if isinstance(v, ast.JoinedStr) or (isinstance(v, ast.Constant) and isinstance(v.value, str) and v.value):
                    return "reject"
                if isinstance(v, ast.Constant) and v.value == "":
                    return "accept"
                return "unknown"
        return None

    def table(test):
        """truth of the rank test for every (rank of the array, number of dims) in 0..6 x 0..6, or None if the test uses
        anything but the two lengths, integers, + - and comparisons"""
        def ev(e, s_, d_):
            t_ = norm(e)
            if t_ == "len(obj.shape)":
                return s_
            if t_ == "len(cls.dims)":
                return d_
            if isinstance(e, ast.Constant) and isinstance(e.value, int) and not isinstance(e.value, bool):
                return e.value
            if isinstance(e, ast.BinOp) and isinstance(e.op, (ast.Add, ast.Sub)):
                l, r_ = ev(e.left, s_, d_), ev(e.right, s_, d_)
                return l + r_ if isinstance(e.op, ast.Add) else l - r_
            if isinstance(e, ast.UnaryOp) and isinstance(e.op, ast.Not):
                return not ev(e.operand, s_, d_)
            if isinstance(e, ast.Compare) and len(e.ops) == 1:
                l, r_ = ev(e.left, s_, d_), ev(e.comparators[0], s_, d_)
                return {ast.Eq: l == r_, ast.NotEq: l != r_, ast.Lt: l < r_, ast.LtE: l <= r_, ast.Gt: l > r_, ast.GtE: l >= r_}[type(e.ops[0])]
            raise ValueError(t_)

        try:
            return {(s_, d_): bool(ev(test, s_, d_)) for s_ in range(7) for d_ in range(7)}
        except (ValueError, KeyError, TypeError):
            return None

    for node, want, label, why in ((a[0], lambda s_, d_: s_ != d_, "without a multi-axis specifier", "it must reject exactly when the ranks differ"),
                                   (b[0], lambda s_, d_: s_ < d_ - 1, "with a multi-axis specifier",
                                    "'*name'/'...' stand for ZERO or more axes, so it must reject exactly when len(shape) < len(dims) - 1")):
        tab = table(node.ast)
        vt, vf = branch_verdict(node, "t"), branch_verdict(node, "f")
        if tab is None or (vt == "reject" and vf == "reject"):
            raise AnalysisError(f"C01.6: the rank test `{norm(node.ast)}` / the verdict of its branches has a form the rule does not interpret")
        rej_truth = True if vt == "reject" else False if vf == "reject" else None
        if rej_truth is None:
            raise AnalysisError(f"C01.6: neither branch of the rank test `{norm(node.ast)}` rejects directly")
        wrong = [(s_, d_) for (s_, d_), v in sorted(tab.items()) if (v == rej_truth) != bool(want(s_, d_)) and (node is a[0] or d_ >= 1)]
        if wrong:
            s_, d_ = wrong[0]
            ctx.bad("C01.6", f, node.ast, f"{label} the rank test is `{norm(node.ast)}`; {why} (e.g. an array of rank {s_} against {d_} dims is "
                    f"{'rejected' if tab[(s_, d_)] == rej_truth else 'not rejected'})")
        else:
            ctx.ok("C01.6", f.qualname, f"{label}: `{norm(node.ast)}` rejects exactly the rank pairs it must (49 pairs)")


# ------------------------------------------------------------------------ C01.8
def check_no_accept_before_shape_check(ctx):
    """`__instancecheck_str__` answers "" (= matches) only after `_check_shape` has looked at the shape -- except on the two
    documented short cuts: a transparent annotation (`_skip_instancecheck`) and the flatten mode.  Any other accepting
    return that the shape check does not dominate is a fast path on which rank / sizes / bindings are never compared
    (`Float[Array, "_ ..."]` accepting a scalar)."""
    from ..roles import node_calls, roles_for

    m = ctx.model
    r = roles_for(m)
    f = m.func("_array_types._MetaAbstractArray.__instancecheck_str__")
    ctx.saw(f)
    g = NoReturn(m).cfg(f)
    dom = g.dominators()
    shape_nodes = [n for n in g.live_nodes() if any(m.is_call_to(f, c, "_array_types._MetaAbstractArray._check_shape") or
                                                    (isinstance(c.func, ast.Attribute) and c.func.attr == "_check_shape") for c in node_calls(n))]
    need(shape_nodes, "C01.8: the call of _check_shape was not found in __instancecheck_str__")
    n_acc = 0
    for n in g.live_nodes():
        if n.kind != "return" or not (isinstance(n.ast.value, ast.Constant) and n.ast.value.value == ""):
            continue
        if any(sn.id in dom[n.id] for sn in shape_nodes):
            continue
        n_acc += 1
        # the test that guards this early acceptance: walk back from the return through straight-line predecessors
        guard = None
        cur = n
        for _hop in range(6):
            preds = [p_ for _, p_ in cur.pred if p_.id in g.reachable]
            if len(preds) != 1:
                break
            cur = preds[0]
            if cur.kind == "test":
                guard = cur
                break
        gt = norm(guard.ast) if guard is not None else "<unconditional>"
        ok_guard = guard is not None and (gt.endswith("._skip_instancecheck") or any(r.role_of_call(f, c) == "get_treeflatten_memo" for c in node_calls(guard)))
        if not ok_guard and guard is not None and node_calls(guard):
            # a getter of the flatten-mode flag under another name
            from ..flagstate import discover_flags
            from . import c05

            stack_tl, _, _ = c05.locate_stack(r)
            getters = {x.qualname for fl in discover_flags(m, r, stack_tl) if not fl.guarded_setters and not fl.raising_getters for x in fl.getters}
            tg = [m.resolve_call(f, c) for c in node_calls(guard)]
            if any(t.kind == "func" and t.target.qualname in getters for t in tg):
                ok_guard = True
            elif any(t.kind != "func" or t.target.module.short == "_storage" for t in tg):
                raise AnalysisError(f"C01.8: the early acceptance under `{gt}` is decided by a call the rule cannot classify")
        if ok_guard:
            ctx.ok("C01.8", f.qualname, f"early acceptance under `{gt}` (documented short cut)")
        else:
            ctx.bad("C01.8", f, n.ast, f"the check answers 'matches' under `{gt}` without the shape having been compared (the shape check does not dominate this return): "
                    "rank, sizes and bindings are skipped on that path", construct=f"accept before _check_shape under {gt}")
    ctx.counters["early_acceptances"] = n_acc
    ctx.floor("C01.8", "early_acceptances", 2)
