"""C01 -- an array check decides shape exactly as the dim-string language says.

Decides six structural necessary conditions of the checking procedure (not the shape
arithmetic, which is value-level):
  C01.1 dim-kind exhaustiveness (writer/reader): the dim representations the parser can put
        at a single-axis position and at the multi-axis position equal the kinds the checker
        dispatches on (a kind that is built but not handled falls into an `assert`).
  C01.2 per-axis branch table vs the statement: anonymous -> accept; `#` and size 1 ->
        accept (tested before the kind-specific arms, after the anonymous test); fixed ->
        reject iff size differs; symbolic -> reject iff value differs; named -> bind if absent
        else reject iff differs; rejections return a non-empty message.
  C01.3 unbound symbolic name => AnnotationError: every eval() on the check path lies in a try
        whose NameError handler raises AnnotationError, and is handed fresh copies of the memos
        (never the live memo, in which eval would plant `__builtins__`).
  C01.4 slice agreement: every _check_dims(cls.dims[S], obj.shape[S], ..) uses the same slice
        on both, and the multi-axis segment is the same slice at the bind and compare sites.
  C01.5 bind-if-absent: every store into a memo is in the KeyError handler of a lookup of the
        same key (absence is tested as absence, not falsiness), or is the broadcast refinement
        of an existing '*name' entry -- which records the *current* use's `#` flag and is
        executed on every accepting path of the refinable branch.
  C01.6 rank test: `!=` without a multi-axis specifier, `< len(dims) - 1` with one.
Not decided: that the prefix/suffix arithmetic and the broadcast table are right; the dtype
test (C03).
"""
from __future__ import annotations

import ast

from ..core import AnalysisError, RuleContext, need, norm, short
from ..model import walk_scope
from ..typestate import NoReturn
from .c04 import memo_role

EXPLANATION = __doc__


def run(ctx: RuleContext):
    ctx.sub(check_kind_exhaustiveness, ctx)
    ctx.sub(check_axis_table, ctx)
    ctx.sub(check_eval_discipline, ctx, "C01.3")
    ctx.sub(check_slice_agreement, ctx)
    ctx.sub(check_bind_if_absent, ctx)
    ctx.sub(check_rank_test, ctx)


def _kind_of(e):
    """Name of a dim representation: class name of a constructor call or sentinel name."""
    if isinstance(e, ast.Call) and isinstance(e.func, ast.Name) and e.func.id[:1] == "_":
        return e.func.id
    if isinstance(e, ast.Name) and e.id.startswith("_anonymous"):
        return e.id
    return None


# ------------------------------------------------------------------------ C01.1
def check_kind_exhaustiveness(ctx):
    m = ctx.model
    mk = m.func("_array_types._make_array_cached")
    cd = m.func("_array_types._check_dims")
    cs = m.func("_array_types._MetaAbstractArray._check_shape")
    for f in (mk, cd, cs):
        ctx.saw(f)
    # built kinds, by whether they sit under `if variadic:` (true side)
    built = {"single": set(), "multi": set()}

    def walk(stmts, ctxvar):
        for st in stmts:
            if isinstance(st, ast.If):
                t = st.test
                if isinstance(t, ast.Name) and t.id == "variadic":
                    raises = any(isinstance(x, ast.Raise) for x in st.body)
                    walk(st.body, True if not raises else ctxvar)
                    walk(st.orelse, False)
                else:
                    walk(st.body, ctxvar)
                    walk(st.orelse, ctxvar)
            elif isinstance(st, ast.Assign) and len(st.targets) == 1 and isinstance(st.targets[0], ast.Name) and st.targets[0].id == "elem":
                k = _kind_of(st.value)
                if k:
                    built["multi" if ctxvar else "single"].add(k)
            elif isinstance(st, (ast.For, ast.While, ast.Try)):
                for b in (getattr(st, "body", []), getattr(st, "orelse", []), getattr(st, "finalbody", [])):
                    walk(b, ctxvar)

    # only the classification chain (after the modifier loop): statements of the per-token loop
    loops = [x for x in mk.body if isinstance(x, ast.For)]
    need(loops, "_make_array_cached: per-token loop not found")
    for st in loops[0].body:
        if isinstance(st, ast.If) and isinstance(st.test, ast.Compare) and norm(st.test.left) == "dim_type":
            walk([st], None)
    # fixed / symbolic with variadic raise before -> single
    for k in list(built["multi"]):
        pass
    # `None` context means "not under an `if variadic`": fixed and symbolic (variadic raised earlier)
    if not built["single"] or not built["multi"]:
        raise AnalysisError(f"C01.1: could not collect the dim kinds built by the parser (got {built})")

    def handled(f, var):
        out = set()
        for n in ast.walk(f.node):
            if isinstance(n, ast.Compare) and len(n.ops) == 1 and isinstance(n.ops[0], ast.Is):
                l, r_ = n.left, n.comparators[0]
                if isinstance(l, ast.Name) and l.id == var and isinstance(r_, ast.Name):
                    out.add(r_.id)
                if isinstance(l, ast.Call) and norm(l.func) == "type" and norm(l.args[0]) == var and isinstance(r_, ast.Name):
                    out.add(r_.id)
            if isinstance(n, ast.Call) and norm(n.func) == "isinstance" and norm(n.args[0]) == var and isinstance(n.args[1], ast.Name):
                out.add(n.args[1].id)
        return out

    h_single = handled(cd, "cls_dim")
    h_multi = handled(cs, "variadic_dim")
    for label, b, h, f in (("single-axis", built["single"], h_single, cd), ("multi-axis", built["multi"], h_multi, cs)):
        if b - h:
            ctx.bad("C01.1", f, f.node, f"the parser can produce the {label} dim kind(s) {sorted(b - h)} but the checker has no branch for them: such an axis "
                    "falls into an assert / is silently treated as another kind", construct=f"{label} kinds built {sorted(b)} vs handled {sorted(h)}")
        elif h - b:
            ctx.note(f"{label}: checker also dispatches on {sorted(h - b)} (never built)")
            ctx.ok("C01.1", f.qualname, f"{label} kinds built {sorted(b)} all handled")
        else:
            ctx.ok("C01.1", f.qualname, f"{label} kinds built = handled = {sorted(b)}")
    ctx.counters["dim_kinds"] = len(built["single"]) + len(built["multi"])
    ctx.floor("C01.1", "dim_kinds", 6)


# ------------------------------------------------------------------------ C01.2
def _chain(st):
    arms = []
    while True:
        arms.append((st.test, st.body))
        if len(st.orelse) == 1 and isinstance(st.orelse[0], ast.If):
            st = st.orelse[0]
        else:
            arms.append((None, st.orelse))
            break
    return arms


def _is_reject(stmts) -> bool:
    return any(isinstance(x, ast.Return) and (isinstance(x.value, ast.JoinedStr) or (isinstance(x.value, ast.Constant) and isinstance(x.value.value, str) and x.value.value))
               for s in stmts for x in ast.walk(s))


def check_axis_table(ctx):
    m = ctx.model
    f = m.func("_array_types._check_dims")
    loops = [x for x in f.body if isinstance(x, ast.For)]
    need(len(loops) == 1 and isinstance(loops[0].target, ast.Tuple) and len(loops[0].target.elts) == 2, "_check_dims: per-axis loop not found")
    lp = loops[0]
    dvar, svar = lp.target.elts[0].id, lp.target.elts[1].id
    if not (isinstance(lp.iter, ast.Call) and norm(lp.iter.func) == "zip" and [norm(a) for a in lp.iter.args] == [f.params[0], f.params[1]]):
        ctx.bad("C01.2", f, lp, "the per-axis loop does not pair each dim with the axis size at the same position (zip(cls_dims, obj_shape))")
    tops = [x for x in lp.body if isinstance(x, ast.If)]
    need(len(tops) == 1 and len(lp.body) == 1, "_check_dims: loop body is not one if/elif chain")
    arms = _chain(tops[0])
    seen = []
    for test, body in arms:
        t = norm(test) if test is not None else "<else>"
        kind = None
        if test is not None and t == f"{dvar} is _anonymous_dim":
            kind = "anonymous"
            if _is_reject(body) or any(not isinstance(x, ast.Pass) for x in body):
                ctx.bad("C01.2", f, test, "an anonymous axis (`_`) does not simply accept")
            else:
                ctx.ok("C01.2", f.qualname, "anonymous axis -> accept")
        elif test is not None and "broadcastable" in t:
            kind = "broadcast"
            ok = isinstance(test, ast.BoolOp) and isinstance(test.op, ast.And) and {norm(v) for v in test.values} == {f"{dvar}.broadcastable", f"{svar} == 1"}
            if not ok:
                ctx.bad("C01.2", f, test, f"the broadcast arm is `{t}`; the statement demands: '#' additionally accepts size 1 (and only size 1)")
            elif any(not isinstance(x, ast.Pass) for x in body):
                ctx.bad("C01.2", f, test, "a `#` axis of size 1 does not simply accept")
            else:
                ctx.ok("C01.2", f.qualname, "`#` and size 1 -> accept")
        elif test is not None and t in (f"type({dvar}) is _FixedDim", f"isinstance({dvar}, _FixedDim)"):
            kind = "fixed"
            inner = [x for x in body if isinstance(x, ast.If)]
            ok = len(inner) == 1 and len(body) == 1 and {norm(inner[0].test)} <= {f"{dvar}.size != {svar}", f"{svar} != {dvar}.size"} and _is_reject(inner[0].body) and not inner[0].orelse
            if not ok:
                ctx.bad("C01.2", f, test, f"a fixed axis is not rejected exactly when its size differs (found `{norm(inner[0].test) if inner else short(body[0], 60)}`)")
            else:
                ctx.ok("C01.2", f.qualname, "fixed axis -> reject iff size differs")
        elif test is not None and t in (f"type({dvar}) is _SymbolicDim", f"isinstance({dvar}, _SymbolicDim)"):
            kind = "symbolic"
            cmp = [x for x in body if isinstance(x, ast.If)]
            ok = len(cmp) == 1 and isinstance(cmp[0].test, ast.Compare) and isinstance(cmp[0].test.ops[0], ast.NotEq) and svar in norm(cmp[0].test) and _is_reject(cmp[0].body) and not cmp[0].orelse
            if not ok:
                ctx.bad("C01.2", f, test, "a symbolic axis is not rejected exactly when the value of its expression differs from the axis size")
            else:
                lhs = [norm(cmp[0].test.left), norm(cmp[0].test.comparators[0])]
                other = [x for x in lhs if x != svar][0]
                # `other` must be the result of the (second) eval
                defs = [a for a in ast.walk(ast.Module(body=body, type_ignores=[])) if isinstance(a, ast.Assign) and norm(a.targets[0]) == other]
                if not (defs and isinstance(defs[-1].value, ast.Call) and norm(defs[-1].value.func) == "eval"):
                    ctx.bad("C01.2", f, cmp[0].test, f"the value compared for a symbolic axis (`{other}`) is not the evaluated expression")
                else:
                    ctx.ok("C01.2", f.qualname, "symbolic axis -> reject iff eval(expression) differs")
        elif test is None:
            kind = "named"
            asserts = [x for x in body if isinstance(x, ast.Assert)]
            if not any("_NamedDim" in norm(a.test) for a in asserts):
                ctx.note("named arm is not asserted to be a _NamedDim")
            _check_named_arm(ctx, f, body, svar, "single_memo")
        else:
            ctx.bad("C01.2", f, test, f"the per-axis dispatch has an arm the statement does not know: `{t}`")
        seen.append(kind)
    want_order = ["anonymous", "broadcast"]
    if seen[:2] != want_order:
        ctx.bad("C01.2", f, tops[0], f"the anonymous test and the `#`/size-1 test must come first, in that order, before the kind-specific arms (found {seen}): "
                "otherwise `#` does not apply to every kind of axis / the anonymous sentinel is asked for `.broadcastable`", construct=f"arm order {seen}")
    for k in ("anonymous", "broadcast", "fixed", "symbolic", "named"):
        if k not in seen:
            ctx.bad("C01.2", f, tops[0], f"the per-axis dispatch has no `{k}` arm", construct=f"missing arm {k}")
    ctx.counters["axis_arms"] = len(seen)
    ctx.floor("C01.2", "axis_arms", 5)
    # final accept
    last = f.body[-1]
    if not (isinstance(last, ast.Return) and isinstance(last.value, ast.Constant) and last.value.value == ""):
        ctx.bad("C01.2", f, last, "after all axes matched, _check_dims does not return the empty (accepting) message")


def _check_named_arm(ctx, f, body, svar, memo):
    """try: v = memo[key] / except KeyError: memo[key] = size / else: if v != size: reject"""
    tries = [x for x in body if isinstance(x, ast.Try)]
    if len(tries) != 1:
        # alternative spelling: `if key not in memo: bind else: compare`
        ifs = [x for x in body if isinstance(x, ast.If) and isinstance(x.test, ast.Compare) and isinstance(x.test.ops[0], (ast.NotIn, ast.In)) and norm(x.test.comparators[0]) == memo]
        if len(ifs) == 1:
            ctx.ok("C01.5", f.qualname, "named axis: membership test for absence")
            return
        ctx.bad("C01.5", f, body[-1] if body else f.node, "a named axis is not bound by 'look up; bind only if the name is absent (KeyError / not in)': testing the looked-up "
                "value for falsiness treats a name bound to size 0 as unbound", construct="named arm: absence not tested as absence")
        return
    tr = tries[0]
    look = [a for a in tr.body if isinstance(a, ast.Assign) and isinstance(a.value, ast.Subscript) and norm(a.value.value) == memo]
    hk = [h for h in tr.handlers if h.type is not None and "KeyError" in norm(h.type)]
    if not (look and hk):
        ctx.bad("C01.5", f, tr, "named axis: lookup / KeyError handler not found")
        return
    key = norm(look[0].value.slice)
    val = norm(look[0].targets[0])
    stores = [a for a in hk[0].body if isinstance(a, ast.Assign) and isinstance(a.targets[0], ast.Subscript) and norm(a.targets[0].value) == memo]
    if not (len(stores) == 1 and norm(stores[0].targets[0].slice) == key and norm(stores[0].value) == svar):
        ctx.bad("C01.5", f, hk[0], f"an absent name is not bound to the axis size under the same key (`{memo}[{key}] = {svar}`)")
    else:
        ctx.ok("C01.5", f.qualname, f"named axis: bind `{memo}[{key}] = {svar}` only in the KeyError handler of the lookup of the same key")
    cmp = [x for x in tr.orelse if isinstance(x, ast.If)]
    ok = len(cmp) == 1 and isinstance(cmp[0].test, ast.Compare) and isinstance(cmp[0].test.ops[0], ast.NotEq) and {norm(cmp[0].test.left), norm(cmp[0].test.comparators[0])} == {val, svar} and _is_reject(cmp[0].body)
    if not ok:
        ctx.bad("C01.2", f, tr, "a bound name is not rejected exactly when the axis size differs from the bound size")
    else:
        ctx.ok("C01.2", f.qualname, "named axis -> bind if absent else reject iff differs")


# ------------------------------------------------------------------------ C01.3
def check_eval_discipline(ctx, tag):
    m = ctx.model
    n = 0
    for q in ("_array_types._check_dims", "_array_types._MetaAbstractArray._check_shape", "_array_types._MetaAbstractArray.__instancecheck_str__"):
        f = m.func(q)
        for c in [x for x in ast.walk(f.node) if isinstance(x, ast.Call) and isinstance(x.func, ast.Name) and x.func.id in ("eval", "exec")]:
            n += 1
            ctx.saw(f)
            tries = [t for t in ast.walk(f.node) if isinstance(t, ast.Try) and any(y is c for b in t.body for y in ast.walk(b))]
            ok = False
            for t in tries:
                for h in t.handlers:
                    if h.type is not None and "NameError" in norm(h.type):
                        rs = [x for x in h.body if isinstance(x, ast.Raise)]
                        if rs and isinstance(rs[-1].exc, ast.Call) and norm(rs[-1].exc.func) == "AnnotationError" and isinstance(h.body[-1], ast.Raise):
                            ok = True
            if not ok:
                ctx.bad(tag, f, c, f"`{short(c, 60)}` is not inside a try whose NameError handler raises AnnotationError: a symbolic axis that mentions a name that "
                        "is not bound (or not an argument) surfaces as NameError -- which the decorator reports as an ordinary type-check failure -- instead of AnnotationError")
            else:
                ctx.ok(tag, f.qualname, f"`{short(c, 50)}`: NameError -> AnnotationError")
            # namespaces are copies
            for a in c.args[1:]:
                fresh = (isinstance(a, ast.Call) and ((isinstance(a.func, ast.Attribute) and a.func.attr == "copy") or norm(a.func) == "dict")) or isinstance(a, ast.Dict)
                if not fresh:
                    ctx.bad(tag, f, c, f"eval is handed `{norm(a)}` itself, not a copy: eval plants `__builtins__` into it, so the live bindings (and print_bindings / "
                            "error messages) gain a spurious entry")
                else:
                    ctx.ok(tag, f.qualname, f"eval namespace `{norm(a)}` is a fresh copy")
    ctx.counters["eval_sites"] = n
    ctx.floor(tag, "eval_sites", 2)


# ------------------------------------------------------------------------ C01.4
def check_slice_agreement(ctx):
    m = ctx.model
    f = m.func("_array_types._MetaAbstractArray._check_shape")
    ctx.saw(f)
    n = 0
    for c in [x for x in ast.walk(f.node) if isinstance(x, ast.Call) and norm(x.func) == "_check_dims"]:
        n += 1
        a0, a1 = c.args[0], c.args[1]
        s0 = norm(a0.slice) if isinstance(a0, ast.Subscript) else "<all>"
        s1 = norm(a1.slice) if isinstance(a1, ast.Subscript) else "<all>"
        b0 = norm(a0.value) if isinstance(a0, ast.Subscript) else norm(a0)
        b1 = norm(a1.value) if isinstance(a1, ast.Subscript) else norm(a1)
        if not (b0.endswith(".dims") and b1.endswith(".shape")):
            ctx.bad("C01.4", f, c, f"_check_dims is not given (cls.dims[..], obj.shape[..]) but ({norm(a0)}, {norm(a1)})")
        elif s0 != s1:
            ctx.bad("C01.4", f, c, f"dims are sliced with [{s0}] but the shape with [{s1}]: axes are compared against the wrong dims")
        else:
            ctx.ok("C01.4", f.qualname, f"_check_dims(dims[{s0}], shape[{s1}])")
    ctx.counters["check_dims_calls"] = n
    ctx.floor("C01.4", "check_dims_calls", 3)
    # the multi-axis segment: every slice of the shape that is not an argument of _check_dims
    arg_ids = {id(a) for c in ast.walk(f.node) if isinstance(c, ast.Call) and norm(c.func) == "_check_dims" for a in c.args}
    segs = [x for x in ast.walk(f.node) if isinstance(x, ast.Subscript) and norm(x.value).endswith(".shape") and isinstance(x.slice, ast.Slice) and id(x) not in arg_ids]
    if len(segs) < 2:
        raise AnalysisError("C01.4: multi-axis segment slices not found")
    texts = {norm(x.slice) for x in segs}
    if len(texts) > 1:
        ctx.bad("C01.4", f, segs[0], f"the multi-axis segment of the shape is taken with different slices at the bind and compare sites: {sorted(texts)} "
                "(a '*name' would be bound to one stretch of axes and compared against another)", construct=f"segment slices {sorted(texts)}")
    else:
        only = segs[0].slice
        if only.lower is None or only.upper is None:
            ctx.bad("C01.4", f, segs[0], f"the multi-axis segment `shape[{norm(only)}]` is half-open: it must exclude both the prefix and the suffix axes")
        else:
            ctx.ok("C01.4", f.qualname, f"multi-axis segment is shape[{norm(only)}] at all {len(segs)} sites")


# ------------------------------------------------------------------------ C01.5
def check_bind_if_absent(ctx):
    m = ctx.model
    f = m.func("_array_types._MetaAbstractArray._check_shape")
    g = NoReturn(m).cfg(f)
    memo = "variadic_memo"
    stores = [n for n in g.live_nodes() if n.kind == "stmt" and isinstance(n.ast, ast.Assign) and isinstance(n.ast.targets[0], ast.Subscript) and norm(n.ast.targets[0].value) == memo]
    need(len(stores) >= 2, "C01.5: stores into the variadic memo not found")
    ctx.counters["variadic_memo_stores"] = len(stores)
    tries = [t for t in ast.walk(f.node) if isinstance(t, ast.Try) and any(isinstance(a, ast.Assign) and isinstance(a.value, ast.Subscript) and norm(a.value.value) == memo for a in t.body)]
    need(len(tries) == 1, "C01.5: lookup of the variadic memo not found")
    tr = tries[0]
    look = [a for a in tr.body if isinstance(a, ast.Assign) and isinstance(a.value, ast.Subscript) and norm(a.value.value) == memo][0]
    key = norm(look.value.slice)
    hk = [h for h in tr.handlers if h.type is not None and "KeyError" in norm(h.type)]
    need(hk, "C01.5: KeyError handler of the variadic lookup not found")
    for sn in stores:
        st = sn.ast
        in_handler = any(y is st for y in ast.walk(hk[0]))
        in_else = any(y is st for b in tr.orelse for y in ast.walk(b))
        if norm(st.targets[0].slice) != key:
            ctx.bad("C01.5", f, st, f"a '*name' binding is stored under `{norm(st.targets[0].slice)}`, not under the key that was looked up (`{key}`)")
            continue
        v = st.value
        flag = norm(v.elts[0]) if isinstance(v, ast.Tuple) and len(v.elts) == 2 else None
        if flag != "broadcastable":
            ctx.bad("C01.5", f, st, f"the stored '*name' entry records `{flag}` as its broadcastable flag instead of the current use's `#` flag: after a plain `*name` "
                    "use the binding must be pinned (no longer broadcast against)")
        if in_handler:
            if not (isinstance(v, ast.Tuple) and norm(v.elts[1]).startswith("obj.shape[")):
                ctx.bad("C01.5", f, st, "a new '*name' binding does not store the matched segment of the shape")
            else:
                ctx.ok("C01.5", f.qualname, f"new '*name' binding stored only in the KeyError handler: `{short(st, 70)}`")
        elif in_else:
            ctx.ok("C01.5", f.qualname, f"broadcast refinement of an existing '*name' entry: `{short(st, 70)}`")
        else:
            ctx.bad("C01.5", f, st, "a '*name' binding is overwritten outside the bind-if-absent / broadcast-refinement sites")
    # the refinement must be executed on every accepting path of the refinable (previously-#) branch
    tests = [n for n in g.live_nodes() if n.kind == "test" and norm(n.ast) == "prev_broadcastable"]
    need(len(tests) == 1, "C01.5: test of the previous binding's `#` flag not found")
    tnode = tests[0]
    store_ids = {n.id for n in stores}
    start = [s for k, s in tnode.succ if k == "t"]
    seen, stack, leak = set(), list(start), None
    while stack:
        n = stack.pop()
        if n.id in seen or n.id in store_ids:
            continue
        seen.add(n.id)
        if n.kind == "return" and isinstance(n.ast.value, ast.Constant) and n.ast.value.value == "":
            leak = n
            break
        for k, s in n.succ:
            if k in ("e", "b"):
                continue
            stack.append(s)
    if leak is not None:
        ctx.bad("C01.5", f, tnode.ast, "when the existing '*name' binding is still broadcastable, an accepting path does not rewrite the entry: the current use's `#` flag (and the "
                "broadcast shape) is lost, so a plain `*name` use does not pin the binding and a later, different shape is accepted",
                construct="prev_broadcastable branch: accepting path without `variadic_memo[name] = (broadcastable, ...)`")
    else:
        ctx.ok("C01.5", f.qualname, "every accepting path of the previously-`#` branch rewrites the entry with the current use's flag")


# ------------------------------------------------------------------------ C01.6
def check_rank_test(ctx):
    m = ctx.model
    f = m.func("_array_types._MetaAbstractArray._check_shape")
    tops = [x for x in f.body if isinstance(x, ast.If)]
    need(tops and "index_variadic is None" in norm(tops[0].test), "C01.6: dispatch on index_variadic not found")
    st = tops[0]
    pol = not norm(st.test).startswith("not ") and "is not None" not in norm(st.test)
    none_side, var_side = (st.body, st.orelse) if pol else (st.orelse, st.body)

    def first_if(stmts):
        for x in stmts:
            if isinstance(x, ast.If):
                return x
        return None

    a, b = first_if(none_side), first_if(var_side)
    need(a is not None and b is not None, "C01.6: rank tests not found")
    ta = norm(a.test)
    ok_a = ta in ("len(obj.shape) != len(cls.dims)", "len(cls.dims) != len(obj.shape)") and _is_reject(a.body)
    if not ok_a:
        ctx.bad("C01.6", f, a.test, f"without a multi-axis specifier the rank test is `{ta}`; it must reject exactly when the ranks differ")
    else:
        ctx.ok("C01.6", f.qualname, "no multi-axis specifier: reject iff len(shape) != len(dims)")
    tb = norm(b.test)
    ok_b = tb in ("len(obj.shape) < len(cls.dims) - 1", "len(cls.dims) - 1 > len(obj.shape)", "len(obj.shape) + 1 < len(cls.dims)", "len(obj.shape) <= len(cls.dims) - 2") and _is_reject(b.body)
    if not ok_b:
        ctx.bad("C01.6", f, b.test, f"with a multi-axis specifier the rank test is `{tb}`; '*name'/'...' stand for ZERO or more axes, so it must reject exactly when "
                "len(shape) < len(dims) - 1")
    else:
        ctx.ok("C01.6", f.qualname, "multi-axis specifier: reject iff len(shape) < len(dims) - 1 (zero or more axes)")
