"""C20 -- annotations survive pickling and copying with their meaning intact.

Decided structurally:
  C20.1 a reducer is registered with copyreg.pickle for the annotation metaclass at import
        time; the base class AbstractArray has its own by-reference reducer.
  C20.2 no sentinels on the wire: the reducer's arguments are drawn only from fields that
        cannot hold one of the module-level `object()` sentinels (which would come back as a
        different object and silently stop matching `is` tests).
  C20.3 determinacy: every attribute put into the class dictionary by _make_array is a
        function of what the reducer replays: either the reducer replays the constructor's
        own arguments (a field that stores them unchanged), or no derived field is narrowed
        from the *inner* annotation in the nesting branch without the replayed fields being
        narrowed too (dims <-> dim_str yes; dtypes <-> the category class: impossible).
  C20.5 by-value class picklers (cloudpickle serialises the *class dictionary* of dynamically
        created classes and does not consult copyreg): every identity sentinel that can sit in
        an annotation's class dictionary is pickled / copied *by reference* (its class defines
        __reduce__ returning its module-level name, __copy__/__deepcopy__ returning self) --
        a bare object() comes back as a different object and every `is` test against it fails,
        for the copy and (in-process, where the class is re-used) for the original.
  C20.4 by-reference resolvability of the category classes (name = exported name).
  C20.8 process independence of the namespace: no function that takes part in building an annotation's class
        namespace reads a module-level table whose stored values depend on the order of registration in this
        process (`1 << len(table)`, a counter, an id): by-value serialisers ship the namespace as it is.
Not decided: cross-process equality of accepted sets (value level).
"""
from __future__ import annotations

import ast

from ..core import AnalysisError, RuleContext, need, norm, short
from ..model import walk_scope
from . import c05

EXPLANATION = __doc__


def run(ctx: RuleContext):
    ctx.sub(check_registration, ctx)
    ctx.sub(check_no_sentinels, ctx)
    ctx.sub(check_determinacy, ctx)
    ctx.sub(check_by_reference, ctx)
    ctx.sub(check_sentinels_by_reference, ctx)
    ctx.sub(check_no_mutable_state_in_namespace, ctx)
    ctx.sub(check_namespace_is_process_independent, ctx)
    ctx.sub(check_categories_are_bound_once, ctx)
    # C20.7: what an annotation accepts is decided from the annotation's own attributes, not from a table keyed by
    # something that a reloaded copy can share with another annotation (`id()` of a freed tuple, a name, a repr)
    from ..roles import roles_for
    from ._memo import check_no_lossy_memo

    ctx.sub(check_no_lossy_memo, ctx, "C20.7", roles_for(ctx.model), what="the verdict")


def _reducer(ctx):
    m = ctx.model
    mod = m.module("_array_types")
    regs = []
    for st in mod.tree.body:
        if isinstance(st, ast.Expr) and isinstance(st.value, ast.Call) and norm(st.value.func) in ("copyreg.pickle",):
            regs.append(st.value)
    return mod, regs


def check_registration(ctx):
    m = ctx.model
    mod, regs = _reducer(ctx)
    aa = m.cls("_array_types.AbstractArray")
    meta = m.metaclass_of(aa)
    need(meta is not None, "AbstractArray has no metaclass defined in the package")
    good = [c for c in regs if len(c.args) == 2 and norm(c.args[0]) == meta.name]
    if not good:
        ctx.bad("C20.1", (mod.relpath, mod.qualname), mod.tree, f"no copyreg.pickle({meta.name}, <reducer>) at import time: annotation classes are created dynamically and cannot "
                "be pickled by reference", construct=f"copyreg.pickle({meta.name}, ...)")
        return None
    red = m.resolve_expr_static(mod, good[0].args[1])
    need(red is not None and hasattr(red, "node"), "the registered reducer is not a module-level function")
    ctx.saw(red)
    ctx.ok("C20.1", mod.qualname, f"copyreg.pickle({meta.name}, {red.name}) registered at import time")
    # copyreg's dispatch table is looked up by the *exact* type of the object: every metaclass _make_array can instantiate needs
    # its own registration (with the same reducer); the registration of a base metaclass does not cover a sub-metaclass
    ma = m.func("_array_types._make_array")
    sites = creation_sites(m, ma)
    need(sites, "_make_array: the metaclass call that creates the annotation class was not found")
    registered = {norm(c.args[0]): c for c in regs if len(c.args) == 2}
    n_meta = 0
    for call, klasses in sites:
        for k in klasses:
            n_meta += 1
            reg = registered.get(k.name)
            if reg is None:
                ctx.bad("C20.1", ma, call, f"`{short(call, 50)}` creates annotations whose metaclass is `{k.name}`, which is not registered with copyreg.pickle (the dispatch "
                        f"table is looked up by the exact type: the registration of {meta.name} does not cover it): such annotations are pickled by name, which fails for a "
                        "dynamically created class", construct=f"copyreg.pickle({k.name}, ...) missing")
            elif norm(reg.args[1]) != norm(good[0].args[1]):
                raise AnalysisError(f"C20.1: `{k.name}` is registered with another reducer (`{norm(reg.args[1])}`) than {meta.name}; that reducer is not analysed")
            else:
                ctx.ok("C20.1", ma.qualname, f"annotations are instances of `{k.name}`, registered under exactly that type")
    ctx.counters["annotation_metaclasses"] = n_meta
    ctx.floor("C20.1", "annotation_metaclasses", 1)
    # base class reducer: on the `x is AbstractArray` side the reducer returns (helper, ()) with
    # helper() == AbstractArray
    from ..absim import eval_bool, simulate
    from ..typestate import NoReturn

    g = NoReturn(m).cfg(red)
    xn = red.params[0]

    def atom_for(val):
        def atom(e):
            t = norm(e)
            if t in (f"{xn} is AbstractArray", f"AbstractArray is {xn}"):
                return val
            if t in (f"{xn} is not AbstractArray", f"AbstractArray is not {xn}"):
                return not val
            return None
        return atom

    def stop(n):
        return n.kind in ("return", "raise", "exit", "exit_e", "exit_b", "falloff")

    outs = simulate(g, g.entry, stop, lambda n: eval_bool(n.ast, atom_for(True)))
    base_ok = bool(outs)
    for o in outs:
        v = o.end.ast.value if o.end.kind == "return" else None
        ok1 = False
        if isinstance(v, ast.Tuple) and len(v.elts) == 2 and isinstance(v.elts[1], ast.Tuple) and not v.elts[1].elts:
            f0 = m.resolve_expr_static(red, v.elts[0])
            if f0 is not None and hasattr(f0, "node"):
                r0 = [y for y in walk_scope(f0.node) if isinstance(y, ast.Return)]
                ok1 = len(r0) == 1 and norm(r0[0].value) == "AbstractArray"
        base_ok = base_ok and ok1
    if base_ok:
        ctx.ok("C20.1", red.qualname, "the base class AbstractArray is reduced by reference (helper returning AbstractArray)")
    else:
        ctx.bad("C20.1", red, red.node, "AbstractArray itself is not reduced to a by-reference helper", construct="base-class reducer")
    return red


def _general_return(red):
    """The return of the reducer for a proper annotation: (callable, (args...))."""
    rets = [x for x in walk_scope(red.node) if isinstance(x, ast.Return) and isinstance(x.value, ast.Tuple) and len(x.value.elts) == 2]
    gen = [x for x in rets if any(isinstance(n, ast.Attribute) and isinstance(n.value, ast.Name) and n.value.id == red.params[0] for n in ast.walk(x.value))
           or any(isinstance(n, ast.Name) and n.id not in (red.params[0],) and c05._assignments_to(red, n.id) for n in ast.walk(x.value.elts[1]))]
    gen = [x for x in gen if not (isinstance(x.value.elts[1], ast.Tuple) and not x.value.elts[1].elts)]
    if len(gen) != 1:
        raise AnalysisError("C20: the reducer's general return `(<callable>, (<args>,))` not recognised")
    return gen[0]


def _resolve_local(red, e, depth=0):
    """Follow single-assignment locals of the reducer; returns the list of possible source
    expressions (all definitions of the name)."""
    if isinstance(e, ast.Name) and e.id not in red.params and depth < 4:
        defs = c05._assignments_to(red, e.id)
        out = []
        for _, v, idx in defs:
            if idx is None:
                out += _resolve_local(red, v, depth + 1)
        return out or [e]
    return [e]


def reducer_plan(ctx, red):
    """(category_exprs, item_exprs, loader FuncInfo|None) of the general return."""
    m = ctx.model
    gen = _general_return(red)
    fn_e, args_e = gen.value.elts
    x = red.params[0]
    if norm(fn_e) == f"{x}.dtype.__getitem__":
        item = args_e.elts[0] if isinstance(args_e, ast.Tuple) and len(args_e.elts) == 1 else None
        need(item is not None, "C20: reducer arguments not of the form ((...),)")
        items = _resolve_local(red, item) if isinstance(item, ast.Name) else [item]
        return gen, [ast.parse(f"{x}.dtype", mode="eval").body], items, None
    loader = m.resolve_expr_static(red, fn_e)
    if loader is not None and hasattr(loader, "node") and isinstance(args_e, ast.Tuple) and len(args_e.elts) >= 2:
        cats = _resolve_local(red, args_e.elts[0])
        items = _resolve_local(red, args_e.elts[1])
        # anything else put on the wire must mean the same in every process: a per-process serial / id / counter does not
        for extra in args_e.elts[2:]:
            srcs = _resolve_local(red, extra) if isinstance(extra, ast.Name) else [extra]
            # follow attribute reads of the annotation back to where the reducer (or a helper) stores them
            texts = []
            for s_ in srcs:
                texts.append(s_)
                if isinstance(s_, ast.Attribute) and isinstance(s_.value, ast.Name) and s_.value.id == x:
                    for st in ast.walk(red.module.tree):
                        if isinstance(st, ast.Assign) and any(isinstance(t_, ast.Attribute) and t_.attr == s_.attr for t_ in st.targets):
                            texts.append(st.value)
                        if isinstance(st, ast.Call) and isinstance(st.func, ast.Name) and st.func.id == "setattr" and len(st.args) == 3 and isinstance(st.args[1], ast.Constant) and st.args[1].value == s_.attr:
                            texts.append(st.args[2])
            local = None
            for t_ in texts:
                for c_ in ast.walk(t_):
                    if isinstance(c_, ast.Call) and norm(c_.func).split(".")[-1] in ("next", "id", "getpid", "count", "uuid4", "time", "monotonic", "get_ident"):
                        local = c_
                    if isinstance(c_, ast.Name) and red.module.assigns.get(c_.id) and any(isinstance(v_, ast.Call) and norm(v_.func).split(".")[-1] in ("count",) for v_ in red.module.assigns[c_.id] if v_ is not None):
                        local = c_
            if local is not None:
                ctx.bad("C20.3", red, gen, f"the reducer puts `{norm(extra)}` on the wire, a value of this process (`{short(local, 40)}`): in another process the same number names another "
                        "annotation (or none), so what the loader resolves it to is not the annotation that was pickled", construct=f"process-local value on the wire: {norm(extra)}")
            else:
                raise AnalysisError(f"C20: the reducer puts `{norm(extra)}` on the wire besides the category and the subscription; what it means in another process is not decided")
        return gen, cats, items, loader
    raise AnalysisError(f"C20: reducer callable `{norm(fn_e)}` not recognised")


def class_dict_fields(m, ma) -> dict:
    """field name -> value expression of the class dictionary handed to the metaclass call in
    _make_array: `dict(k=v, ...)`, a `{...}` display, or a name bound once to either."""
    calls = creation_sites(m, ma)
    need(len(calls) == 1 and len(calls[0][0].args) >= 3, "_make_array: the metaclass call that creates the annotation class was not found")
    d = calls[0][0].args[2]
    extra = {}
    if isinstance(d, ast.Name):
        defs = c05._assignments_to(ma, d.id)
        need(len(defs) == 1, "_make_array: class dictionary variable has several definitions")
        # entries added afterwards: `namespace["k"] = v` (possibly on one branch only)
        for st in walk_scope(ma.node):
            if isinstance(st, ast.Assign) and len(st.targets) == 1 and isinstance(st.targets[0], ast.Subscript) and norm(st.targets[0].value) == d.id:
                k = st.targets[0].slice
                need(isinstance(k, ast.Constant) and isinstance(k.value, str), f"_make_array: `{short(st, 60)}` adds a namespace entry under a computed name")
                extra[k.value] = st.value
            if isinstance(st, ast.Call) and isinstance(st.func, ast.Attribute) and norm(st.func.value) == d.id and st.func.attr in ("update", "setdefault", "pop", "clear", "popitem", "__setitem__"):
                raise AnalysisError(f"_make_array: the class dictionary is modified by `{short(st, 60)}`; its entries are not known")
        d = defs[0][1]
    if isinstance(d, ast.Call) and norm(d.func) == "dict" and not d.args:
        return {**{k.arg: k.value for k in d.keywords}, **extra}, d
    if isinstance(d, ast.Dict) and all(isinstance(k, ast.Constant) and isinstance(k.value, str) for k in d.keys):
        return {**{k.value: v for k, v in zip(d.keys, d.values)}, **extra}, d
    raise AnalysisError(f"_make_array: class dictionary `{short(d, 60)}` has an unrecognised form")


def creation_sites(m, ma) -> list:
    """[(call, [metaclass ClassInfo, ...])]: the calls in _make_array that create an annotation class -- `Meta(name, bases, ns)` or
    `meta(name, bases, ns)` with `meta` a local that is only ever bound to metaclasses of the package (`meta = A if c else B`, one per branch)."""
    out = []
    for c in ast.walk(ma.node):
        if not isinstance(c, ast.Call):
            continue
        t = m.resolve_call(ma, c)
        if t.kind == "class" and m.is_metaclass(t.target):
            out.append((c, [t.target]))
        elif isinstance(c.func, ast.Name) and c.func.id in ma.local_names() and len(c.args) == 3:
            cands, ok = [], True
            for st, val, _ in c05._assignments_to(ma, c.func.id):
                for v in ([val.body, val.orelse] if isinstance(val, ast.IfExp) else [val]):
                    k = m.resolve_expr_static(ma, v) if isinstance(v, (ast.Name, ast.Attribute)) else None
                    if k is not None and hasattr(k, "methods") and m.is_metaclass(k):
                        cands.append(k)
                    else:
                        ok = False
            if cands and ok:
                out.append((c, cands))
    return out


def _sentinel_defs(mod) -> dict:
    """Module-level identity sentinels: names bound once to `object()` or to an instance of a
    class of the same module, and compared with `is` somewhere in the module."""
    cands = {}
    for n, vals in mod.assigns.items():
        if len(vals) == 1 and isinstance(vals[0], ast.Call) and isinstance(vals[0].func, ast.Name):
            fn = vals[0].func.id
            if (fn == "object" and not vals[0].args) or fn in mod.classes:
                cands[n] = vals[0]
    used = set()
    for x in ast.walk(mod.tree):
        if isinstance(x, ast.Compare) and any(isinstance(o, (ast.Is, ast.IsNot)) for o in x.ops):
            for e in [x.left] + x.comparators:
                if isinstance(e, ast.Name) and e.id in cands:
                    used.add(e.id)
    return {n: v for n, v in cands.items() if n in used}


def _sentinels(mod) -> set:
    return set(_sentinel_defs(mod))


def check_no_sentinels(ctx):
    m = ctx.model
    mod, regs = _reducer(ctx)
    red = m.func("_array_types._pickle_array_annotation")
    sent = _sentinels(mod)
    ctx.counters["sentinels"] = len(sent)
    ctx.floor("C20.2", "sentinels", 3)
    mac = m.func("_array_types._make_array_cached")
    ma = m.func("_array_types._make_array")
    ctx.saw(mac)
    ctx.saw(ma)
    # variables of _make_array_cached that may hold a sentinel
    tainted = set()
    for n in ast.walk(mac.node):
        if isinstance(n, ast.Assign) and isinstance(n.value, ast.Name) and n.value.id in sent:
            for t in n.targets:
                if isinstance(t, ast.Name):
                    tainted.add(t.id)
        if isinstance(n, ast.Compare) and len(n.ops) == 1 and isinstance(n.ops[0], (ast.Is, ast.IsNot)):
            l, rr = n.left, n.comparators[0]
            if isinstance(rr, ast.Name) and rr.id in sent and isinstance(l, ast.Name):
                tainted.add(l.id)
            if isinstance(l, ast.Name) and l.id in sent and isinstance(rr, ast.Name):
                tainted.add(rr.id)
    changed = True
    while changed:
        changed = False
        for n in ast.walk(mac.node):
            if isinstance(n, ast.Call) and isinstance(n.func, ast.Attribute) and n.func.attr == "append" and isinstance(n.func.value, ast.Name):
                if any(isinstance(a, ast.Name) and a.id in tainted for a in n.args) and n.func.value.id not in tainted:
                    tainted.add(n.func.value.id)
                    changed = True
            if isinstance(n, ast.Assign) and isinstance(n.value, ast.Call) and isinstance(n.value.func, ast.Name) and n.value.func.id == "tuple":
                if any(isinstance(a, ast.Name) and a.id in tainted for a in n.value.args):
                    for t in n.targets:
                        if isinstance(t, ast.Name) and t.id not in tainted:
                            tainted.add(t.id)
                            changed = True
    # return tuple positions -> class dict keys
    rt = [x.value for x in walk_scope(mac.node) if isinstance(x, ast.Return) and isinstance(x.value, ast.Tuple)]
    need(len(rt) == 1, "_make_array_cached: expected one tuple return")
    pos_taint = [isinstance(e, ast.Name) and e.id in tainted for e in rt[0].elts]
    unpack = None
    for st in walk_scope(ma.node):
        if isinstance(st, ast.Assign) and isinstance(st.targets[0], ast.Tuple) and len(st.targets[0].elts) == len(rt[0].elts):
            unpack = [e.id for e in st.targets[0].elts]
    need(unpack, "_make_array: unpack of the cached tuple not found")
    local_taint = {unpack[i] for i, t in enumerate(pos_taint) if t}
    fields_map, dict_call = class_dict_fields(m, ma)
    field_taint = {k for k, v in fields_map.items() if isinstance(v, ast.Name) and v.id in local_taint}
    ctx.note(f"fields that may hold an object() sentinel: {sorted(field_taint)}")
    if not field_taint:
        raise AnalysisError("C20.2: no sentinel-capable field derived (expected dtypes / dims)")
    rets_all = [x for x in walk_scope(red.node) if isinstance(x, ast.Return) and x.value is not None]
    need(rets_all, "reducer has no return")
    used = {n.attr for rt in rets_all for n in ast.walk(rt.value) if isinstance(n, ast.Attribute) and isinstance(n.value, ast.Name) and n.value.id == red.params[0]}
    gen = [rt for rt in rets_all if any(isinstance(n, ast.Attribute) and isinstance(n.value, ast.Name) and n.value.id == red.params[0] for n in ast.walk(rt.value))]
    gen = gen[0] if gen else rets_all[-1]
    bad = used & field_taint
    if bad:
        ctx.bad("C20.2", red, gen, f"the reducer puts {sorted(bad)} on the wire, which can hold a module-level object() sentinel: after unpickling in another "
                "process the identity tests against the sentinel fail silently")
    else:
        ctx.ok("C20.2", red.qualname, f"reducer uses fields {sorted(used)}; none of the sentinel-capable fields {sorted(field_taint)}")


def check_determinacy(ctx):
    m = ctx.model
    red = m.func("_array_types._pickle_array_annotation")
    mac = m.func("_array_types._make_array_cached")
    ma = m.func("_array_types._make_array")
    x = red.params[0]
    gen, cats, items, loader = reducer_plan(ctx, red)
    # what goes on the wire for the category must be the class object itself (pickled by
    # reference: module + qualname), never a bare name
    for c_ in cats:
        if any(isinstance(n, ast.Attribute) and n.attr in ("__name__", "__qualname__") for n in ast.walk(c_)):
            ctx.bad("C20.3", red, gen, f"the dtype category is put on the wire as a bare name (`{norm(c_)}`) and looked up again by that name: an importable user category "
                    "that happens to be called like another one (e.g. a narrower user `Float`) comes back as the other class", construct=f"category on the wire: {norm(c_)}")
        elif norm(c_) != f"{x}.dtype":
            ctx.bad("C20.3", red, gen, f"the category replayed by the reducer is `{norm(c_)}`, not the annotation's own category ({x}.dtype)")
    if loader is not None:
        ctx.saw(loader)
        _check_loader(ctx, red, loader)
    need(items, "C20.3: what the reducer replays was not found")
    errs = []
    n0 = len(ctx.findings)
    for item in items:
        if isinstance(item, ast.Constant) and item.value is None:
            continue  # a placeholder that is replaced before the return
        if isinstance(item, ast.Call) and norm(item.func) == "getattr" and len(item.args) >= 2 and norm(item.args[0]) == x and isinstance(item.args[1], ast.Constant):
            item = ast.copy_location(ast.Attribute(value=ast.Name(id=x, ctx=ast.Load()), attr=item.args[1].value, ctx=ast.Load()), item)
        try:
            _check_replayed_item(ctx, m, red, mac, ma, x, gen, item)
        except AnalysisError as e:
            errs.append(str(e))
    if errs and len(ctx.findings) == n0:
        raise AnalysisError("; ".join(errs))


def _check_replayed_item(ctx, m, red, mac, ma, x, gen, item):
    # a lookup in a module-level table filled by _make_array (`_subscriptions[x]`): what is stored there
    # is judged like a field of the class dictionary
    if isinstance(item, ast.Subscript) and isinstance(item.value, ast.Name) and norm(item.slice) == x:
        b_ = m.resolve_name(red, item.value.id)
        if b_.kind == "modvar":
            stores = [st for st in ast.walk(ma.node) if isinstance(st, ast.Assign) and isinstance(st.targets[0], ast.Subscript) and norm(st.targets[0].value) == item.value.id]
            need(len(stores) == 1 and isinstance(stores[0].value, ast.Tuple) and len(stores[0].value.elts) == 2,
                 f"C20.3: what _make_array records in the table `{item.value.id}` was not recognised")
            a0, a1 = stores[0].value.elts
            ok0 = isinstance(a0, ast.Name) and a0.id == ma.params[0] and not _reassigned_before(ma, a0.id, stores[0])
            ok1 = isinstance(a1, ast.Name) and (a1.id == ma.params[1] and not _reassigned_before(ma, a1.id, stores[0]) or (
                len(c05._assignments_to(ma, a1.id)) == 1 and isinstance(c05._assignments_to(ma, a1.id)[0][1], ast.Name) and c05._assignments_to(ma, a1.id)[0][1].id == ma.params[1]))
            if ok0 and ok1:
                ctx.ok("C20.3", red.qualname, f"replays what _make_array recorded in `{item.value.id}`: the constructor's own arguments (only while that table knows the class)")
            else:
                ctx.bad("C20.3", ma, stores[0], f"the table `{item.value.id}` the reducer replays from does not hold the arguments `_make_array` received")
            return
    fields, dict_call = class_dict_fields(m, ma)
    ctx.counters["class_dict_fields"] = len(fields)
    ctx.floor("C20.3", "class_dict_fields", 6)
    # `dtype` field is the category parameter
    if not (isinstance(fields.get("dtype"), ast.Name) and fields["dtype"].id == ma.params[2]):
        ctx.bad("C20.3", ma, dict_call, "the `dtype` field of an annotation is not the category class it was built from")
    # shape (A): replay of the constructor's own arguments
    if isinstance(item, ast.Attribute) and isinstance(item.value, ast.Name) and item.value.id == x:
        fld = item.attr
        val = fields.get(fld)
        if val is None:
            ctx.bad("C20.3", red, gen, f"the reducer replays `{x}.{fld}`, which _make_array never stores")
            return
        anchor = dict_call
        if isinstance(val, ast.Name):
            # the pair was put into a local first: `getitem_args = (x, dim_str)`
            d_ = c05._assignments_to(ma, val.id)
            if len(d_) == 1 and d_[0][2] is None and isinstance(d_[0][1], ast.Tuple):
                anchor, val = d_[0][0], d_[0][1]
        ok = isinstance(val, ast.Tuple) and len(val.elts) == 2
        if ok:
            a0, a1 = val.elts
            # first: the array-type parameter as received
            ok0 = isinstance(a0, ast.Name) and a0.id == ma.params[0] and not _reassigned_before(ma, a0.id, anchor)
            # second: the dim string as received (a copy taken before the parameter is re-bound)
            ok1 = False
            if isinstance(a1, ast.Name):
                if a1.id == ma.params[1] and not _reassigned_before(ma, a1.id, anchor):
                    ok1 = True
                else:
                    defs = c05._assignments_to(ma, a1.id)
                    if len(defs) == 1 and isinstance(defs[0][1], ast.Name) and defs[0][1].id == ma.params[1]:
                        # the copy must precede every re-binding of the parameter
                        first_rebind = min([st.lineno for st, _, _ in c05._assignments_to(ma, ma.params[1])] or [10 ** 9])
                        ok1 = defs[0][0].lineno < first_rebind
            ok = ok0 and ok1
        if ok:
            ctx.ok("C20.3", red.qualname, f"the reducer replays the constructor's own arguments ({x}.dtype[{x}.{fld}]): every field is re-derived by the same call")
        else:
            ctx.bad("C20.3", ma, dict_call, f"the replayed field `{fld}` does not hold the arguments `_make_array` received (array type and dim string as passed)")
        return
    # shape (B): replay of derived fields
    if isinstance(item, ast.Tuple):
        replayed = [n.attr for n in item.elts if isinstance(n, ast.Attribute)]
        ctx.note(f"reducer replays derived fields {replayed} with the category {x}.dtype")
        # nesting branch: which variables are updated from the inner annotation?
        inner_updates = {}
        for st in ast.walk(mac.node):
            if isinstance(st, ast.If) and any(isinstance(c, ast.Call) and isinstance(c.func, ast.Name) and c.func.id == "issubclass" for c in ast.walk(st.test)):
                for a in ast.walk(st):
                    if isinstance(a, ast.Assign) and any(isinstance(n, ast.Attribute) and isinstance(n.value, ast.Name) and n.value.id == mac.params[0] for n in ast.walk(a.value)):
                        for t in a.targets:
                            if isinstance(t, ast.Name):
                                inner_updates.setdefault(t.id, a)
        need(inner_updates, "C20.3: nesting branch of _make_array_cached not found")
        # fields re-derivable from the replayed ones: dims/index_variadic from dim_str; array_type, dim_str replayed
        rederivable = {"dim_str": "replayed", "array_type": "replayed", "dims": "re-parsed from the replayed dim_str", "index_variadic": "re-parsed from the replayed dim_str",
                       "name": "display only"}
        for var, st in sorted(inner_updates.items()):
            if var in rederivable and (rederivable[var] != "replayed" or var in replayed):
                ctx.ok("C20.3", mac.qualname, f"`{var}` is narrowed from the inner annotation and is {rederivable[var]}")
            else:
                ctx.bad("C20.3", red, gen, f"`{var}` of a nested annotation is narrowed from the inner annotation (`{short(st, 70)}`), but the reducer rebuilds it from "
                        f"the outer category only ({x}.dtype[...]): a nested annotation such as Shaped[Float[A, 'a'], 'b'] unpickles/deep-copies accepting other dtypes",
                        construct=f"{norm(gen.value)}: `{var}` not determined by the replayed fields")
        return
    raise AnalysisError(f"C20.3: reducer item `{norm(item)}` not recognised")


def _check_loader(ctx, red, loader):
    """A custom unpickling function must be `category[item]` and nothing else: in particular it
    may not consult or update a process-wide table (the result would depend on what was loaded
    or defined before)."""
    from ..effects import Effects
    from ..roles import roles_for

    m = ctx.model
    eff = Effects(m, roles_for(m))
    p0, p1 = loader.params[0], loader.params[1]
    subs = [n for n in ast.walk(loader.node) if isinstance(n, ast.Subscript) and isinstance(n.ctx, ast.Load) and norm(n.value) == p0 and norm(n.slice) == p1]
    if not subs:
        ctx.bad("C20.3", loader, loader.node, f"the unpickling function does not rebuild the annotation as `{p0}[{p1}]`", construct=f"{loader.name}: no {p0}[{p1}]")
    for s_ in eff.stores(loader):
        if s_.kind in ("modvar", "class", "global", "ext"):
            ctx.bad("C20.3", loader, s_.node, f"unpickling writes the process-wide table `{s_.root_name}` ({s_.how}): what an annotation comes back as depends on which "
                    "annotations were loaded before it (and loading changes what later loads return)")
    for n in ast.walk(loader.node):
        if isinstance(n, ast.Name) and isinstance(n.ctx, ast.Load):
            b = m.resolve_name(loader, n.id)
            if b.kind == "modvar":
                vals = b.target[0].assigns.get(b.target[1], [])
                if any(isinstance(v, (ast.Dict, ast.List, ast.Set)) or (isinstance(v, ast.Call) and norm(v.func).split(".")[-1] in ("dict", "WeakValueDictionary", "WeakKeyDictionary", "OrderedDict", "defaultdict", "list", "set")) for v in vals):
                    ctx.bad("C20.3", loader, n, f"unpickling resolves through the mutable process-wide table `{n.id}`: the result depends on what was registered or loaded before",
                            construct=f"{loader.name} reads module-level table {n.id}")


def _reassigned_before(f, name, node) -> bool:
    for st, _, _ in c05._assignments_to(f, name):
        if st.lineno < node.lineno:
            return True
    return False


def check_no_mutable_state_in_namespace(ctx):
    """C20.6: 'loading never changes what the original accepts'.  By-value serialisers (cloudpickle)
    ship the class namespace and, when the payload is loaded in the process that owns the class, write
    that namespace back onto the original.  A field that jaxtyping itself re-assigns after the class was
    created (the transparency flag set by `make_transparent`) must therefore not be part of the
    namespace: loading an older payload would silently reset it."""
    m = ctx.model
    ma = m.func("_array_types._make_array")
    fields, dict_call = class_dict_fields(m, ma)
    mutated = {}
    for fn_ in m.all_functions(include_typeguard=False):
        if fn_.module.short != "_array_types" or not fn_.params:
            continue
        recv = fn_.params[0]
        for st in walk_scope(fn_.node):
            tgts = st.targets if isinstance(st, ast.Assign) else [st.target] if isinstance(st, (ast.AugAssign, ast.AnnAssign)) else []
            for t in tgts:
                if isinstance(t, ast.Attribute) and isinstance(t.value, ast.Name) and t.value.id == recv and fn_.cls is not None and m.is_metaclass(fn_.cls):
                    mutated.setdefault(t.attr, (fn_, st))
    ctx.counters["fields_reassigned_after_creation"] = len(mutated)
    # an attribute put on the annotation class after it was created becomes part of the namespace a by-value serialiser ships: it must be
    # a plain literal (the transparency flag), never a run-time object (a cache, a weak dictionary, a lock): such a class can no longer be
    # serialised once it has been used, or carries state of this process into another one
    for attr, (fn_, st) in sorted(mutated.items()):
        v = st.value if isinstance(st, (ast.Assign, ast.AnnAssign, ast.AugAssign)) else None
        if v is None or (isinstance(v, ast.Constant) and not isinstance(st, ast.AugAssign)):
            continue
        if isinstance(v, ast.Name) and v.id in fn_.params:
            raise AnalysisError(f"C20.6: {fn_.qualname} stores its parameter `{v.id}` on the annotation class (`{short(st, 50)}`); what kind of object that is is not known")
        ctx.bad("C20.6", fn_, st, f"`{short(st, 60)}` puts a run-time object into the namespace of an annotation class after it was created: by-value serialisers "
                "(cloudpickle) ship that namespace, so an annotation that has been used can no longer be serialised (or carries this process's state with it)",
                construct=f"late namespace entry `{attr}` holds a run-time object")
    clash = sorted(set(fields) & set(mutated))
    if clash:
        fn_, st = mutated[clash[0]]
        ctx.bad("C20.6", ma, dict_call, f"the class namespace of every annotation carries `{clash[0]}`, which {fn_.qualname} re-assigns later (`{short(st, 50)}`): a by-value "
                "serialiser writes the namespace of an older payload back onto the original class when it is loaded in the owning process, silently undoing that change",
                construct=f"namespace field re-assigned after creation: {clash[0]}")
    else:
        ctx.ok("C20.6", ma.qualname, f"none of the {len(fields)} namespace fields is re-assigned after the class was created (re-assigned attributes: {sorted(mutated)})")


_CONTAINER_CTORS = ("dict", "list", "set", "OrderedDict", "defaultdict", "WeakValueDictionary", "WeakKeyDictionary", "deque")
_PROCESS_LOCAL_CALLS = ("id", "next", "getpid", "time", "monotonic", "perf_counter", "random", "randint", "getrandbits", "uuid4", "urandom", "hash", "get_ident")


def _module_containers(mod) -> set:
    out = set()
    for n, vals in mod.assigns.items():
        if any(isinstance(v, (ast.Dict, ast.List, ast.Set)) or (isinstance(v, ast.Call) and norm(v.func).split(".")[-1] in _CONTAINER_CTORS) for v in vals):
            out.add(n)
    return out


def _table_stores(m, mod, table):
    """(function, statement, stored value expression) for every run-time store into the module-level container `table`."""
    out = []
    for f in m.all_functions(include_typeguard=False):
        if f.module is not mod or table in f.params or (table in f.local_names() and not any(isinstance(g, ast.Global) and table in g.names for g in ast.walk(f.node))):
            continue
        for st in walk_scope(f.node):
            if isinstance(st, (ast.Assign, ast.AugAssign)):
                tg = st.targets if isinstance(st, ast.Assign) else [st.target]
                for t in tg:
                    if isinstance(t, ast.Subscript) and isinstance(t.value, ast.Name) and t.value.id == table:
                        out.append((f, st, st.value))
            if isinstance(st, ast.Call) and isinstance(st.func, ast.Attribute) and isinstance(st.func.value, ast.Name) and st.func.value.id == table:
                if st.func.attr in ("setdefault",) and len(st.args) == 2:
                    out.append((f, st, st.args[1]))
                elif st.func.attr in ("append", "add", "appendleft") and st.args:
                    out.append((f, st, st.args[0]))
                elif st.func.attr in ("update", "extend", "insert"):
                    out.append((f, st, st))
    return out


def _state_dependence(f, v, table, depth=0):
    """Why the value `v` stored into `table` depends on the state of this process rather than on the key alone, else None."""
    for n in ast.walk(v):
        if isinstance(n, ast.Call):
            fn = norm(n.func).split(".")[-1]
            if fn == "len" and n.args and isinstance(n.args[0], ast.Name) and n.args[0].id == table:
                return f"`{norm(n)}`: the number of entries registered so far in this process"
            if fn in _PROCESS_LOCAL_CALLS:
                return f"`{short(n, 40)}`: a value of this process"
        if isinstance(n, ast.Name) and isinstance(n.ctx, ast.Load) and depth < 3 and n.id not in f.params:
            for st, val, _ in c05._assignments_to(f, n.id):
                if val is not None and val is not v:
                    why = _state_dependence(f, val, table, depth + 1)
                    if why:
                        return why
    return None


def check_namespace_is_process_independent(ctx):
    """C20.8: 'a copy that travelled to another process accepts what the original accepts'.  A by-value serialiser (cloudpickle) ships the
    class namespace as it is; a namespace entry may therefore only hold what is determined by the subscription itself.  An entry computed
    from a process-local registry whose values depend on the order of registration (`bit = 1 << len(table)`, a counter, an id) means
    something else in a process that registered in a different order."""
    m = ctx.model
    mod = m.module("_array_types")
    ma = m.func("_array_types._make_array")
    mac = m.func("_array_types._make_array_cached")
    fields, dict_call = class_dict_fields(m, ma)
    conts = _module_containers(mod)
    ctx.counters["module_level_containers"] = len(conts)
    # functions that take part in building the namespace
    reach, stack = {}, [ma, mac]
    while stack:
        f = stack.pop()
        if f.qualname in reach:
            continue
        reach[f.qualname] = f
        for c in m.calls_in(f):
            t = m.resolve_call(f, c)
            if t.kind == "func" and t.target.module is mod:
                stack.append(t.target)
    ctx.counters["namespace_builders"] = len(reach)
    ctx.floor("C20.8", "namespace_builders", 2)
    read = {}
    for f in reach.values():
        for n in walk_scope(f.node):
            if isinstance(n, ast.Name) and isinstance(n.ctx, ast.Load) and n.id in conts and n.id not in f.params and n.id not in f.local_names():
                read.setdefault(n.id, (f, n))
    n_bad = 0
    for table, (rf, rn) in sorted(read.items()):
        stores = _table_stores(m, mod, table)
        if not stores:
            ctx.ok("C20.8", rf.qualname, f"the module-level table `{table}` read while building an annotation is never written at run time")
            continue
        for sf, st, v in stores:
            why = _state_dependence(sf, v, table)
            if why:
                n_bad += 1
                # which namespace entries / which check-time reads: named for the report only
                ctx.bad("C20.8", sf, st, f"`{short(st, 70)}` fills the process-local table `{table}` with values that depend on {why}; {rf.qualname} reads that table while "
                        f"the class namespace of an annotation is built ({len(fields)} entries, shipped as they are by by-value serialisers such as cloudpickle): in a "
                        "process that registered in a different order the shipped value means something else, so the copy accepts other arrays than the original",
                        construct=f"namespace built from order-dependent table {table}")
            elif v is st:
                raise AnalysisError(f"C20.8: `{short(st, 60)}` writes the table `{table}` that {rf.qualname} reads while building an annotation; what it stores is not interpreted")
            else:
                free = {x.id for x in ast.walk(v) if isinstance(x, ast.Name) and isinstance(x.ctx, ast.Load)}
                unknown = {x for x in free if x not in sf.params and x not in sf.local_names() and m.resolve_name(sf, x).kind not in ("func", "class", "builtin", "import", "modfunc")}
                if unknown & conts or any(m.resolve_name(sf, x).kind == "modvar" and len(m.resolve_name(sf, x).target[0].assigns.get(x, [])) > 1 for x in unknown):
                    raise AnalysisError(f"C20.8: `{short(st, 60)}` stores a value built from module-level state ({sorted(unknown)}) into `{table}`, which {rf.qualname} reads "
                                        "while building an annotation; whether it is the same in every process is not known")
                ctx.ok("C20.8", sf.qualname, f"`{short(st, 60)}`: what is stored in `{table}` is computed from the key / the arguments alone (a memo)")
    if not read:
        ctx.ok("C20.8", ma.qualname, f"none of the {len(reach)} functions that build an annotation's namespace reads a module-level container ({len(conts)} in the module)")


def check_categories_are_bound_once(ctx, tag="C20.9"):
    """What the reducer replays is `category[array type, dim string]`: the copy means what the original means only if the category's
    `dtypes` are what they were when the original snapshotted them.  They are bound once, when the category class is defined
    (`__init_subclass__`); a later re-binding (a compatibility shim that appends the narrow floats once `ml_dtypes` is imported) makes an
    annotation created before it and its pickle round trip made after it accept different dtypes."""
    m = ctx.model
    n = 0
    bad = False
    for f in m.all_functions(include_typeguard=False):
        if f.module.short != "_array_types":
            continue
        for st in walk_scope(f.node):
            tg = st.targets if isinstance(st, ast.Assign) else [st.target] if isinstance(st, (ast.AugAssign, ast.AnnAssign)) and getattr(st, "value", None) is not None else []
            for t in tg:
                if isinstance(t, ast.Attribute) and t.attr == "dtypes":
                    n += 1
                    if f.name == "__init_subclass__":
                        continue
                    if f.cls is not None and f.params and isinstance(t.value, ast.Name) and t.value.id == f.params[0] and f.cls.name not in ("AbstractDtype", "_MetaAbstractDtype") \
                            and not any(getattr(b_, "name", None) in ("AbstractDtype", "_MetaAbstractDtype") for b_ in m.mro(f.cls)):
                        continue  # a field called `dtypes` of some other object (a record passed between the constructors): not a category
                    bad = True
                    ctx.bad(tag, f, st, f"`{short(st, 60)}` re-binds the dtypes of a category at run time (outside `__init_subclass__`): annotations snapshot them when they are created, "
                            "the reducer replays the subscription against the category as it is *then*, so an annotation made before this runs and its pickle round trip made after it "
                            "accept different dtypes (and cloudpickle / deepcopy, which keep the snapshot, disagree with pickle)", construct=f"category dtypes re-bound in {f.name}")
            if isinstance(st, ast.Call) and isinstance(st.func, ast.Name) and st.func.id == "setattr" and len(st.args) == 3 and isinstance(st.args[1], ast.Constant) and st.args[1].value == "dtypes":
                bad = True
                ctx.bad(tag, f, st, f"`{short(st, 60)}` re-binds the dtypes of a category at run time", construct=f"category dtypes re-bound in {f.name}")
    ctx.counters["dtypes_bindings"] = n
    ctx.floor(tag, "dtypes_bindings", 1)
    if not bad:
        ctx.ok(tag, "_array_types.AbstractDtype.__init_subclass__", f"a category's dtypes are bound in __init_subclass__ only ({n} binding site(s))")


def check_by_reference(ctx):
    from .c03 import check_names_exported

    check_names_exported(ctx, "C20.4")


def check_sentinels_by_reference(ctx):
    m = ctx.model
    mod = m.module("_array_types")
    defs = _sentinel_defs(mod)
    mac = m.func("_array_types._make_array_cached")
    # sentinels that can reach a class dictionary: those assigned / appended / compared in the constructor
    reach = set()
    rt = [x.value for x in walk_scope(mac.node) if isinstance(x, ast.Return) and isinstance(x.value, ast.Tuple)]
    ret_names = {e.id for t in rt for e in t.elts if isinstance(e, ast.Name)}
    for sname in defs:
        tainted = set()
        for n in ast.walk(mac.node):
            if isinstance(n, ast.Assign) and isinstance(n.value, ast.Name) and n.value.id == sname:
                tainted |= {t.id for t in n.targets if isinstance(t, ast.Name)}
            # a helper that may return the sentinel
            if isinstance(n, ast.Assign) and isinstance(n.value, ast.Call):
                t_ = m.resolve_call(mac, n.value)
                if t_.kind == "func" and any(isinstance(x, ast.Return) and isinstance(x.value, ast.Name) and x.value.id == sname for x in ast.walk(t_.target.node)):
                    tainted |= {t.id for t in n.targets if isinstance(t, ast.Name)}
            if isinstance(n, ast.Compare) and len(n.ops) == 1 and isinstance(n.ops[0], (ast.Is, ast.IsNot)):
                l, rr = n.left, n.comparators[0]
                if isinstance(rr, ast.Name) and rr.id == sname and isinstance(l, ast.Name):
                    tainted.add(l.id)
                if isinstance(l, ast.Name) and l.id == sname and isinstance(rr, ast.Name):
                    tainted.add(rr.id)
        changed = True
        while changed:
            changed = False
            for n in ast.walk(mac.node):
                if isinstance(n, ast.Call) and isinstance(n.func, ast.Attribute) and n.func.attr == "append" and isinstance(n.func.value, ast.Name):
                    if any(isinstance(a, ast.Name) and a.id in tainted for a in n.args) and n.func.value.id not in tainted:
                        tainted.add(n.func.value.id)
                        changed = True
                if isinstance(n, ast.Assign) and isinstance(n.value, ast.Call) and norm(n.value.func) == "tuple" and any(isinstance(a, ast.Name) and a.id in tainted for a in n.value.args):
                    for t in n.targets:
                        if isinstance(t, ast.Name) and t.id not in tainted:
                            tainted.add(t.id)
                            changed = True
        if tainted & ret_names:
            reach.add(sname)
    shaped = [n for n, vals in mod.assigns.items() if any(isinstance(v, ast.Call) and norm(v.func) == "_make_dtype" and v.args and isinstance(v.args[0], ast.Name) and v.args[0].id in defs for v in vals)]
    for v in mod.assigns.values():
        for c in v:
            if isinstance(c, ast.Call) and norm(c.func) == "_make_dtype" and c.args and isinstance(c.args[0], ast.Name) and c.args[0].id in defs:
                reach.add(c.args[0].id)
    ctx.counters["class_dict_sentinels"] = len(reach)
    ctx.floor("C20.5", "class_dict_sentinels", 3)
    where = (mod.relpath, mod.qualname)
    for n in sorted(reach):
        call = defs[n]
        cname = call.func.id
        if cname == "object":
            ctx.bad("C20.5", where, call, f"`{n}` is a bare object() that is stored in annotation class dictionaries and compared with `is`: a by-value class pickler (cloudpickle) "
                    "sends it as a fresh object, so the copy -- and, in-process, the original whose attributes are overwritten on load -- stops matching "
                    "(`TypeError: 'object' object is not iterable` / AttributeError on isinstance)", construct=f"{n} = object()")
            continue
        c = mod.classes[cname]
        red = c.methods.get("__reduce__") or c.methods.get("__reduce_ex__")
        ok = False
        if red is not None:
            rets = [x for x in walk_scope(red.node) if isinstance(x, ast.Return)]
            # returns the stored name (a string => pickled as a global reference)
            if len(rets) == 1 and isinstance(rets[0].value, ast.Attribute) and isinstance(rets[0].value.value, ast.Name) and rets[0].value.value.id == red.params[0]:
                attr = rets[0].value.attr
                init = c.methods.get("__init__")
                if init is not None and any(isinstance(a, ast.Assign) and norm(a.targets[0]) == f"{init.params[0]}.{attr}" and norm(a.value) == init.params[1] for a in walk_scope(init.node)):
                    # and the name passed at the definition equals the module-level name
                    if call.args and isinstance(call.args[0], ast.Constant) and call.args[0].value == n:
                        ok = True
        if not ok:
            ctx.bad("C20.5", where, call, f"the sentinel `{n}` is not pickled by reference to its own module-level name (its class must define __reduce__ returning the name it was "
                    f"created with, and that name must be '{n}')", construct=f"{n} = {norm(call)}")
            continue
        for dm in ("__copy__", "__deepcopy__"):
            f_ = c.methods.get(dm)
            if f_ is None or not any(isinstance(x, ast.Return) and norm(x.value) == f_.params[0] for x in walk_scope(f_.node)):
                ctx.bad("C20.5", where, call, f"the sentinel class `{cname}` does not define {dm} returning self: copy/deepcopy of an annotation's fields would duplicate `{n}`",
                        construct=f"{cname}.{dm}")
                ok = False
        if ok:
            ctx.ok("C20.5", n, f"{norm(call)}: pickled, copied and deep-copied by reference")
