"""C15 -- nested, union, TypeVar and scalar annotations obey the documented laws.

Decides agreement clauses only (equality of accepted sets is value-level):
  C15.1 nesting: dims and dim_str are concatenated in the same (outer-first) order;
        index_variadic is shifted by the *outer* length (the shift is computed before dims is
        concatenated); the new dtypes are a filter of the outer set by membership in the inner
        one (the documented intersection), with the any-dtype sentinel handled on both sides;
        both parts variadic => ValueError, decided by identity tests against None (index 0 is a
        legitimate position); empty intersection => ValueError; the array type is the inner's.
  C15.2 union: every member is built with the same category and spec; members that are not
        made are dropped; none left => ValueError; TypeVar table: bound -> bound, constraints
        -> union, neither -> Any.
  C15.3 scalar ladder: for each `array_type is T` arm the dtype-name prefix agrees with T
        (int<->"int", np.bool_<->"bool", generic<->""); _check_scalar demands all-variadic dims
        and tests category membership by *prefix* of the dtype names (a substring test would let
        'uint8' contain 'int').
  C15.4 aliases vs docs: Scalar, ScalarLike and PRNGKeyArray in the package's __getattr__ equal
        the definitions in the documentation's code block (modulo jax.Array == Array).
"""
from __future__ import annotations

import ast
import re

from ..core import AnalysisError, RuleContext, need, norm, short
from ..model import walk_scope

EXPLANATION = __doc__


def run(ctx: RuleContext):
    ctx.sub(check_nesting, ctx)
    ctx.sub(check_derived_fields_follow_the_merge, ctx)
    ctx.sub(check_any_accepts_every_array_like, ctx)
    ctx.sub(check_union_typevar, ctx)
    ctx.sub(check_scalar_ladder, ctx)
    ctx.sub(check_aliases, ctx)


def _mk(ctx):
    return ctx.model.func("_array_types._make_array_cached")


# ------------------------------------------------------------------------ C15.6
def check_any_accepts_every_array_like(ctx):
    """`D[Any, s]` (and with it an unconstrained TypeVar) stands for *every* object that has `shape` and `dtype`: the array-type stage for
    `Any` rejects exactly when one of the two attributes is missing.  An extra requirement (`isinstance(obj.shape, tuple)`: TensorFlow's
    `TensorShape`, lists, duck arrays) makes `D[Any, s]` narrower than `D[TheirClass, s]`."""
    import itertools

    m = ctx.model
    f = m.func("_array_types._MetaAbstractArray.__instancecheck_str__")
    ctx.saw(f)
    cls_p, obj = f.params[0], (f.params[1] if len(f.params) > 1 else "obj")
    tops = [st for st in walk_scope(f.node) if isinstance(st, ast.If) and norm(st.test) in (f"{cls_p}.array_type is Any", f"Any is {cls_p}.array_type")]
    need(len(tops) == 1, "C15.6: the `array_type is Any` branch of the array check was not found")
    def _rejects(st):
        for x in st.body:
            if isinstance(x, ast.Return) and not (isinstance(x.value, ast.Constant) and x.value.value == ""):
                return True
            # the verdict carried in a local (an inlined helper): `check = '<message>'; break`
            if isinstance(x, ast.Assign) and len(x.targets) == 1 and isinstance(x.targets[0], ast.Name) and (
                    (isinstance(x.value, ast.Constant) and isinstance(x.value.value, str) and x.value.value != "") or isinstance(x.value, ast.JoinedStr)):
                return True
        return False

    rej = [st for st in tops[0].body if isinstance(st, ast.If) and _rejects(st)]
    need(len(rej) >= 1 and len(rej) == len(tops[0].body), "C15.6: the `Any` branch is not made of rejecting tests only")
    if len(rej) > 1:
        # further rejections: each is an extra requirement unless it only asks for the two attributes again
        for extra_if in rej[1:]:
            if not all(norm(a_) in (f"hasattr({obj}, 'shape')", f"hasattr({obj}, 'dtype')") for a_ in ast.walk(extra_if.test) if isinstance(a_, ast.Call)) or \
                    not any(isinstance(a_, ast.Call) for a_ in ast.walk(extra_if.test)) or any(isinstance(a_, ast.Attribute) and norm(a_.value) == obj for a_ in ast.walk(extra_if.test)):
                ctx.bad("C15.6", f, extra_if.test, f"for `Any` the array-type stage also rejects on `{short(extra_if.test, 60)}`: an object that has `shape` and `dtype` but fails it is rejected by "
                        "`D[Any, s]` (and by an unconstrained TypeVar) although `D[<its class>, s]` accepts it", construct=f"extra requirement for Any: {short(extra_if.test, 60)}")
                return
    test = rej[0].test
    atoms = []

    def rec(e):
        if isinstance(e, ast.BoolOp):
            for v in e.values:
                rec(v)
        elif isinstance(e, ast.UnaryOp) and isinstance(e.op, ast.Not):
            rec(e.operand)
        else:
            atoms.append(e)

    rec(test)
    want = {f"hasattr({obj}, 'shape')", f"hasattr({obj}, 'dtype')"}
    texts = sorted({norm(a) for a in atoms})
    extra = [t for t in texts if t not in want]
    if extra:
        ctx.bad("C15.6", f, rej[0].test, f"for `Any` the array-type stage also tests `{extra[0]}`: an object that has `shape` and `dtype` but fails it is rejected by `D[Any, s]` (and by an "
                "unconstrained TypeVar) although `D[<its class>, s]` accepts it", construct=f"extra requirement for Any: {extra[0]}")
        return
    if set(texts) != want:
        ctx.bad("C15.6", f, rej[0].test, f"for `Any` the array-type stage does not require both `shape` and `dtype` (it tests {texts})", construct="Any: shape/dtype test incomplete")
        return

    def ev(e, val):
        if isinstance(e, ast.BoolOp):
            vs = [ev(v, val) for v in e.values]
            return all(vs) if isinstance(e.op, ast.And) else any(vs)
        if isinstance(e, ast.UnaryOp) and isinstance(e.op, ast.Not):
            return not ev(e.operand, val)
        return val[norm(e)]

    for vals in itertools.product([False, True], repeat=2):
        val = dict(zip(sorted(want), vals))
        if ev(test, val) != (not all(vals)):
            ctx.bad("C15.6", f, rej[0].test, f"for `Any` the rejection is not 'one of shape / dtype is missing' (disagrees for {val})", construct="Any: shape/dtype truth table")
            return
    ctx.ok("C15.6", f.qualname, "for `Any`: rejected exactly when `shape` or `dtype` is missing")


# ------------------------------------------------------------------------ C15.5
def check_derived_fields_follow_the_merge(ctx):
    """`D2[D1[A, s1], s2]` means `D[A, 's2 s1']`: everything an annotation stores is a function of the *merged* dims / dim string.  A value
    that `_make_array_cached` computes from the outer `dims` before the nesting branch extends them (a "binds no axis name" flag, the right
    end of the variadic slice, a rank) and that the branch does not recompute on every path describes the outer part only."""
    m = ctx.model
    f = _mk(ctx)
    nest = [st for st in f.body if isinstance(st, ast.If) and "issubclass" in norm(st.test) and "AbstractArray" in norm(st.test)]
    need(len(nest) == 1, "C15.5: nesting branch of _make_array_cached not found")
    nb = nest[0]
    pos = f.body.index(nb)

    def targets(st):
        if isinstance(st, ast.Assign):
            return [x.id for t in st.targets for x in ast.walk(t) if isinstance(x, ast.Name)]
        if isinstance(st, (ast.AugAssign, ast.AnnAssign)) and isinstance(st.target, ast.Name) and getattr(st, "value", None) is not None:
            return [st.target.id]
        return []

    merged = {n for st in nb.body for n in targets(st)}  # re-bound unconditionally by the merge: dims, dim_str, array_type
    rets = [x.value for x in walk_scope(f.node) if isinstance(x, ast.Return) and x.value is not None and f.body.index(next(b for b in f.body if any(y is x for y in ast.walk(b)))) > pos]
    out_names = set()
    for rv in rets:
        elts = rv.elts if isinstance(rv, ast.Tuple) else [k.value for k in rv.keywords] + list(rv.args) if isinstance(rv, ast.Call) else []
        out_names |= {e.id for e in elts if isinstance(e, ast.Name)}
    ctx.counters["returned_fields"] = len(out_names)
    ctx.floor("C15.5", "returned_fields", 5)
    before = [st for b in f.body[:pos] for st in ast.walk(b) if isinstance(st, (ast.Assign, ast.AugAssign, ast.AnnAssign))]
    # locals whose value (as computed before the branch) reads a merged variable
    dep = set(merged)
    changed = True
    while changed:
        changed = False
        for st in before:
            v = getattr(st, "value", None)
            if v is None:
                continue
            if any(isinstance(x, ast.Name) and x.id in dep for x in ast.walk(v)):
                for n in targets(st):
                    if n not in dep:
                        dep.add(n)
                        changed = True
    after_top = {n for b in f.body[pos + 1:] for n in targets(b)}
    in_nb_top = {n for st in nb.body for n in targets(st)}
    n_bad = 0
    for v in sorted((dep - merged) & out_names):
        # index_variadic itself is shifted conditionally by design (C15.1 decides it); dtypes are narrowed by design
        if v in ("index_variadic", "dtypes"):
            continue
        if v in after_top or v in in_nb_top:
            ctx.ok("C15.5", f.qualname, f"`{v}` is recomputed after / in the merge")
            continue
        d0 = next(st for st in before if v in targets(st))
        n_bad += 1
        ctx.bad("C15.5", f, d0, f"`{v}` is computed from the outer part (`{short(d0, 60)}`) before the nesting branch merges in the inner annotation's axes, and is not recomputed "
                f"on every path afterwards: for `D2[D1[A, s1], s2]` it describes `s2` only, so the nested annotation does not mean `D[A, 's2 s1']`", construct=f"field {v} stale after the nesting merge")
    if not n_bad:
        ctx.ok("C15.5", f.qualname, f"no returned field other than the merged ones ({sorted(merged & out_names)}) is computed from the outer dims before the merge")


# ------------------------------------------------------------------------ C15.1
def check_nesting(ctx):
    m = ctx.model
    f = _mk(ctx)
    ctx.saw(f)
    at = f.params[0]
    nest = [st for st in f.body if isinstance(st, ast.If) and "issubclass" in norm(st.test) and "AbstractArray" in norm(st.test)]
    need(len(nest) == 1, "C15.1: nesting branch of _make_array_cached not found")
    nb = nest[0]
    if f"{at} is not Any" not in norm(nb.test):
        ctx.bad("C15.1", f, nb.test, "the nesting test calls issubclass without first excluding typing.Any (TypeError for `Dtype[Any, ...]`)")
    stmts = nb.body
    # the clauses below read the merge as a sequence of plain assignments; a merge that arrives as one tuple assignment (the block extracted into a
    # helper that returns several values) is not interpreted
    for need_v in ("dims", "dim_str", at):
        plain = [a for st_ in stmts for a in ast.walk(st_) if (isinstance(a, ast.Assign) and len(a.targets) == 1 and isinstance(a.targets[0], ast.Name) and a.targets[0].id == need_v)
                 or (isinstance(a, ast.AugAssign) and isinstance(a.target, ast.Name) and a.target.id == need_v)]
        tupled = [a for st_ in stmts for a in ast.walk(st_) if isinstance(a, ast.Assign) and isinstance(a.targets[0], (ast.Tuple, ast.List))
                  and any(isinstance(e_, ast.Name) and e_.id == need_v for e_ in a.targets[0].elts)]
        if tupled and not plain:
            raise AnalysisError(f"C15.1: `{need_v}` of a nested annotation is re-bound by a tuple assignment (`{short(tupled[0], 60)}`); the merge is not read through it")
    idx = {}
    for i, st in enumerate(stmts):
        for a in ast.walk(st):
            if isinstance(a, ast.Assign) and isinstance(a.targets[0], ast.Name):
                idx.setdefault(a.targets[0].id, []).append((i, a))
            elif isinstance(a, ast.AugAssign) and isinstance(a.target, ast.Name) and isinstance(a.op, ast.Add):
                # `dims += X` on a tuple / str local is `dims = dims + X`
                syn = ast.copy_location(ast.Assign(targets=[ast.Name(id=a.target.id, ctx=ast.Store())],
                                                   value=ast.BinOp(left=ast.Name(id=a.target.id, ctx=ast.Load()), op=ast.Add(), right=a.value)), a)
                ast.fix_missing_locations(syn)
                idx.setdefault(a.target.id, []).append((i, syn))
    # dims / dim_str order
    d = [a for _, a in idx.get("dims", [])]
    s = [a for _, a in idx.get("dim_str", [])]
    def _flat_add(e):
        return _flat_add(e.left) + _flat_add(e.right) if isinstance(e, ast.BinOp) and isinstance(e.op, ast.Add) else [norm(e)]

    if len(d) == 1 and _flat_add(d[0].value) == ["dims", f"{at}.dims"]:
        ctx.ok("C15.1", f.qualname, "dims = outer dims + inner dims")
    elif not d or (len(d) == 1 and _flat_add(d[0].value) in ([f"{at}.dims", "dims"], [f"{at}.dims"], ["dims"])):
        ctx.bad("C15.1", f, d[0] if d else nb, f"nested dims are not concatenated outer-first (`dims + {at}.dims`): D2[D1[A, s1], s2] must mean 's2 s1'")
    else:
        raise AnalysisError(f"C15.1: how the dims of a nested annotation are combined was not recognised (`{'; '.join(norm(x.value) for x in d)}`)")
    if len(s) == 1 and _flat_add(s[0].value) == ["dim_str", "' '", f"{at}.dim_str"]:
        ctx.ok("C15.1", f.qualname, "dim_str = outer + ' ' + inner (same order as dims)")
    elif not s or (len(s) == 1 and _flat_add(s[0].value) in ([f"{at}.dim_str", "' '", "dim_str"], [f"{at}.dim_str"], ["dim_str"], ["dim_str", f"{at}.dim_str"])):
        ctx.bad("C15.1", f, s[0] if s else nb, "the nested dim string is not concatenated in the same outer-first order as the dims")
    elif len(s) == 1 and isinstance(s[0].value, ast.JoinedStr) and [norm(v_.value) if isinstance(v_, ast.FormattedValue) else repr(v_.value) for v_ in s[0].value.values] == ["dim_str", "' '", f"{at}.dim_str"]:
        ctx.ok("C15.1", f.qualname, "dim_str = f'{outer} {inner}' (same order as dims)")
    else:
        raise AnalysisError(f"C15.1: how the dim strings of a nested annotation are combined was not recognised (`{'; '.join(norm(x.value) for x in s)}`)")
    # index_variadic shift uses the outer length: assigned before dims is concatenated
    iv = idx.get("index_variadic", [])
    shift = [(i, a) for i, a in iv if f"{at}.index_variadic" in norm(a.value)]
    if len(shift) != 1 or norm(shift[0][1].value) not in (f"{at}.index_variadic + len(dims)", f"len(dims) + {at}.index_variadic"):
        ctx.bad("C15.1", f, shift[0][1] if shift else nb, "the inner multi-axis position is not shifted by the number of outer dims")
    else:
        di = idx["dims"][0][0] if idx.get("dims") else -1
        if shift[0][0] >= di:
            ctx.bad("C15.1", f, shift[0][1], "the shift `len(dims)` is evaluated after dims was concatenated: it uses the total length instead of the outer length")
        else:
            ctx.ok("C15.1", f.qualname, "index_variadic = inner position + len(outer dims), computed before the concatenation")
    # both-variadic error: identity tests against None
    vtests = [st for st in ast.walk(nb) if isinstance(st, ast.If) and "index_variadic" in norm(st.test)]
    outer_tests = [st for st in vtests if norm(st.test).replace(f"{at}.index_variadic", "") != norm(st.test) or True]
    ok_id = True
    for st in vtests:
        t = st.test
        is_identity = isinstance(t, ast.Compare) and len(t.ops) == 1 and isinstance(t.ops[0], (ast.Is, ast.IsNot)) and isinstance(t.comparators[0], ast.Constant) and t.comparators[0].value is None
        if not is_identity:
            ok_id = False
            ctx.bad("C15.1", f, t, f"`{norm(t)}` tests a multi-axis position for truthiness: position 0 is falsy, so an outer spec that starts with `*name`/`...` is treated as having "
                    "no multi-axis specifier and the 'both parts have one' ValueError is skipped")
    raises = [x for x in ast.walk(nb) if isinstance(x, ast.Raise)]
    both = [x for x in raises if isinstance(x.exc, ast.Call) and norm(x.exc.func) == "ValueError" and any(
        isinstance(st, ast.If) and "index_variadic" in norm(st.test) and any(y is x for y in ast.walk(st)) for st in ast.walk(nb))]
    if not both:
        ctx.bad("C15.1", f, nb, "a multi-axis specifier in both the outer and the inner annotation is no longer a ValueError", construct="both-variadic ValueError")
    elif ok_id:
        # structure: if inner is not None: if outer is None: shift else: raise
        inner = [st for st in vtests if norm(st.test) == f"{at}.index_variadic is not None"]
        good = False
        for st in inner:
            sub = [x for x in st.body if isinstance(x, ast.If)]
            if len(sub) == 1 and norm(sub[0].test) == "index_variadic is None" and any(isinstance(y, ast.Raise) for y in sub[0].orelse) and any(a is shift[0][1] for a in ast.walk(sub[0])) if shift else False:
                good = True
            if len(sub) == 1 and norm(sub[0].test) == "index_variadic is not None" and any(isinstance(y, ast.Raise) for y in sub[0].body) and shift and any(a is shift[0][1] for a in ast.walk(st)):
                good = True
        if good:
            ctx.ok("C15.1", f.qualname, "inner variadic and outer variadic -> ValueError; inner only -> shifted; decided by `is None` tests")
        else:
            ctx.bad("C15.1", f, nb, "the both-variadic decision does not have the form (inner has one) and (outer has one) -> ValueError, (inner only) -> shift", construct="both-variadic decision shape")
    # dtypes intersection
    dt = [a for _, a in idx.get("dtypes", [])]
    filt = [a for a in dt if isinstance(a.value, ast.Call) and norm(a.value.func) == "tuple" and isinstance(a.value.args[0], ast.GeneratorExp)]
    inherit = [a for a in dt if norm(a.value) == f"{at}.dtypes"]
    ok_f = False
    for a in filt:
        ge = a.value.args[0]
        if len(ge.generators) == 1 and norm(ge.generators[0].iter) == "dtypes" and len(ge.generators[0].ifs) == 1 and norm(ge.generators[0].ifs[0]) == f"{norm(ge.elt)} in {at}.dtypes":
            ok_f = True
    if not ok_f and dt and any(isinstance(c_, ast.Call) and m.resolve_call(f, c_).kind == "func" for a in dt for c_ in ast.walk(a.value)):
        # the intersection is computed by a helper of the package: whether it is the documented intersection depends on what it does with the values
        raise AnalysisError(f"C15.1: the dtypes of a nested annotation are computed through `{short(dt[0].value, 60)}`; the rule only reads the membership filter")
    if not ok_f:
        ctx.bad("C15.1", f, dt[0] if dt else nb, "the dtypes of a nested annotation are not the outer dtypes filtered by membership in the inner ones (the documented intersection)")
    else:
        ctx.ok("C15.1", f.qualname, "dtypes = (outer dtypes that are also inner dtypes)")
    if not inherit:
        ctx.bad("C15.1", f, nb, "an any-dtype outer category (Shaped) does not inherit the inner annotation's dtypes", construct="Shaped[inner]: dtypes")
    sentinel_tests = {norm(st.test) for st in ast.walk(nb) if isinstance(st, ast.If) and "_any_dtype" in norm(st.test)}
    if not {"dtypes is _any_dtype", f"{at}.dtypes is not _any_dtype"} <= sentinel_tests:
        ctx.bad("C15.1", f, nb, f"the any-dtype sentinel is not handled on both sides of the intersection (tests found: {sorted(sentinel_tests)})", construct="sentinel tests in nesting")
    else:
        ctx.ok("C15.1", f.qualname, "any-dtype sentinel handled for the outer and the inner side")
    empt = [st for st in ast.walk(nb) if isinstance(st, ast.If) and norm(st.test) in ("len(dtypes) == 0", "not dtypes") and any(isinstance(x, ast.Raise) and isinstance(x.exc, ast.Call) and norm(x.exc.func) == "ValueError" for x in st.body)]
    if not empt:
        ctx.bad("C15.1", f, nb, "an empty dtype intersection is no longer a ValueError", construct="empty intersection ValueError")
    else:
        ctx.ok("C15.1", f.qualname, "empty intersection -> ValueError")
    last = stmts[-1]
    if not (isinstance(last, ast.Assign) and norm(last) == f"{at} = {at}.array_type"):
        ctx.bad("C15.1", f, last, "the array type of a nested annotation is not replaced by the inner annotation's array type as the last step (earlier reads of the inner fields would break)")
    else:
        ctx.ok("C15.1", f.qualname, "array type taken from the inner annotation, after all inner fields were read")
    ctx.counters["nesting_clauses"] = 8


# ------------------------------------------------------------------------ C15.2
def check_union_typevar(ctx):
    m = ctx.model
    f = m.func("_array_types._MetaAbstractDtype.__getitem__")
    ctx.saw(f)
    # union
    def leaves_of(e):
        return leaves_of(e.body) + leaves_of(e.orelse) if isinstance(e, ast.IfExp) else [e]

    def members_iter(e) -> bool:
        """`get_args(array_type)`, or a local bound only to that / to a one-element tuple or list of the array type itself (the non-union case
        run through the same code)"""
        if norm(e) == "get_args(array_type)":
            return True
        if isinstance(e, ast.Name) and e.id not in f.params:
            from . import c05 as _c05

            ds = _c05._assignments_to(f, e.id)
            ok_ = lambda v: v is not None and (norm(v) == "get_args(array_type)" or (isinstance(v, (ast.Tuple, ast.List)) and len(v.elts) == 1 and norm(v.elts[0]) == "array_type")
                                               or (isinstance(v, ast.IfExp) and ok_(v.body) and ok_(v.orelse)))
            return bool(ds) and all(d[2] is None and ok_(d[1]) for d in ds) and any("get_args(array_type)" in norm(d[1]) for d in ds)
        return False

    comps = [n for n in ast.walk(f.node) if isinstance(n, (ast.ListComp, ast.GeneratorExp)) and len(n.generators) == 1 and members_iter(n.generators[0].iter)]
    if not comps:
        comps = [n for n in ast.walk(f.node) if isinstance(n, ast.ListComp) and isinstance(n.elt, ast.Call) and norm(n.elt.func) == "_make_array"]
    need(len(comps) == 1, "C15.2: union comprehension not found")
    lc = comps[0]
    need(isinstance(lc.generators[0].target, ast.Name), "C15.2: the union comprehension does not bind one member variable")
    v = lc.generators[0].target.id
    # `(made for x in members if (made := _make_array(x, ..)) is not _not_made)`: build and filter in one pass -- the element is what the
    # walrus in the filter bound, the filter is the not-made filter
    walrus_filter = None
    if isinstance(lc.elt, ast.Name) and len(lc.generators[0].ifs) == 1:
        cond = lc.generators[0].ifs[0]
        if isinstance(cond, ast.Compare) and len(cond.ops) == 1 and isinstance(cond.ops[0], ast.IsNot) and isinstance(cond.left, ast.NamedExpr) \
                and isinstance(cond.left.target, ast.Name) and cond.left.target.id == lc.elt.id and norm(cond.comparators[0]) == "_not_made":
            walrus_filter = cond
            lc = ast.copy_location(type(lc)(elt=cond.left.value, generators=[ast.comprehension(target=lc.generators[0].target, iter=lc.generators[0].iter, ifs=[], is_async=0)]), lc)
    lvs = leaves_of(lc.elt)
    made = [e for e in lvs if isinstance(e, ast.Call) and norm(e.func) == "_make_array"]
    raw = [e for e in lvs if e not in made]
    if not members_iter(lc.generators[0].iter) and isinstance(lc.generators[0].iter, ast.Call) and m.resolve_call(f, lc.generators[0].iter).kind == "func":
        # the members come from a helper of the package (it may flatten nested unions, drop or add members): what it yields is a matter of values
        raise AnalysisError(f"C15.2: the union members are produced by `{short(lc.generators[0].iter, 50)}`; whether they are exactly the members of the union is not decided statically")
    if not members_iter(lc.generators[0].iter) or lc.generators[0].ifs:
        ctx.bad("C15.2", f, lc, f"union members are not each built as _make_array(member, dim_str, cls): `{norm(lc)}`")
    elif raw:
        ctx.bad("C15.2", f, lc, f"some union members are not built as _make_array(member, dim_str, cls) but passed on as `{norm(raw[0])}` (under `{norm(lc.elt.test) if isinstance(lc.elt, ast.IfExp) else '?'}`): "
                "D[Union[A, B], s] no longer accepts exactly what Union[D[A, s], D[B, s]] accepts", construct="union member bypasses _make_array")
    elif any([norm(a) for a in e.args[:3]] != [v, "dim_str", f.params[0]] for e in made):
        ctx.bad("C15.2", f, lc, f"union members are not each built as _make_array(member, dim_str, cls): `{norm(lc)}`")
    elif any(isinstance(x, ast.Name) and x.id == v for e in made for a in list(e.args[3:]) + [k.value for k in e.keywords] for x in ast.walk(a)):
        raise AnalysisError("C15.2: _make_array receives a further member-dependent argument; whether members are still built uniformly is not known")
    else:
        ctx.ok("C15.2", f.qualname, "every union member is built with the same category and dim string")
    single = [c for c in ast.walk(f.node) if isinstance(c, ast.Call) and norm(c.func) == "_make_array" and c not in made]
    for c in single:
        if [norm(a) for a in c.args[:3]] != ["array_type", "dim_str", f.params[0]]:
            ctx.bad("C15.2", f, c, "the non-union annotation is not built from (array_type, dim_str, cls)")
    filt = [n for n in ast.walk(f.node) if isinstance(n, (ast.GeneratorExp, ast.ListComp)) and any("_not_made" in norm(i) for g in n.generators for i in g.ifs)]
    if not filt:
        ctx.bad("C15.2", f, f.node, "union members that cannot be made (scalar types outside the category) are not dropped", construct="_not_made filter")
    # the variable that holds the members that could be made (whatever it is called)
    made_vars = set()
    for a in ast.walk(f.node):
        if isinstance(a, ast.Assign) and len(a.targets) == 1 and isinstance(a.targets[0], ast.Name) and any(g_ is x for g_ in filt for x in ast.walk(a.value)):
            made_vars.add(a.targets[0].id)
    if filt and not made_vars:
        raise AnalysisError("C15.2: the members of a union that could be made are not kept in a variable the rule can follow")
    # `n = len(out)` ... `if n == 0:`: a count kept in a local
    len_vars = {}
    for a in ast.walk(f.node):
        if isinstance(a, ast.Assign) and len(a.targets) == 1 and isinstance(a.targets[0], ast.Name) and isinstance(a.value, ast.Call) and norm(a.value.func) == "len" \
                and a.value.args and isinstance(a.value.args[0], ast.Name) and a.value.args[0].id in made_vars:
            len_vars[a.targets[0].id] = a.value.args[0].id

    def is_empty_test(t):
        for v_ in made_vars:
            if norm(t) in (f"len({v_}) == 0", f"not {v_}", f"{v_} == ()", f"len({v_}) < 1"):
                return True
        for n_ in len_vars:
            if norm(t) in (f"{n_} == 0", f"not {n_}", f"{n_} < 1"):
                return True
        return False
    zero = [st for st in ast.walk(f.node) if isinstance(st, ast.If) and is_empty_test(st.test) and any(isinstance(x, ast.Raise) for x in st.body)]
    zero += [st for st in ast.walk(f.node) if isinstance(st, ast.If) and (any(norm(st.test) in (f"len({v_}) != 0", f"len({v_}) > 0", v_) for v_ in made_vars) or any(norm(st.test) in (f"{n_} != 0", f"{n_} > 0", n_) for n_ in len_vars))
             and any(isinstance(x, ast.Raise) for x in st.orelse)]
    if not zero:
        ctx.bad("C15.2", f, f.node, "a union none of whose members can be made is not a ValueError", construct="empty union ValueError")
    else:
        ctx.ok("C15.2", f.qualname, "not-made members dropped; none left -> ValueError; one -> itself; several -> Union")
    unions = [a for a in ast.walk(f.node) if isinstance(a, ast.Subscript) and norm(a.value) == "Union" and norm(a.slice) in made_vars]
    if not unions:
        ctx.bad("C15.2", f, f.node, "several made members are not returned as their Union", construct="Union[out]")
    # TypeVar table
    tv = [st for st in ast.walk(f.node) if isinstance(st, ast.If) and norm(st.test) == "isinstance(array_type, TypeVar)"]
    need(len(tv) == 1, "C15.2: TypeVar branch not found")
    body = tv[0].body
    assigns = {norm(a.value) for a in ast.walk(tv[0]) if isinstance(a, ast.Assign) and norm(a.targets[0]) == "array_type"}
    want = {"Any", "Union[constraints]", "bound"}
    if assigns != want:
        ctx.bad("C15.2", f, tv[0], f"TypeVar table: array_type becomes one of {sorted(assigns)}; documented: bound -> bound, constraints -> their union, neither -> Any", construct=f"TypeVar outcomes {sorted(assigns)}")
    else:
        tests = {norm(st.test) for st in ast.walk(tv[0]) if isinstance(st, ast.If)}
        if not ({"bound is None", "constraints == ()"} <= tests or {"bound is not None", "constraints == ()"} <= tests or {"bound is None", "constraints"} <= tests):
            ctx.bad("C15.2", f, tv[0], f"TypeVar table is decided by unexpected tests {sorted(tests)}")
        else:
            # polarity: bound is None -> (constraints == () -> Any else Union) else bound
            st = [x for x in tv[0].body if isinstance(x, ast.If)][0]
            pol = norm(st.test) == "bound is None"
            none_side, some_side = (st.body, st.orelse) if pol else (st.orelse, st.body)
            ok = any(norm(a.value) == "bound" for x in some_side for a in ast.walk(x) if isinstance(a, ast.Assign)) and \
                any(norm(a.value) == "Any" for x in none_side for a in ast.walk(x) if isinstance(a, ast.Assign))
            inner = [x for x in none_side if isinstance(x, ast.If)]
            if ok and inner:
                ipol = norm(inner[0].test) == "constraints == ()"
                empty_side = inner[0].body if ipol else inner[0].orelse
                ok = any(norm(a.value) == "Any" for x in empty_side for a in ast.walk(x) if isinstance(a, ast.Assign))
            if ok:
                ctx.ok("C15.2", f.qualname, "TypeVar: bound -> bound; no bound & constraints -> Union[constraints]; neither -> Any")
            else:
                ctx.bad("C15.2", f, tv[0], "TypeVar table assigns the right values on the wrong branches")


# ------------------------------------------------------------------------ C15.3
LADDER = {"bool": "bool", "int": "int", "float": "float", "complex": "complex", "np.bool_": "bool", "np.generic": "", "np.number": ""}


def check_scalar_ladder(ctx):
    m = ctx.model
    f = _mk(ctx)
    at = f.params[0]
    arms = [st for st in ast.walk(f.node) if isinstance(st, ast.If) and f"{at} is " in norm(st.test) and "_check_scalar" in norm(ast.Module(body=st.body, type_ignores=[]))]
    n = 0
    seen = set()
    # second spelling: the arms only pick the dtype-name prefix (`prefix = "int"`), one shared
    # `_check_scalar(prefix, dtypes, dims)` follows under `if prefix is not None`
    shared_calls = []
    if not arms:
        cands = [c for c in m.calls_in(f) if norm(c.func) == "_check_scalar" and c.args and isinstance(c.args[0], ast.Name)]
        if len(cands) == 1:
            pv = cands[0].args[0].id
            sel = [st for st in ast.walk(f.node) if isinstance(st, ast.If) and f"{at} is " in norm(st.test)
                   and any(isinstance(a, ast.Assign) and norm(a.targets[0]) == pv and isinstance(a.value, ast.Constant) and isinstance(a.value.value, str) for a in st.body)]
            defaults = [a for a in ast.walk(f.node) if isinstance(a, ast.Assign) and norm(a.targets[0]) == pv and isinstance(a.value, ast.Constant) and a.value.value is None]
            guards = [st for st in ast.walk(f.node) if isinstance(st, ast.If) and norm(st.test) == f"{pv} is not None" and any(x is cands[0] for b_ in st.body for x in ast.walk(b_))]
            if sel and defaults and guards:
                shared_calls = cands
                for st in sel:
                    types = re.findall(rf"{at} is ([A-Za-z_\.]+)", norm(st.test))
                    prefix = next(a.value.value for a in st.body if isinstance(a, ast.Assign) and norm(a.targets[0]) == pv and isinstance(a.value, ast.Constant))
                    for t in types:
                        n += 1
                        seen.add(t)
                        if t not in LADDER:
                            ctx.bad("C15.3", f, st.test, f"scalar ladder has an arm for `{t}`, which the documented laws do not mention")
                        elif LADDER[t] != prefix:
                            ctx.bad("C15.3", f, st, f"the scalar type `{t}` is admitted for categories containing dtype names starting with '{prefix}' (must be '{LADDER[t]}')")
                        else:
                            ctx.ok("C15.3", f.qualname, f"{t} <-> prefix '{prefix}' (shared _check_scalar call)")
                if [norm(a) for a in cands[0].args[1:]] != ["dtypes", "dims"]:
                    ctx.bad("C15.3", f, cands[0], "_check_scalar is not given (dtypes, dims) of this annotation")
                # what the guarded block returns: the scalar type itself or the not-made marker, decided by the call
                rets = []
                resvars = {norm(a.targets[0]) for a in ast.walk(guards[0]) if isinstance(a, ast.Assign) and a.value is cands[0]}
                for x in ast.walk(guards[0]):
                    if isinstance(x, ast.Return):
                        if isinstance(x.value, ast.IfExp) and (x.value.test is cands[0] or norm(x.value.test) in resvars):
                            rets += [norm(x.value.body), norm(x.value.orelse)]
                        else:
                            rets.append(norm(x.value))
                if sorted(rets) != sorted([at, "_not_made"]):
                    ctx.bad("C15.3", f, guards[0], f"the scalar branch returns {rets} (expected the scalar type itself, or the not-made marker)")
    for st in arms:
        types = re.findall(rf"{at} is ([A-Za-z_\.]+)", norm(st.test))
        calls = [c for x in st.body for c in ast.walk(x) if isinstance(c, ast.Call) and norm(c.func) == "_check_scalar"]
        if len(calls) != 1 or not isinstance(calls[0].args[0], ast.Constant):
            raise AnalysisError(f"C15.3: scalar arm `{norm(st.test)}` has an unrecognised body")
        prefix = calls[0].args[0].value
        for t in types:
            n += 1
            seen.add(t)
            if t not in LADDER:
                ctx.bad("C15.3", f, st.test, f"scalar ladder has an arm for `{t}`, which the documented laws do not mention")
            elif LADDER[t] != prefix:
                ctx.bad("C15.3", f, calls[0], f"the scalar type `{t}` is admitted for categories containing dtype names starting with '{prefix}' (must be '{LADDER[t]}')")
            else:
                ctx.ok("C15.3", f.qualname, f"{t} <-> prefix '{prefix}'")
        if [norm(a) for a in calls[0].args[1:]] != ["dtypes", "dims"]:
            ctx.bad("C15.3", f, calls[0], "_check_scalar is not given (dtypes, dims) of this annotation")
        rets = []
        for b in st.body:
            for x in ast.walk(b):
                if isinstance(x, ast.Return):
                    if isinstance(x.value, ast.IfExp) and x.value.test is calls[0]:
                        rets += [norm(x.value.body), norm(x.value.orelse)]  # `return T if _check_scalar(..) else _not_made`
                    else:
                        rets.append(norm(x.value))
        if sorted(rets) != sorted([at, "_not_made"]):
            ctx.bad("C15.3", f, st, f"a scalar arm returns {rets} (expected the scalar type itself, or the not-made marker)")
    # every use of _check_scalar must be one of the recognised arms; a table-driven / helper-based ladder
    # (prefix not a literal at the call) is not something a missing arm can be read off from
    arm_calls = {id(c) for st in arms for x in st.body for c in ast.walk(x) if isinstance(c, ast.Call) and norm(c.func) == "_check_scalar"}
    other_calls = [c for fn_ in m.all_functions(include_typeguard=False) for c in m.calls_in(fn_)
                   if norm(c.func) == "_check_scalar" and id(c) not in arm_calls and not any(c is x for x in shared_calls)]
    missing = [t for t in ("bool", "int", "float", "complex") if t not in seen]
    if missing and (n == 0 or other_calls):
        raise AnalysisError(f"C15.3: the scalar ladder is not (only) a chain of `{at} is T` arms with literal prefixes "
                            f"({len(other_calls)} other use(s) of _check_scalar); arms for {missing} not recognised")
    for t in missing:
        ctx.bad("C15.3", f, f.node, f"the Python scalar type `{t}` has no arm in the scalar ladder", construct=f"scalar ladder: no {t}")
    ctx.counters["scalar_arms"] = n
    ctx.floor("C15.3", "scalar_arms", 6)
    cs = m.func("_array_types._check_scalar")
    ctx.saw(cs)
    kind, dtypes, dims = cs.params
    from ..absim import eval_bool

    KINDS = ("anonvar", "namedvar", "anon", "named", "fixed", "symbolic")
    CLASS_OF = {"namedvar": "_NamedVariadicDim", "named": "_NamedDim", "fixed": "_FixedDim", "symbolic": "_SymbolicDim", "anon": "_Sentinel", "anonvar": "_Sentinel"}
    SENTINEL_OF = {"anon": "_anonymous_dim", "anonvar": "_anonymous_variadic_dim"}

    def class_names(e):
        """the class names a second argument of isinstance / the right side of `type(d) is|in` stands for"""
        if isinstance(e, ast.Name):
            b_ = m.resolve_name(cs, e.id)
            if b_.kind == "class":
                return [e.id]
            if b_.kind == "modvar":
                vals_ = b_.target[0].assigns.get(b_.target[1], [])
                if len(vals_) == 1 and vals_[0] is not None:
                    return class_names(vals_[0])
            return None
        if isinstance(e, (ast.Tuple, ast.List, ast.Set)):
            out = []
            for x in e.elts:
                sub = class_names(x)
                if sub is None:
                    return None
                out += sub
            return out
        return None

    def dim_table(test, dvar):
        """truth of `test` for a dim of each kind: the two multi-axis kinds, the anonymous single axis (a sentinel,
        not a dataclass!), a named / fixed / symbolic single axis"""
        out = []
        for k in KINDS:
            def atom(e, k=k):
                t = norm(e)
                if isinstance(e, ast.Compare) and len(e.ops) == 1 and norm(e.left) == dvar and isinstance(e.ops[0], (ast.Is, ast.IsNot)) and norm(e.comparators[0]) in SENTINEL_OF.values():
                    v = SENTINEL_OF.get(k) == norm(e.comparators[0])
                    return v if isinstance(e.ops[0], ast.Is) else not v
                if isinstance(e, ast.Call) and norm(e.func) == "isinstance" and len(e.args) == 2 and norm(e.args[0]) == dvar:
                    cn = class_names(e.args[1])
                    if cn is not None:
                        return CLASS_OF[k] in cn
                if isinstance(e, ast.Compare) and len(e.ops) == 1 and norm(e.left) == f"type({dvar})" and isinstance(e.ops[0], (ast.Is, ast.IsNot, ast.In, ast.NotIn, ast.Eq, ast.NotEq)):
                    cn = class_names(e.comparators[0])
                    if cn is not None:
                        v = CLASS_OF[k] in cn
                        return v if isinstance(e.ops[0], (ast.Is, ast.In, ast.Eq)) else not v
                raise AnalysisError(f"C15.3: unrecognised atom `{t}` in _check_scalar")
            out.append(eval_bool(test, atom))
        return out

    WANT_REJECT = [False, False, True, True, True, True]
    okd = False
    reject_tab, where = None, None
    loop = [x for x in cs.body if isinstance(x, ast.For) and norm(x.iter) == dims and isinstance(x.target, ast.Name)]
    if len(loop) == 1:
        t = [x for x in loop[0].body if isinstance(x, ast.If)]
        if len(t) == 1 and any(isinstance(x, ast.Return) and isinstance(x.value, ast.Constant) and x.value.value is False for x in t[0].body):
            # rejects when the dim is NOT a multi-axis specifier
            reject_tab, where = dim_table(t[0].test, loop[0].target.id), t[0]
        else:
            # any other straight-line spelling of one iteration (`if <variadic>: continue` + `return False`, nested ifs): walked per dim kind
            def one_iteration(stmts, k_i):
                for st_ in stmts:
                    if isinstance(st_, ast.If):
                        tv = dim_table(st_.test, loop[0].target.id)[k_i]
                        if tv is None:
                            return None
                        r_ = one_iteration(st_.body if tv else st_.orelse, k_i)
                        if r_ != "next":
                            return r_
                    elif isinstance(st_, ast.Continue):
                        return "accept"
                    elif isinstance(st_, ast.Return) and isinstance(st_.value, ast.Constant) and st_.value.value is False:
                        return "reject"
                    elif isinstance(st_, (ast.Pass,)) or (isinstance(st_, ast.Expr) and isinstance(st_.value, ast.Constant)):
                        continue
                    else:
                        return None
                return "next"

            res_ = [one_iteration(loop[0].body, i_) for i_ in range(len(KINDS))]
            if all(r_ in ("accept", "reject", "next") for r_ in res_):
                reject_tab, where = [r_ == "reject" for r_ in res_], loop[0]
    else:
        # `if not all(<dim is variadic> for dim in dims): return False` / `... any(<dim is not variadic> ...)`
        for st in cs.body:
            if isinstance(st, ast.If) and any(isinstance(x, ast.Return) and isinstance(x.value, ast.Constant) and x.value.value is False for x in st.body):
                tt = st.test
                neg = False
                while isinstance(tt, ast.UnaryOp) and isinstance(tt.op, ast.Not):
                    neg = not neg
                    tt = tt.operand
                if isinstance(tt, ast.Name):
                    from . import c05 as _c05

                    d_ = _c05._assignments_to(cs, tt.id)
                    if len(d_) == 1 and d_[0][2] is None:
                        tt = d_[0][1]
                if isinstance(tt, ast.Call) and norm(tt.func) in ("all", "any") and tt.args and isinstance(tt.args[0], ast.GeneratorExp) and len(tt.args[0].generators) == 1 \
                        and norm(tt.args[0].generators[0].iter) == dims and isinstance(tt.args[0].generators[0].target, ast.Name):
                    tab = dim_table(tt.args[0].elt, tt.args[0].generators[0].target.id)
                    if None in tab:
                        continue
                    if norm(tt.func) == "all" and neg:
                        reject_tab, where = [not v for v in tab], st
                    if norm(tt.func) == "any" and not neg:
                        reject_tab, where = tab, st
    if reject_tab is not None and None not in reject_tab:
        if reject_tab == WANT_REJECT:
            okd = True
        else:
            wrong_keep = [k for k, got, want in zip(KINDS, reject_tab, WANT_REJECT) if want and not got]
            wrong_drop = [k for k, got, want in zip(KINDS, reject_tab, WANT_REJECT) if got and not want]
            names = {"anon": "the anonymous axis `_`", "named": "a named axis", "fixed": "a fixed-size axis", "symbolic": "a symbolic axis", "anonvar": "`...`", "namedvar": "`*name`"}
            msg = []
            if wrong_keep:
                msg.append("a Python scalar type survives a shape containing " + " / ".join(names[k] for k in wrong_keep) + " (exactly one axis: rank 0 is impossible)")
            if wrong_drop:
                msg.append("a Python scalar type is dropped for a shape made of " + " / ".join(names[k] for k in wrong_drop) + " (which admits rank 0)")
            ctx.bad("C15.3", cs, where, "; ".join(msg), construct="_check_scalar dim table " + str(dict(zip(KINDS, reject_tab))))
            okd = None
    if okd:
        ctx.ok("C15.3", cs.qualname, "scalars survive only when every dim is a multi-axis specifier (the shape admits rank 0)")
    elif okd is None:
        pass
    elif not any("_anonymous_variadic_dim" in norm(x) or "_NamedVariadicDim" in norm(x) for x in ast.walk(cs.node) if isinstance(x, ast.expr)):
        ctx.bad("C15.3", cs, cs.node, "_check_scalar no longer looks at the dims at all: a Python scalar is admitted for shapes that do not admit rank 0", construct="_check_scalar: dims not inspected")
    else:
        raise AnalysisError("C15.3: the all-multi-axis test of _check_scalar has a form the rule does not recognise")
    last = cs.body[-1]
    txt = norm(last)
    single_return = True
    top_ = next((x_ for x_ in cs.body if where is not None and any(where is y_ for y_ in ast.walk(x_))), None)
    if top_ is not None and cs.body.index(top_) < len(cs.body) - 2:
        # the membership part is spelled with statements (`if dtypes is _any_dtype: return True` / a loop with `return True` / `return False`):
        # read all of them together
        tail_ = cs.body[cs.body.index(top_) + 1:]
        last = ast.Module(body=tail_, type_ignores=[])
        txt = " ; ".join(norm(x_) for x_ in tail_)
        single_return = False
    mem_calls = [c for c in ast.walk(last) if isinstance(c, ast.Call)]
    uses_prefix = any(isinstance(c.func, ast.Attribute) and c.func.attr == "startswith" and [norm(a) for a in c.args] == [kind] for c in mem_calls)
    # ... asked of the dtype name itself: a name that was transformed first (`d.removeprefix("b").startswith(kind)`) is another question
    # ('bool'.removeprefix('b') no longer starts with 'bool', 'bfloat16' starts with 'float')
    transformed = [c for c in mem_calls if isinstance(c.func, ast.Attribute) and c.func.attr == "startswith" and [norm(a) for a in c.args] == [kind]
                   and not isinstance(c.func.value, ast.Name)]
    if transformed:
        ctx.bad("C15.3", cs, transformed[0], f"`{short(transformed[0], 60)}`: the prefix test is applied to a transformed dtype name, not to the name: categories lose or gain Python scalar kinds "
                "(`bool` no longer starts with 'bool' once a leading 'b' is removed, `bfloat16` then starts with 'float')", construct="prefix test on a transformed dtype name")
        return
    substr = any((isinstance(c.func, ast.Attribute) and c.func.attr in ("search", "find", "count", "__contains__")) or norm(c.func) in ("re.search", "re.findall") for c in mem_calls) or \
        any(isinstance(x, ast.Compare) and isinstance(x.ops[0], ast.In) and norm(x.left) == kind for x in ast.walk(last))
    if not single_return:
        last = cs.body[-1]
    if not substr and not uses_prefix and not single_return:
        raise AnalysisError("C15.3: how _check_scalar decides the category membership of a scalar kind was not recognised")
    if substr or not uses_prefix:
        ctx.bad("C15.3", cs, last, f"category membership of a Python scalar is not decided by the dtype names *starting with* the kind (`{short(last, 90)}`): with a substring/regex "
                "search 'uint8' contains 'int', so UInt categories would admit Python ints")
    elif "_any_dtype is" not in txt and "is _any_dtype" not in txt:
        ctx.bad("C15.3", cs, last, "the any-dtype sentinel is not handled before iterating the dtype names")
    else:
        ctx.ok("C15.3", cs.qualname, "membership by prefix (`d.startswith(kind)`), any-dtype sentinel first")


# ------------------------------------------------------------------------ C15.4
def check_aliases(ctx):
    m = ctx.model
    doc = m.docs.get("docs/api/array.md")
    need(doc, "docs/api/array.md not found")
    blocks = re.findall(r"```python\n(.*?)```", doc, flags=re.S)
    documented = {}
    for b in blocks:
        try:
            t = ast.parse(b)
        except SyntaxError:
            continue
        for st in t.body:
            if isinstance(st, ast.Assign) and isinstance(st.targets[0], ast.Name) and st.targets[0].id in ("Scalar", "ScalarLike", "PRNGKeyArray"):
                documented[st.targets[0].id] = norm(st.value)
    need(len(documented) == 3, f"documented alias definitions not found (got {sorted(documented)})")
    init = m.module("jaxtyping")
    ga = None
    for f in m.functions.values():
        if f.module is init and f.name == "__getattr__":
            ga = f
    need(ga, "jaxtyping.__getattr__ not found")
    ctx.saw(ga)
    got = {}
    for st in ast.walk(ga.node):
        if isinstance(st, ast.If) and isinstance(st.test, ast.Compare) and norm(st.test.left) == ga.params[0] and isinstance(st.test.comparators[0], ast.Constant):
            nm = st.test.comparators[0].value
            rets = [x for x in st.body if isinstance(x, ast.Return)]
            if rets:
                got[nm] = norm(rets[0].value).replace("jax.Array", "Array").replace("jax.typing.ArrayLike", "ArrayLike")
    for nm, want in documented.items():
        if nm not in got:
            ctx.bad("C15.4", ga, ga.node, f"the documented alias `{nm}` is not provided", construct=f"alias {nm} missing")
        elif got[nm] != want:
            ctx.bad("C15.4", ga, ga.node, f"`jaxtyping.{nm}` is `{got[nm]}`, the documentation defines it as `{want}`", construct=f"alias {nm}: {got[nm]} vs documented {want}")
        else:
            ctx.ok("C15.4", ga.qualname, f"{nm} = {want} as documented")
    ctx.counters["documented_aliases"] = len(documented)
