"""C11 -- the import hook instruments exactly the named packages, only while installed.

Decided structurally:
  C11.1 in find_spec the construction of the instrumenting loader is control-dependent on
        the true outcome of should_instrument(fullname) (and on the spec's loader being a
        SourceFileLoader); name and path are forwarded in that order; the configured names
        reach the finder unchanged (no filtering / merging of the list between the API and
        the predicate).
  C11.2 predicate (oracle = the statement): should_instrument is true iff for some configured
        name M: N == M, or N starts with M + "." -- decided by evaluating its boolean skeleton
        over the relation classes {equal, sub-module, mere string prefix ('foobar' for
        'foo'), parent of M, unrelated}.
  C11.3 install/uninstall pairing: the object inserted into sys.meta_path (at position 0)
        is a finder created by that very call, is the one stored in the manager and the one
        removed by uninstall; __exit__ calls uninstall on every path.
  C11.4 per-install checker: the Typechecker built by an install call flows to its finder,
        from there to each loader, and the loader uses that same object for the transformer
        and for the cache tag.
  C11.5 front ends: pytest plugin (last list element -> typechecker, rest -> modules, passed
        in that order); IPython magic (old transformers removed before the new one is added).
"""
from __future__ import annotations

import ast

from ..cfg import Flow
from ..core import AnalysisError, RuleContext, need, norm, short
from ..model import walk_scope
from ..roles import node_calls
from ..typestate import NoReturn
from . import c05

EXPLANATION = __doc__
NORMAL = ("n", "t", "f", "loop", "done", "ret", "brk", "cont", "caught", "fall")


def run(ctx: RuleContext):
    ctx.sub(check_find_spec, ctx)
    ctx.sub(check_predicate, ctx)
    ctx.sub(check_install_pairing, ctx)
    ctx.sub(check_checker_flow, ctx)
    ctx.sub(check_front_ends, ctx)
    # C11.6: the redirection of importlib's cache path (part of loading an instrumented module) must not
    # outlive the load: otherwise modules imported later -- outside the named set, after uninstall() -- are
    # read from the instrumented cache (C18.3 / C18.5 for the loader's patch)
    from .c18 import check_manual_patches, check_patch_extent

    ctx.reuse("C11.6", check_manual_patches, ctx)
    ctx.reuse("C11.6", check_patch_extent, ctx)
    # C11.7: "checked by the checker given to the install call that loaded them, also when several hooks are active": the decorator a
    # loaded module resolves is looked up under the hash of the typechecker string, so that hash must tell any two strings apart (C18.2)
    from .c18 import check_hash

    ctx.reuse("C11.7", check_hash, ctx)
    # C11.8: "... checked by the checker given to the install call that loaded them, for every order of install, import, uninstall": the
    # decorator table keeps its entries (C10.6: stored on every path of Typechecker.__init__, never removed, held strongly)
    from .c10 import check_template

    ctx.reuse("C11.8", check_template, ctx)


# ------------------------------------------------------------------------ C11.1
def check_find_spec(ctx):
    m = ctx.model
    fc = m.cls("_import_hook._JaxtypingFinder")
    f = need(fc.methods.get("find_spec"), "_JaxtypingFinder.find_spec not found")
    ctx.saw(f)
    g = NoReturn(m).cfg(f)
    fullname = f.params[1]
    loader_nodes, tests = [], []
    for n in g.live_nodes():
        for c in node_calls(n):
            t = m.resolve_call(f, c)
            if t.kind == "class" and t.target.name == "_JaxtypingLoader":
                loader_nodes.append((n, c))
            if t.kind == "func" and t.target.name == "should_instrument" and n.kind == "test":
                tests.append((n, c))
    if not loader_nodes:
        ctx.bad("C11.1", f, f.node, "find_spec never installs the instrumenting loader", construct="no _JaxtypingLoader(...)")
        return
    if not tests:
        ctx.bad("C11.1", f, loader_nodes[0][1], "the instrumenting loader is installed without consulting should_instrument(fullname): every module found is instrumented")
        return
    tn, tc = tests[0]
    if [norm(a) for a in tc.args] != [fullname]:
        ctx.bad("C11.1", f, tc, f"should_instrument is not asked about the full dotted name of the module being imported (`{fullname}`)")
    # which side of the test is "true"?
    pol = True
    t = tn.ast
    while isinstance(t, ast.UnaryOp) and isinstance(t.op, ast.Not):
        pol = not pol
        t = t.operand
    true_edge = "t" if pol else "f"
    # removing the true edge must make the loader construction unreachable
    reach = set()
    stack = [g.entry]
    while stack:
        n = stack.pop()
        if n.id in reach:
            continue
        reach.add(n.id)
        for k, s in n.succ:
            if n is tn and k == true_edge:
                continue
            stack.append(s)
    leaked = [(n, c) for n, c in loader_nodes if n.id in reach]
    if leaked:
        ctx.bad("C11.1", f, leaked[0][1], "the instrumenting loader can be installed on a path on which should_instrument(fullname) was false or never asked")
    else:
        ctx.ok("C11.1", f.qualname, "loader construction is control-dependent on should_instrument(fullname) being true")
    # SourceFileLoader guard dominates
    dom = g.dominators()
    for n, c in loader_nodes:
        guards = [g.nodes[i] for i in dom[n.id] if g.nodes[i].kind == "test" and "SourceFileLoader" in norm(g.nodes[i].ast) and "isinstance" in norm(g.nodes[i].ast)]
        if not guards:
            ctx.bad("C11.1", f, c, "the loader is swapped without testing that the spec's loader is a SourceFileLoader (extension modules, namespace packages)")
        else:
            ctx.ok("C11.1", f.qualname, "only SourceFileLoader specs are swapped")
        args = [norm(a) for a in c.args]
        if len(args) < 2 or not (args[0].endswith(".name") and args[1].endswith(".path")):
            ctx.bad("C11.1", f, c, f"the replacement loader is not given (loader.name, loader.path) in that order: got ({', '.join(args)})")
        else:
            ctx.ok("C11.1", f.qualname, f"name and path forwarded in order: ({', '.join(args[:2])})")
    # all non-loader returns are None
    for n in g.live_nodes():
        if n.kind == "return":
            v = n.ast.value
            if v is None or (isinstance(v, ast.Constant) and v.value is None):
                continue
            if isinstance(v, ast.Name):
                continue
            ctx.bad("C11.1", f, n.ast, f"find_spec returns `{norm(v)}`")
    # the original finder is asked with the same arguments
    for n in g.live_nodes():
        for c in node_calls(n):
            if isinstance(c.func, ast.Attribute) and c.func.attr == "find_spec" and c is not None and norm(c.func.value).endswith("_original_pathfinder"):
                if [norm(a) for a in c.args] != f.params[1:4]:
                    ctx.bad("C11.1", f, c, "the wrapped path finder is not asked with (fullname, path, target)")
    # the names reach the predicate unchanged: install_import_hook -> _JaxtypingFinder(modules, ...) -> self.modules
    inst = m.func("_import_hook.install_import_hook")
    ctx.saw(inst)
    mods_param = inst.params[0]
    for st in walk_scope(inst.node):
        if isinstance(st, ast.Assign) and any(isinstance(t, ast.Name) and t.id == mods_param for t in st.targets):
            v = st.value
            ok = isinstance(v, ast.List) and len(v.elts) == 1 and isinstance(v.elts[0], ast.Name) and v.elts[0].id == mods_param
            # a plain copy / container conversion keeps exactly the caller's names
            copy_ = (isinstance(v, ast.Call) and norm(v.func) in ("list", "tuple", "set", "frozenset", "sorted") and len(v.args) == 1 and not v.keywords
                     and isinstance(v.args[0], ast.Name) and v.args[0].id == mods_param) or \
                    (isinstance(v, (ast.List, ast.Tuple)) and len(v.elts) == 1 and isinstance(v.elts[0], ast.Starred) and norm(v.elts[0].value) == mods_param)
            if ok:
                ctx.ok("C11.1", inst.qualname, "a single name is wrapped into a one-element list; nothing else touches the list of names")
            elif copy_:
                ctx.ok("C11.1", inst.qualname, f"`{short(st, 50)}` copies the caller's names unchanged")
            elif any(isinstance(x, (ast.ListComp, ast.GeneratorExp, ast.SetComp)) and (x.generators[0].ifs or norm(x.elt) != norm(x.generators[0].target)) for x in ast.walk(v)) \
                    or any(isinstance(x, ast.Subscript) for x in ast.walk(v)):
                ctx.bad("C11.1", inst, st, f"the configured names are transformed before they reach the finder (`{short(st, 70)}`): a name may be dropped, merged or "
                        "altered, so the set of instrumented modules is no longer 'exactly the named packages'")
            else:
                raise AnalysisError(f"C11.1: `{short(st, 70)}` re-binds the configured names; whether every name survives unchanged is not interpreted")
    fcalls = [c for c in m.calls_in(inst) if m.resolve_call(inst, c).kind == "class" and m.resolve_call(inst, c).target.name == "_JaxtypingFinder"]
    need(fcalls, "install_import_hook no longer builds a _JaxtypingFinder")
    for c in fcalls:
        if not (c.args and isinstance(c.args[0], ast.Name) and c.args[0].id == mods_param):
            ctx.bad("C11.1", inst, c, f"the finder is not given the caller's names (`{mods_param}`) but `{norm(c.args[0]) if c.args else '?'}`")
    # the finder's names are never written once the hook is built -- unless the finder owns a private copy on every path:
    # the list may be the caller's own object, shared with other hooks built from the same list
    g_i = NoReturn(m).cfg(inst)
    call_nodes = [n_ for n_ in g_i.live_nodes() if any(c_ is fc_ for c_ in node_calls(n_) for fc_ in fcalls)]
    rebinds = [n_ for n_ in g_i.live_nodes() if n_.kind == "stmt" and isinstance(n_.ast, ast.Assign) and any(isinstance(t, ast.Name) and t.id == mods_param for t in n_.ast.targets)]
    shared_possible = bool(call_nodes) and any(cn.id in g_i.reach_from(g_i.entry, avoid=lambda x: x in rebinds) for cn in call_nodes)
    muts = []
    for f_ in m.all_functions(include_typeguard=False):
        if f_.module.short != "_import_hook" or (f_.cls is fc and f_.name == "__init__"):
            continue
        for x in walk_scope(f_.node):
            if isinstance(x, ast.Call) and isinstance(x.func, ast.Attribute) and x.func.attr in ("clear", "append", "extend", "remove", "pop", "insert", "sort", "reverse", "__setitem__", "__delitem__") \
                    and isinstance(x.func.value, ast.Attribute) and x.func.value.attr == "modules" and not norm(x.func.value.value).startswith("sys"):
                muts.append((f_, x))
            if isinstance(x, (ast.Assign, ast.AugAssign, ast.Delete)):
                tg = x.targets if isinstance(x, (ast.Assign, ast.Delete)) else [x.target]
                for t in tg:
                    base = t.value if isinstance(t, ast.Subscript) else None
                    if isinstance(base, ast.Attribute) and base.attr == "modules" and not norm(base.value).startswith("sys"):
                        muts.append((f_, x))
    for f_, x in muts:
        if shared_possible:
            ctx.bad("C11.1", f_, x, f"`{short(x, 50)}` changes the finder's list of names in place, and that list can be the caller's own object (install_import_hook hands it to the "
                    "finder without copying on some path): every other hook built from the same list stops (or starts) instrumenting modules while it is installed")
        else:
            ctx.ok("C11.1", f_.qualname, f"`{short(x, 50)}` changes a list that the finder owns privately (always copied by install_import_hook)")
    finit = need(fc.methods.get("__init__"), "_JaxtypingFinder.__init__ not found")
    stores = {norm(t): norm(st.value) for st in walk_scope(finit.node) if isinstance(st, ast.Assign) for t in st.targets}
    if stores.get(f"{finit.params[0]}.modules") != finit.params[1]:
        ctx.bad("C11.1", finit, finit.node, "the finder does not keep the names it was given unchanged", construct="self.modules = modules")
    else:
        ctx.ok("C11.1", finit.qualname, "self.modules = modules (unchanged)")


# ------------------------------------------------------------------------ C11.2
REL = ["equal", "submodule", "string-prefix-only", "parent-of-configured", "unrelated"]
WANT = {"equal": True, "submodule": True, "string-prefix-only": False, "parent-of-configured": False, "unrelated": False}


def _atom(e, n, mvar, rel):
    """Truth of an atom relating module name `n` and configured name `mvar` under relation rel."""
    def is_n(x):
        return isinstance(x, ast.Name) and x.id == n

    def is_m(x):
        return isinstance(x, ast.Name) and x.id == mvar

    def is_m_dot(x):
        if isinstance(x, ast.BinOp) and isinstance(x.op, ast.Add) and is_m(x.left) and isinstance(x.right, ast.Constant) and x.right.value == ".":
            return True
        if isinstance(x, ast.JoinedStr) and len(x.values) == 2 and isinstance(x.values[0], ast.FormattedValue) and is_m(x.values[0].value) \
                and isinstance(x.values[1], ast.Constant) and x.values[1].value == ".":
            return True
        return False

    if isinstance(e, ast.Compare) and len(e.ops) == 1:
        l, r_, op = e.left, e.comparators[0], e.ops[0]
        if isinstance(op, (ast.Eq, ast.NotEq)) and ((is_n(l) and is_m(r_)) or (is_m(l) and is_n(r_))):
            v = rel == "equal"
            return v if isinstance(op, ast.Eq) else not v
        if isinstance(op, (ast.In, ast.NotIn)) and is_m(l) and is_n(r_):
            v = rel in ("equal", "submodule", "string-prefix-only")  # at least these (substring)
            return v if isinstance(op, ast.In) else not v
        if isinstance(op, (ast.In, ast.NotIn)) and is_m_dot(l) and is_n(r_):
            v = rel in ("submodule",)
            return v if isinstance(op, ast.In) else not v
    if isinstance(e, ast.Call) and isinstance(e.func, ast.Attribute) and e.func.attr == "startswith" and len(e.args) == 1:
        recv, a = e.func.value, e.args[0]
        if is_n(recv) and is_m_dot(a):
            return rel == "submodule"
        if is_n(recv) and is_m(a):
            return rel in ("equal", "submodule", "string-prefix-only")
        if is_m(recv) and is_n(a):
            return rel in ("equal", "parent-of-configured")
    return None


def _eval_pred(e, n, mvar, rel):
    if isinstance(e, ast.BoolOp):
        vals = [_eval_pred(v, n, mvar, rel) for v in e.values]
        return all(vals) if isinstance(e.op, ast.And) else any(vals)
    if isinstance(e, ast.UnaryOp) and isinstance(e.op, ast.Not):
        return not _eval_pred(e.operand, n, mvar, rel)
    v = _atom(e, n, mvar, rel)
    if v is None:
        raise AnalysisError(f"C11.2: unrecognised atom `{norm(e)}` in should_instrument")
    return v


def check_predicate(ctx):
    m = ctx.model
    fc = m.cls("_import_hook._JaxtypingFinder")
    f = need(fc.methods.get("should_instrument"), "should_instrument not found")
    ctx.saw(f)
    n = f.params[1]
    # shape 1: for M in self.modules: if <pred>: return True ... return False
    loops = [x for x in f.body if isinstance(x, ast.For)]
    pred = None
    mvar = None
    if len(loops) == 1 and isinstance(loops[0].target, ast.Name) and norm(loops[0].iter) == f"{f.params[0]}.modules":
        lp = loops[0]
        mvar = lp.target.id
        ifs = [x for x in lp.body if isinstance(x, ast.If)]
        if len(ifs) == 1 and len(lp.body) == 1 and len(ifs[0].body) == 1 and isinstance(ifs[0].body[0], ast.Return) \
                and isinstance(ifs[0].body[0].value, ast.Constant) and ifs[0].body[0].value.value is True and not ifs[0].orelse:
            pred = ifs[0].test
        after = [x for x in f.body[f.body.index(lp) + 1:] if not (isinstance(x, ast.Expr) and isinstance(x.value, ast.Constant))]
        if not (len(after) == 1 and isinstance(after[0], ast.Return) and isinstance(after[0].value, ast.Constant) and after[0].value.value is False):
            pred = None
    # shape 2: return any(<pred> for M in self.modules)
    if pred is None:
        rets = [x for x in f.body if isinstance(x, ast.Return)]
        if len(rets) == 1 and isinstance(rets[0].value, ast.Call) and norm(rets[0].value.func) == "any" and isinstance(rets[0].value.args[0], ast.GeneratorExp):
            ge = rets[0].value.args[0]
            if len(ge.generators) == 1 and isinstance(ge.generators[0].target, ast.Name) and norm(ge.generators[0].iter) == f"{f.params[0]}.modules" and not ge.generators[0].ifs:
                mvar = ge.generators[0].target.id
                pred = ge.elt
    if pred is None:
        # a positive witness that needs no table: the name is tested against the whole list with a bare prefix test
        # (`name.startswith(tuple(self.modules))`): `foobar` is instrumented for `foo` -- the `.` boundary is gone
        for c_ in ast.walk(f.node):
            if isinstance(c_, ast.Call) and isinstance(c_.func, ast.Attribute) and c_.func.attr == "startswith" and c_.args and f"{f.params[0]}.modules" in norm(c_.args[0]) \
                    and not any(isinstance(x_, ast.BinOp) for x_ in ast.walk(c_.args[0])):
                ctx.bad("C11.2", f, c_, f"`{short(c_, 60)}`: a module is instrumented when its name merely *starts with* a configured name (no `.` boundary, no equality): with a hook for "
                        "`foo`, the unrelated `foobar` / `foo_contrib` are instrumented too", construct="bare prefix test against the module list")
                return
        # ... or compiled into a regular expression without escaping them: the `.` of a dotted name then matches any character
        cls_ = f.cls
        for g2 in (cls_.methods.values() if cls_ is not None else []):
            for c_ in ast.walk(g2.node):
                if isinstance(c_, ast.Call) and norm(c_.func) in ("re.compile", "re.match", "re.fullmatch", "re.search") and c_.args and "modules" in norm(c_.args[0]) \
                        and "escape" not in norm(c_.args[0]):
                    ctx.bad("C11.2", g2, c_, f"`{short(c_, 70)}`: the configured names are put into a regular expression unescaped: in a dotted name (`pkg.utils`) the `.` matches any "
                            "character, so the unrelated `pkg_utils` / `pkgxutils` (and their sub-modules) are instrumented too", construct="module names compiled into a regex without re.escape")
                    return
        raise AnalysisError("C11.2: should_instrument has a shape the rule does not recognise (expected a loop / any() over self.modules)")
    bad = []
    for rel in REL:
        got = _eval_pred(pred, n, mvar, rel)
        if got != WANT[rel]:
            bad.append((rel, got))
    if bad:
        for rel, got in bad:
            if rel == "string-prefix-only":
                msg = "a module whose name merely starts with a configured name as a string ('foobar' for 'foo') is instrumented"
            elif rel == "submodule":
                msg = "sub-modules / sub-packages of a configured name are not instrumented"
            elif rel == "equal":
                msg = "the configured module itself is not instrumented"
            elif rel == "parent-of-configured":
                msg = "a parent package of a configured name is instrumented"
            else:
                msg = "an unrelated module is instrumented"
            ctx.bad("C11.2", f, pred, f"{msg} (`{norm(pred)}` is {got} for the relation '{rel}')", construct=f"predicate wrong for '{rel}': {norm(pred)}")
    else:
        ctx.ok("C11.2", f.qualname, f"`{norm(pred)}` over {len(REL)} relation classes: true exactly for equal / sub-module")
    ctx.counters["predicate_relation_classes"] = len(REL)


# ------------------------------------------------------------------------ C11.3
def check_install_pairing(ctx):
    m = ctx.model
    inst = m.func("_import_hook.install_import_hook")
    ctx.saw(inst)
    inserts = [c for c in m.calls_in(inst) if norm(c.func) in ("sys.meta_path.insert", "sys.meta_path.append")]
    if len(inserts) != 1:
        ctx.bad("C11.3", inst, inst.node, f"install_import_hook inserts into sys.meta_path {len(inserts)} times", construct="sys.meta_path insertion count")
        return
    ins = inserts[0]
    if not (norm(ins.func).endswith(".insert") and isinstance(ins.args[0], ast.Constant) and ins.args[0].value == 0):
        ctx.bad("C11.3", inst, ins, "the hook is not inserted at position 0 of sys.meta_path: the ordinary PathFinder answers first and nothing is instrumented")
    hook = ins.args[-1]
    need(isinstance(hook, ast.Name), "C11.3: inserted hook is not a plain name")
    defs = c05._assignments_to(inst, hook.id)
    fresh = len(defs) == 1 and isinstance(defs[0][1], ast.Call) and m.resolve_call(inst, defs[0][1]).kind == "class" and m.resolve_call(inst, defs[0][1]).target.name == "_JaxtypingFinder"
    if not fresh:
        ctx.bad("C11.3", inst, ins, f"the object put on sys.meta_path (`{hook.id}`) is not a finder created by this very install call: two installs would share one "
                "finder, and uninstalling one removes the other's hook")
    else:
        ctx.ok("C11.3", inst.qualname, f"`{hook.id}` is a _JaxtypingFinder created by this call and inserted at position 0")
    # on every normal path the insertion happened and the manager wraps the same object
    rets = [x for x in walk_scope(inst.node) if isinstance(x, ast.Return)]
    for rt in rets:
        v = rt.value
        ok = isinstance(v, ast.Call) and m.resolve_call(inst, v).kind == "class" and m.resolve_call(inst, v).target.name == "ImportHookManager" \
            and len(v.args) == 1 and isinstance(v.args[0], ast.Name) and v.args[0].id == hook.id
        if not ok:
            ctx.bad("C11.3", inst, rt, f"install_import_hook returns `{short(v, 60)}`, not an ImportHookManager around the very finder it inserted (`{hook.id}`)")
        else:
            ctx.ok("C11.3", inst.qualname, "returns ImportHookManager(<the inserted finder>)")
    g = NoReturn(m).cfg(inst)
    ins_nodes = [n for n in g.live_nodes() if any(c is ins for c in node_calls(n))]
    dom = g.dominators()
    for n in g.live_nodes():
        if n.kind == "return" and not any(i.id in dom[n.id] for i in ins_nodes):
            ctx.bad("C11.3", inst, n.ast, "install_import_hook can return without having put a finder on sys.meta_path (the returned manager then controls "
                    "a hook that is not this call's own)")
    mgr = m.cls("_import_hook.ImportHookManager")
    init = need(mgr.methods.get("__init__"), "ImportHookManager.__init__ not found")
    un = need(mgr.methods.get("uninstall"), "ImportHookManager.uninstall not found")
    ex = need(mgr.methods.get("__exit__"), "ImportHookManager.__exit__ not found")
    for f_ in (init, un, ex):
        ctx.saw(f_)
    stores = {norm(t): norm(st.value) for st in walk_scope(init.node) if isinstance(st, ast.Assign) for t in st.targets}
    attr = [k for k, v in stores.items() if v == init.params[1]]
    if not attr:
        ctx.bad("C11.3", init, init.node, "the manager does not remember the hook it was given", construct="ImportHookManager.__init__")
        return
    attr_name = attr[0].split(".", 1)[1]
    rem = [c for c in m.calls_in(un) if norm(c.func) == "sys.meta_path.remove"]
    if len(rem) != 1 or norm(rem[0].args[0]) != f"{un.params[0]}.{attr_name}":
        ctx.bad("C11.3", un, un.node, f"uninstall does not remove exactly the stored hook (self.{attr_name}) from sys.meta_path", construct="uninstall: sys.meta_path.remove")
    else:
        ctx.ok("C11.3", un.qualname, f"removes self.{attr_name}, the object that install put on sys.meta_path")
    # __exit__ calls uninstall on every path and does not swallow
    g = NoReturn(m).cfg(ex)

    def transfer(node, st, kind, succ):
        if kind in NORMAL and any(isinstance(c.func, ast.Attribute) and c.func.attr == "uninstall" for c in node_calls(node)):
            return (True,)
        return (st,)

    fl = Flow(g, False, transfer)
    if any(not s for s in fl.states_at(g.exit)):
        ctx.bad("C11.3", ex, ex.node, "__exit__ can return without uninstalling the hook: modules imported after the with-block are still instrumented",
                construct="__exit__: path without uninstall")
    else:
        ctx.ok("C11.3", ex.qualname, "calls uninstall on every normal path")
    for rt in [x for x in walk_scope(ex.node) if isinstance(x, ast.Return) and x.value is not None]:
        if not (isinstance(rt.value, ast.Constant) and not rt.value.value):
            ctx.bad("C11.3", ex, rt, "__exit__ may swallow the exception of the with-block")
    # one insertion per install, one removal per uninstall: nothing else in the package puts a finder on sys.meta_path (a manager that
    # re-inserts its hook on __enter__ leaves a second entry behind that `uninstall` -- one `remove` -- does not take out: modules imported
    # after the with-block are still instrumented)
    extra = []
    for f2 in m.all_functions(include_typeguard=False):
        if f2 is inst:
            continue
        for c in m.calls_in(f2):
            if isinstance(c.func, ast.Attribute) and c.func.attr in ("insert", "append", "extend") and norm(c.func.value) == "sys.meta_path":
                extra.append((f2, c))
        for st in walk_scope(f2.node):
            tg = st.targets if isinstance(st, ast.Assign) else [st.target] if isinstance(st, ast.AugAssign) else []
            if any(norm(t).startswith("sys.meta_path") for t in tg):
                extra.append((f2, st))
    own = [c for c in m.calls_in(inst) if isinstance(c.func, ast.Attribute) and c.func.attr in ("insert", "append", "extend") and norm(c.func.value) == "sys.meta_path"]
    for f2, c in list(extra):
        if f2.name.startswith("__") and f2.name.endswith("__"):
            continue  # runs on a protocol event (entering a with-block, construction), not once per install
        # a helper that install_import_hook calls exactly once, in place of its own insertion, is install_import_hook's insertion
        sites = []
        for g2 in m.all_functions(include_typeguard=False):
            for c2 in m.calls_in(g2):
                t2 = m.resolve_call(g2, c2)
                if (t2.kind == "func" and t2.target.qualname == f2.qualname) or (t2.kind not in ("func", "class") and isinstance(c2.func, ast.Attribute) and c2.func.attr == f2.name):
                    sites.append((g2, c2))
        # ... and so is another installer: one insertion of `h`, then `return <manager class>(h)` -- the same pairing as install_import_hook
        ins_here = [c_ for f_, c_ in extra if f_ is f2]
        rets = [rt for rt in walk_scope(f2.node) if isinstance(rt, ast.Return)]
        inserted = ins_here[0].args[-1] if len(ins_here) == 1 and ins_here[0].args else None
        if isinstance(inserted, ast.Name) and rets and not any(isinstance(l_, (ast.For, ast.While)) for l_ in ast.walk(f2.node)) and all(
                isinstance(rt.value, ast.Call) and len(rt.value.args) == 1 and norm(rt.value.args[0]) == inserted.id
                and (m.resolve_call(f2, rt.value).kind == "class" or (isinstance(rt.value.func, ast.Name) and f2.params and rt.value.func.id == f2.params[0] and f2.cls is not None))
                for rt in rets):
            extra.remove((f2, c))
            ctx.ok("C11.3", f2.qualname, f"`{short(c, 50)}`: an installer of its own (one insertion, returns the manager that removes it)")
            continue
        in_loop = any(isinstance(l_, (ast.For, ast.While)) and any(x is sites[0][1] for x in ast.walk(l_)) for l_ in ast.walk(inst.node)) if len(sites) == 1 else False
        if len(sites) == 1 and sites[0][0] is inst and not own and not in_loop and len(extra) == 1:
            extra.remove((f2, c))
            ctx.ok("C11.3", f2.qualname, f"`{short(c, 50)}`: the one insertion of install_import_hook, made by the helper it calls once")
        else:
            raise AnalysisError(f"C11.3: `{short(c, 50)}` in {f2.qualname} puts a finder on sys.meta_path; how often that runs per install ({len(sites)} call sites) is not decided")
    for f2, c in extra:
        ctx.bad("C11.3", f2, c, f"`{short(c, 60)}` puts a finder on sys.meta_path outside install_import_hook: an entry that the single `remove` of uninstall() does not balance "
                "stays behind, so modules imported after the hook was \"uninstalled\" are still instrumented", construct=f"sys.meta_path insertion in {f2.name}")
    if not extra:
        ctx.ok("C11.3", inst.qualname, "install_import_hook is the only place that puts a finder on sys.meta_path")


# ------------------------------------------------------------------------ C11.4
def check_checker_flow(ctx):
    m = ctx.model
    inst = m.func("_import_hook.install_import_hook")
    tc_calls = [c for c in m.calls_in(inst) if m.resolve_call(inst, c).kind == "class" and m.resolve_call(inst, c).target.name == "Typechecker"]
    tcs = [st for st in walk_scope(inst.node) if isinstance(st, ast.Assign) and any(st.value is c for c in tc_calls)]
    if len(tc_calls) != 1:
        ctx.bad("C11.4", inst, inst.node, f"install_import_hook builds {len(tc_calls)} Typechecker objects (expected one per install)", construct="Typechecker(...) count")
        return
    tc_arg = tc_calls[0].args[0] if tc_calls[0].args else None
    if not (isinstance(tc_arg, ast.Name) and tc_arg.id == inst.params[1]):
        ctx.bad("C11.4", inst, tc_calls[0], "the Typechecker is not built from the `typechecker` argument of this install call")
    fcalls = [c for c in m.calls_in(inst) if m.resolve_call(inst, c).kind == "class" and m.resolve_call(inst, c).target.name == "_JaxtypingFinder"]
    if not tcs:
        # built in place as the finder's argument: `_JaxtypingFinder(modules, finder, Typechecker(typechecker))`
        if any(any(a is tc_calls[0] for a in list(c.args) + [k.value for k in c.keywords]) for c in fcalls):
            ctx.ok("C11.4", inst.qualname, "the Typechecker of this install call is built in place as the finder's argument")
            tv = None
        else:
            raise AnalysisError("C11.4: the Typechecker built by install_import_hook is neither bound to a name nor handed to the finder directly")
    else:
        tv = tcs[0].targets[0].id
    fc = m.cls("_import_hook._JaxtypingFinder")
    finit = fc.methods["__init__"]
    pidx = finit.params.index("typechecker") - 1 if "typechecker" in finit.params else 2
    for c in fcalls:
        got = c.args[pidx] if len(c.args) > pidx else next((k.value for k in c.keywords if k.arg == "typechecker"), None)
        if tv is None and got is tc_calls[0]:
            ctx.ok("C11.4", inst.qualname, "Typechecker(...) -> finder")
        elif not (isinstance(got, ast.Name) and got.id == tv):
            ctx.bad("C11.4", inst, c, f"the finder is given `{norm(got)}` as its checker, not the Typechecker built by this install call (`{tv}`): functions would be "
                    "checked by another install's checker")
        else:
            ctx.ok("C11.4", inst.qualname, f"Typechecker `{tv}` -> finder")
    stores = {norm(t): norm(st.value) for st in walk_scope(finit.node) if isinstance(st, ast.Assign) for t in st.targets}
    if stores.get(f"{finit.params[0]}._typechecker") != "typechecker":
        ctx.bad("C11.4", finit, finit.node, "the finder does not keep the checker it was given", construct="finder: self._typechecker = typechecker")
    fs = fc.methods["find_spec"]
    for c in m.calls_in(fs):
        t = m.resolve_call(fs, c)
        if t.kind == "class" and t.target.name == "_JaxtypingLoader":
            kw = {k.arg: norm(k.value) for k in c.keywords}
            if "typechecker" not in kw:
                raise AnalysisError(f"C11.4: `{short(c, 70)}` hands the loader no `typechecker` keyword; how the finder's checker reaches the loader was not followed")
            if kw.get("typechecker") != f"{fs.params[0]}._typechecker":
                ctx.bad("C11.4", fs, c, f"the loader is given `{kw.get('typechecker')}` as its checker, not the finder's own (self._typechecker)")
            else:
                ctx.ok("C11.4", fs.qualname, "finder's checker -> loader")
    ld = m.cls("_import_hook._JaxtypingLoader")
    linit = ld.methods["__init__"]
    stores = {norm(t): norm(st.value) for st in walk_scope(linit.node) if isinstance(st, ast.Assign) for t in st.targets}
    if "typechecker" not in linit.params:
        raise AnalysisError("C11.4: the loader's __init__ has no `typechecker` parameter; how it keeps its checker was not followed")
    if stores.get(f"{linit.params[0]}._typechecker") != "typechecker":
        ctx.bad("C11.4", linit, linit.node, "the loader does not keep the checker it was given", construct="loader: self._typechecker = typechecker")
    else:
        ctx.ok("C11.4", linit.qualname, "loader keeps its checker")
    n_use = 0
    for name, meth in ld.methods.items():
        for c in m.calls_in(meth):
            if isinstance(c.func, ast.Name) and c.func.id == "JaxtypingTransformer":
                n_use += 1
                kw = {k.arg: norm(k.value) for k in c.keywords}
                if kw.get("typechecker") != f"{meth.params[0]}._typechecker":
                    ctx.bad("C11.4", meth, c, "the transformer is not built with the loader's own checker")
                else:
                    ctx.ok("C11.4", meth.qualname, "transformer uses the loader's own checker")
            if isinstance(c.func, ast.Attribute) and c.func.attr == "get_hash":
                n_use += 1
                if norm(c.func.value) != f"{meth.params[0]}._typechecker":
                    ctx.bad("C11.4", meth, c, "the cache tag is not computed from the loader's own checker")
                else:
                    ctx.ok("C11.4", meth.qualname, "cache tag uses the loader's own checker")
    ctx.counters["checker_use_sites"] = n_use
    ctx.floor("C11.4", "checker_use_sites", 2)
    # no module-level / class-level "current checker"
    mod = m.module("_import_hook")
    for nm, vals in mod.assigns.items():
        for v in vals:
            if isinstance(v, ast.Call) and isinstance(v.func, ast.Name) and v.func.id == "Typechecker":
                ctx.bad("C11.4", (mod.relpath, mod.qualname), v, f"a module-level Typechecker (`{nm}`) exists: hooks would share one checker")


# ------------------------------------------------------------------------ C11.5
def check_front_ends(ctx):
    m = ctx.model
    pc = m.func("_pytest_plugin.pytest_configure")
    ctx.saw(pc)
    # the split of the option: (all but the last element -> packages, the last -> typechecker), in any of its spellings
    splits = []  # (packages expr text, typechecker name, statement, which end the checker is taken from)
    for st in walk_scope(pc.node):
        if not isinstance(st, ast.Assign) or len(st.targets) != 1:
            continue
        tg, v = st.targets[0], st.value
        if isinstance(tg, ast.Tuple) and any(isinstance(e, ast.Starred) for e in tg.elts):
            if len(tg.elts) == 2 and isinstance(tg.elts[0], ast.Starred) and isinstance(tg.elts[0].value, ast.Name) and isinstance(tg.elts[1], ast.Name):
                splits.append((tg.elts[0].value.id, tg.elts[1].id, st, "last"))
            elif len(tg.elts) == 2 and isinstance(tg.elts[1], ast.Starred) and isinstance(tg.elts[1].value, ast.Name) and isinstance(tg.elts[0], ast.Name):
                splits.append((tg.elts[1].value.id, tg.elts[0].id, st, "first"))
            else:
                raise AnalysisError(f"C11.5: the starred unpacking `{short(st, 60)}` of the pytest option has a form the rule does not read")
        elif isinstance(tg, ast.Name) and isinstance(v, ast.Call) and isinstance(v.func, ast.Attribute) and v.func.attr == "pop" and isinstance(v.func.value, ast.Name) and not v.keywords:
            # `typechecker = packages.pop()`: the list keeps all but the last
            if not v.args or (isinstance(v.args[0], ast.UnaryOp) and isinstance(v.args[0].op, ast.USub) and isinstance(v.args[0].operand, ast.Constant) and v.args[0].operand.value == 1):
                splits.append((v.func.value.id, tg.id, st, "last"))
            elif isinstance(v.args[0], ast.Constant) and v.args[0].value == 0:
                splits.append((v.func.value.id, tg.id, st, "first"))
    calls = [c for c in m.calls_in(pc) if m.resolve_call(pc, c).kind == "func" and m.resolve_call(pc, c).target.name == "install_import_hook"]
    if len(splits) != 1 or len(calls) != 1:
        if any(isinstance(n_, ast.Subscript) and isinstance(n_.slice, (ast.Slice, ast.UnaryOp)) for n_ in walk_scope(pc.node)):
            raise AnalysisError("C11.5: the pytest option is split by indexing / slicing, a form the rule does not read")
        if not splits and calls:
            ctx.bad("C11.5", pc, pc.node, "the pytest option is not split into (all but last -> packages, last -> typechecker) and passed to install_import_hook in that order",
                    construct="pytest_configure wiring")
        else:
            raise AnalysisError(f"C11.5: expected one split of the pytest option and one install_import_hook call, found {len(splits)} and {len(calls)}")
    else:
        pk, tcn, st_, end = splits[0]
        c = calls[0]
        bound = {}
        for nm_, a_ in zip(("modules", "typechecker"), c.args):
            bound[nm_] = norm(a_)
        for k in c.keywords:
            if k.arg:
                bound[k.arg] = norm(k.value)
        if end == "last" and bound.get("modules") == pk and bound.get("typechecker") == tcn:
            ctx.ok("C11.5", pc.qualname, f"pytest option: `{short(st_, 50)}`; install_import_hook({pk}, {tcn})")
        else:
            ctx.bad("C11.5", pc, st_ if end != "last" else c, "the pytest option is not split into (all but last -> packages, last -> typechecker) and passed to install_import_hook in that order",
                    construct="pytest_configure wiring")
    # nothing the plugin does before `install_import_hook(..)` may import a module named by the user (validating the typechecker by importing its
    # root package loads that package -- and whatever its __init__ imports -- while no hook is on sys.meta_path: a named package is then
    # silently left unmodified)
    pc_fn = next((f2 for f2 in m.all_functions(include_typeguard=False) if f2.module.short == "_pytest_plugin" and f2.name == "pytest_configure"), None)
    if pc_fn is not None:
        inst_calls = [c for c in m.calls_in(pc_fn) if norm(c.func).split(".")[-1] == "install_import_hook"]
        first_install = min((c.lineno for c in inst_calls), default=None)
        for c in m.calls_in(pc_fn):
            nm_ = norm(c.func)
            if nm_ in ("importlib.import_module", "import_module", "__import__", "pkgutil.resolve_name", "importlib.util.find_spec", "find_spec") and c.args \
                    and not isinstance(c.args[0], ast.Constant) and (first_install is None or c.lineno < first_install):
                ctx.bad("C11.5", pc_fn, c, f"`{short(c, 60)}` imports (or resolves, which imports the parent packages of) a module named on the command line before the hook is installed: "
                        "if it lies in -- or pulls in -- one of the named packages, that package is loaded unmodified and stays so", construct="user-named import before install_import_hook")
    # the plugin may take its hook down again only if it knows the hook is *its own session's*: a manager kept in a module-level variable is
    # shared by every pytest session of the process (pytester / nested `pytest.main`), so an inner session's teardown uninstalls the outer
    # session's hook and packages named there load uninstrumented afterwards
    pmod = m.module("_pytest_plugin")
    for f2 in m.all_functions(include_typeguard=False):
        if f2.module is not pmod:
            continue
        for c in m.calls_in(f2):
            if isinstance(c.func, ast.Attribute) and c.func.attr in ("uninstall", "__exit__"):
                root = c.func.value
                while isinstance(root, (ast.Attribute, ast.Subscript)):
                    root = root.value
                if isinstance(root, ast.Name) and (m.resolve_name(f2, root.id).kind in ("modvar", "global") or any(isinstance(g_, ast.Global) and root.id in g_.names for g_ in ast.walk(f2.node))):
                    ctx.bad("C11.5", f2, c, f"`{short(c, 50)}` uninstalls a hook kept in the module-level `{root.id}`: that variable belongs to the process, not to the pytest session -- "
                            "a nested in-process session tears down the hook of the session that encloses it", construct=f"pytest plugin uninstalls process-wide hook {root.id}")
    magic = None
    for q, f in m.functions.items():
        if q.startswith("_ipython_extension") and f.name == "typechecker":
            magic = f
    need(magic, "IPython magic function not found")
    ctx.saw(magic)
    # all simple statements of the magic, in source order (the removal may sit under a guard)
    stmts = sorted([x for x in ast.walk(magic.node) if isinstance(x, (ast.Assign, ast.AugAssign, ast.Expr, ast.Delete))], key=lambda x: (x.lineno, x.col_offset))
    rm_idx = add_idx = None
    touched = []  # statements that re-bind / mutate the transformer list in some other way
    new_tr = {a.targets[0].id for a in stmts if isinstance(a, ast.Assign) and len(a.targets) == 1 and isinstance(a.targets[0], ast.Name)
              and "JaxtypingTransformer(typechecker=Typechecker(" in norm(a.value)}
    for i, st in enumerate(stmts):
        txt = norm(st)
        rebinding = isinstance(st, (ast.Assign, ast.AugAssign)) and any("ast_transformers" in norm(t) for t in (st.targets if isinstance(st, ast.Assign) else [st.target]))
        filtering = "JaxtypingTransformer" in txt and "isinstance" in txt and ("filter" in txt or any(isinstance(x, (ast.ListComp, ast.GeneratorExp)) for x in ast.walk(st)))
        if rebinding and filtering and isinstance(st, ast.Assign):
            rm_idx = i
        elif rebinding or ("ast_transformers" in txt and any(w in txt for w in (".remove(", ".pop(", ".clear(", "del "))):
            touched.append(st)
        if "ast_transformers.append" in txt and ("JaxtypingTransformer(typechecker=Typechecker(" in txt or any(
                isinstance(c_, ast.Call) and isinstance(c_.func, ast.Attribute) and c_.func.attr == "append" and c_.args and isinstance(c_.args[0], ast.Name) and c_.args[0].id in new_tr
                for c_ in ast.walk(st))):
            add_idx = i
    if add_idx is None:
        raise AnalysisError("C11.5: the IPython magic no longer appends JaxtypingTransformer(typechecker=Typechecker(..)) in a recognised form")
    if rm_idx is None and touched:
        # a filter that keeps everything but ONE remembered object (`t is not self._transformer`) removes only what
        # this Magics instance installed itself: a transformer left by an earlier instance (%reload_ext) survives
        for st in touched:
            conds = [i_ for x in ast.walk(st) if isinstance(x, ast.comprehension) for i_ in x.ifs] + [x.body for x in ast.walk(st) if isinstance(x, ast.Lambda)]
            ident = [c_ for c_ in conds if isinstance(c_, ast.Compare) and len(c_.ops) == 1 and isinstance(c_.ops[0], (ast.Is, ast.IsNot, ast.Eq, ast.NotEq))
                     and not any(isinstance(y, ast.Call) and norm(y.func) == "isinstance" for y in ast.walk(c_))]
            removes_one = [c_ for c_ in ast.walk(st) if isinstance(c_, ast.Call) and isinstance(c_.func, ast.Attribute) and c_.func.attr == "remove"
                           and "ast_transformers" in norm(c_.func.value) and c_.args and not isinstance(c_.args[0], ast.Call)]
            if removes_one and not ident:
                ident = [removes_one[0]]
            if ident:
                ctx.bad("C11.5", magic, st, f"the IPython magic removes only the transformer it remembers (`{short(ident[0], 50)}`), not every JaxtypingTransformer: one installed "
                        "by an earlier instance of the magics (after %reload_ext) stays, so cells are instrumented twice / by the old checker",
                        construct=f"magic: removal by identity {short(ident[0], 50)}")
                return
        raise AnalysisError(f"C11.5: the IPython magic changes the transformer list by `{short(touched[0], 70)}`, which is not recognised as the removal of earlier JaxtypingTransformers")
    if rm_idx is None or rm_idx > add_idx:
        ctx.bad("C11.5", magic, magic.node, "the IPython magic does not remove an earlier JaxtypingTransformer before adding the new one: cells would be instrumented twice / "
                "by the old checker", construct="magic: remove old, then append new")
    else:
        neg = "not isinstance" in norm(stmts[rm_idx])
        if not neg:
            ctx.bad("C11.5", magic, stmts[rm_idx], "the filter keeps the old JaxtypingTransformers instead of removing them")
        else:
            ctx.ok("C11.5", magic.qualname, "old transformers removed, then JaxtypingTransformer(typechecker=Typechecker(<arg>)) appended")
