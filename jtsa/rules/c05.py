"""C05 -- bindings live exactly as long as one jaxtyped call / context block.

Decided structurally (all paths, all three exits -- return, Exception, BaseException):
  C05.1 push/pop typestate: every function that (transitively) pushes a binding context
        leaves the stack exactly as it found it on every path to every exit;
        helpers with a consistent non-zero effect are summarised and their callers checked.
  C05.2 context-manager pairing: __enter__ ends pushed (+1) on every normal path and
        unpushed on every raising path; __exit__ pops exactly once on every path,
        unconditionally, and returns a falsy constant.
  C05.3 no yield / await while a context pushed by the same activation is open.
  C05.4 storage discipline of the five _storage primitives (fresh dicts, copied
        arguments, pop of the last element, throw-away dicts outside any context,
        replace-top only when a context exists) and ownership census: nobody else
        mutates the thread-local stack.
Not decided: nothing value-level is involved in this property beyond these shapes.
"""
from __future__ import annotations

import ast

from ..callgraph import CallGraph
from ..core import region, AnalysisError, RuleContext, need, norm, short
from ..model import FuncInfo, dotted_of, walk_scope
from ..roles import node_calls, roles_for
from ..typestate import NoReturn, StackBalance

EXPLANATION = __doc__


def run(ctx: RuleContext):
    m = ctx.model
    r = roles_for(m)
    sb = StackBalance(m, r)
    cg = CallGraph(m)
    ctx.sub(check_balance, ctx, sb, cg, "C05")
    ctx.sub(check_context_block_starts_empty, ctx, r)
    ctx.sub(check_storage_discipline, ctx, r)
    ctx.sub(check_passthrough_guard, ctx, r)
    ctx.sub(check_push_cannot_fail_after_append, ctx, r)
    ctx.sub(check_only_innermost_frame_is_read, ctx, r)
    ctx.sub(check_no_frame_state_beside_the_stack, ctx, r)
    ctx.sub(check_generator_detection_unwraps_fully, ctx)


# ------------------------------------------------------------------------ C05.5
def check_context_block_starts_empty(ctx: RuleContext, r, tag="C05.6"):
    """A `jaxtyped("context")` block has no arguments of its own: the frame it opens starts with an *empty* argument
    memo (and empty bindings), so that `{name}` axes inside the block cannot see the arguments of whatever call
    happens to be active around it."""
    m = ctx.model
    cc = m.cls("_decorator._JaxtypingContext")
    enter = need(m.lookup_method(cc, "__enter__"), "_JaxtypingContext.__enter__ not found")
    ctx.saw(enter)

    def empty_dict(e):
        return (isinstance(e, ast.Dict) and not e.keys) or (isinstance(e, ast.Call) and isinstance(e.func, ast.Name) and e.func.id == "dict" and not e.args and not e.keywords)

    def trace(scope, e, depth=0):
        """'empty' | 'context' | None (unknown) for the value pushed as the argument memo"""
        if empty_dict(e):
            return "empty"
        if depth > 3:
            return None
        if any(isinstance(c, ast.Call) and r.role_of_call(scope, c) == "get_shape_memo" for c in ast.walk(e)):
            return "context"
        if isinstance(e, ast.Name):
            defs = _assignments_to(scope, e.id)
            if defs and e.id not in scope.params:
                res = {trace(scope, d[1], depth + 1) if d[1] is not None else None for d in defs}
                # unpacked from the current frame (`*_, arguments = get_shape_memo()`)
                for d in defs:
                    if d[1] is not None and any(isinstance(c, ast.Call) and r.role_of_call(scope, c) == "get_shape_memo" for c in ast.walk(d[1])):
                        return "context"
                return res.pop() if len(res) == 1 else None
            return None
        if isinstance(e, ast.Attribute) and isinstance(e.value, ast.Name) and scope.cls is not None and scope.params and e.value.id == scope.params[0]:
            # a field set by a constructor: follow what the context class's own constructor passes for it
            owner = scope.cls
            vals = m.instance_attr_values(owner, e.attr)
            outs = set()
            for ofn, v in vals:
                if isinstance(v, ast.Name) and v.id in ofn.params:
                    idx = ofn.params.index(v.id) - 1
                    ini = cc.methods.get("__init__")
                    if ini is None:
                        return None
                    sup = [c for c in m.calls_in(ini) if isinstance(c.func, ast.Attribute) and c.func.attr == "__init__"]
                    if len(sup) != 1 or idx >= len(sup[0].args):
                        return None
                    outs.add(trace(ini, sup[0].args[idx], depth + 1))
                else:
                    outs.add(trace(ofn, v, depth + 1) if v is not None else None)
            return outs.pop() if len(outs) == 1 else None
        return None

    fns = list(region(m, enter, depth=2, skip_modules=()))
    # `super().__enter__()`: the __enter__ of the bases
    for k in m.mro(cc)[1:]:
        if hasattr(k, "methods") and "__enter__" in k.methods and k.methods["__enter__"] not in fns:
            fns += [h_ for h_ in region(m, k.methods["__enter__"], depth=2, skip_modules=()) if h_ not in fns]
    fns = [h_ for h_ in fns if h_ is not r.push]
    pushes = [c for h_ in fns for c in m.calls_in(h_) if r.role_of_call(h_, c) == "push_shape_memo"]
    scopes = {id(c): h_ for h_ in fns for c in m.calls_in(h_)}
    need(pushes, f"{tag}: the push of the context block's frame was not found from _JaxtypingContext.__enter__")
    for c in pushes:
        arg = c.args[0] if c.args else None
        v = trace(scopes[id(c)], arg) if arg is not None else None
        if v == "empty":
            ctx.ok(tag, enter.qualname, "the context block opens a frame with an empty argument memo")
        elif v == "context":
            ctx.bad(tag, scopes[id(c)], c, f"the context block's frame is opened with `{short(arg, 50)}`, taken from the frame that is current when the block is entered: "
                    "`{name}` axes inside the block see the arguments of the enclosing call", construct="context block inherits the enclosing arguments")
        else:
            raise AnalysisError(f"{tag}: what the context block pushes as its argument memo (`{short(arg, 50) if arg is not None else '?'}`) could not be traced")


def check_passthrough_guard(ctx: RuleContext, r):
    """The only way a new-style wrapper may run the body *without* a binding context of its own is the
    pass-through taken when checking is switched off.  A further reason to take it that is decided from a
    property of the decorated function (no annotations, a private name, ...) means: for such functions,
    manual `isinstance` checks in the body bind into -- and read from -- the caller's context."""
    from .c19 import _atoms_of, is_passthrough_call, new_style_wrappers

    m = ctx.model
    jt = m.func("_decorator.jaxtyped")
    n = 0
    for w, impl in new_style_wrappers(m, r):
        g = NoReturn(m).cfg(w)
        for tn in g.live_nodes():
            if tn.kind != "test":
                continue
            if not any(k in ("t", "f") and s_.kind == "return" and is_passthrough_call(s_.ast.value) for k, s_ in tn.succ):
                continue
            n += 1
            for a in _atoms_of(tn.ast):
                if isinstance(a, ast.Name):
                    b = m.resolve_name(w, a.id)
                    if b.kind == "freevar":
                        defs = [st for st in walk_scope(jt.node) if isinstance(st, (ast.Assign, ast.AnnAssign)) and any(
                            isinstance(t, ast.Name) and t.id == a.id for t in (st.targets if isinstance(st, ast.Assign) else [st.target]))]
                        reads_switch = any(isinstance(x, ast.Attribute) and x.attr in ("jaxtyping_disable", "__no_type_check__") or
                                           (isinstance(x, ast.Constant) and x.value == "__no_type_check__") for st in defs for x in ast.walk(st))
                        if defs and not reads_switch:
                            ctx.bad("C05.5", w, tn.ast, f"the wrapper also skips its binding context when `{a.id}` holds (`{short(defs[0], 60)}`, decided when the function was "
                                    "decorated): for those functions a manual isinstance check in the body binds into the caller's context and sees the caller's bindings",
                                    construct=f"pass-through guard has a non-switch reason: {a.id}")
            ctx.ok("C05.5", w.qualname, f"pass-through guard `{short(tn.ast, 70)}` examined")
    ctx.counters["passthrough_guards"] = n


# ---------------------------------------------------------------------- C05.1-3
def check_balance(ctx: RuleContext, sb: StackBalance, cg: CallGraph, tag: str):
    m = ctx.model
    push_q, pop_q = sb.push_q, sb.pop_q
    n_push_sites = len(cg.sites.get(push_q, []))
    n_pop_sites = len(cg.sites.get(pop_q, []))
    ctx.counters["push_call_sites"] = n_push_sites
    ctx.counters["pop_call_sites"] = n_pop_sites
    # (the two wrapper flavours and the context class may share one push site -- a scope class used by all of
    # them -- so the vacuity floor is on the activations that must be balanced, counted below)
    ctx.floor(f"{tag}.1", "push_call_sites", 1)
    ctx.floor(f"{tag}.1", "pop_call_sites", 1)
    activations = 0

    cm_classes = 0
    for f in m.all_functions():
        s = sb.summary(f)
        if s is None or not s.touches or f.qualname in (push_q, pop_q):
            continue
        ctx.saw(f)
        g, fl = s.cfg, s.flow
        st = g.stats()
        ctx.count("cfg_nodes", st["nodes"])
        ctx.count("cfg_edges", st["edges"])
        name = f.name
        is_cm = f.cls is not None and name in ("__enter__", "__exit__", "__aenter__", "__aexit__")
        if is_cm:
            if name in ("__enter__", "__aenter__"):
                cm_classes += 1
                _expect(ctx, f"{tag}.2", f, s, normal={1}, exc={0},
                        what="__enter__ must end with exactly one context pushed on every normal "
                             "path and none on every raising path")
            else:
                _expect(ctx, f"{tag}.2", f, s, normal={-1}, exc={-1},
                        what="__exit__ must pop exactly one context on every path (unconditionally)")
                for n in walk_scope(f.node):
                    if isinstance(n, ast.Return) and n.value is not None:
                        v = n.value
                        if not (isinstance(v, ast.Constant) and not v.value):
                            ctx.bad(f"{tag}.2", f, n, "__exit__ may return a truthy value and swallow "
                                    "the exception of the block")
                ctx.ok(f"{tag}.2", f.qualname, "__exit__ returns a falsy constant on every path")
            continue
        helper = bool(cg.callers(f)) and f.qualname not in cg.escapes
        if helper and len(s.normal) == 1 and s.exc <= {0}:
            ctx.ok(f"{tag}.1", f.qualname,
                   f"helper with consistent effect {sorted(s.normal)} on return and 0 on raise; callers are checked")
            continue
        activations += 1
        _expect(ctx, f"{tag}.1", f, s, normal={0}, exc={0},
                what="a binding context pushed by this activation must be popped exactly once "
                     "on every path to every exit (return, Exception, BaseException)")
        # C05.3
        bad_susp = False
        for n in g.live_nodes():
            if n.ast is None:
                continue
            asts = [n.ast] if n.kind not in ("def",) else []
            for a in asts:
                susp = [x for x in _own_walk(a) if isinstance(x, (ast.Yield, ast.YieldFrom, ast.Await))]
                if not susp:
                    continue
                for stt in fl.states_at(n):
                    if stt > 0:
                        bad_susp = True
                        ctx.bad(f"{tag}.3", f, n.ast,
                                "suspension point (yield/await) while a binding context pushed by "
                                "this activation is still open: the context would stay on the "
                                "thread's stack while the caller's code runs",
                                path=fl.witness(n, stt))
        if not bad_susp:
            ctx.ok(f"{tag}.3", f.qualname, "no yield/await between a push and its pop")
    ctx.counters["balanced_activations"] = activations
    ctx.floor(f"{tag}.1", "balanced_activations", 2)
    ctx.counters["context_manager_classes"] = cm_classes
    ctx.floor(f"{tag}.2", "context_manager_classes", 1)


def _own_walk(a):
    stack = [a]
    while stack:
        n = stack.pop()
        yield n
        if isinstance(n, (ast.FunctionDef, ast.AsyncFunctionDef, ast.ClassDef, ast.Lambda)) and n is not a:
            continue
        stack.extend(ast.iter_child_nodes(n))


def _expect(ctx, rule, f, s, normal, exc, what):
    g, fl = s.cfg, s.flow
    ok = True
    for ex, allowed, label in ((g.exit, normal, "normal exit"), (g.exit_e, exc, "Exception exit"),
                               (g.exit_b, exc, "BaseException exit")):
        for stt in sorted(fl.states_at(ex)):
            if stt not in allowed:
                ok = False
                path = fl.witness(ex, stt)
                # name the construct: the last real statement on the witness path
                last = _last_stmt_on_path(fl, ex, stt)
                ctx.bad(rule, f, last if last is not None else f.node,
                        f"{what}; on a path to the {label} the stack delta is {stt:+d} "
                        f"(allowed {sorted(allowed)})",
                        path=path,
                        construct=f"{label}: delta {stt:+d} via {short(last, 120) if last is not None else '?'}")
    if ok:
        ctx.ok(rule, f.qualname,
               f"stack delta on all paths: normal {sorted(fl.states_at(g.exit))}, "
               f"Exception {sorted(fl.states_at(g.exit_e))}, BaseException {sorted(fl.states_at(g.exit_b))}")
    return ok


def _last_stmt_on_path(fl, node, state):
    key = (node.id, state)
    while key is not None:
        p = fl.pred.get(key)
        if p is None:
            return None
        n = fl.cfg.nodes[p[0]]
        if n.ast is not None and n.kind not in ("dispatch", "finally", "unwind", "handler"):
            return n.ast if not isinstance(n.ast, ast.expr) else n.ast
        key = (p[0], p[1])
    return None


# ------------------------------------------------------------------------ C05.4
def _is_fresh_dict(e) -> bool:
    if isinstance(e, ast.Dict) and not e.keys:
        return True
    if isinstance(e, ast.Call) and isinstance(e.func, ast.Name) and e.func.id == "dict" and not e.args and not e.keywords:
        return True
    return False


def _is_copy_of(e, names) -> bool:
    """`p.copy()`, `dict(p)`, `{**p}`, `copy.copy(p)` for a name p in names."""
    if isinstance(e, ast.Call):
        if isinstance(e.func, ast.Attribute) and e.func.attr == "copy" and isinstance(e.func.value, ast.Name):
            return e.func.value.id in names and not e.args
        if isinstance(e.func, ast.Name) and e.func.id == "dict" and len(e.args) == 1 and isinstance(e.args[0], ast.Name):
            return e.args[0].id in names
        if dotted_of(e.func) in ("copy.copy", "copy.deepcopy") and len(e.args) == 1 and isinstance(e.args[0], ast.Name):
            return e.args[0].id in names
    if isinstance(e, ast.Dict) and len(e.keys) == 1 and e.keys[0] is None and isinstance(e.values[0], ast.Name):
        return e.values[0].id in names
    return False


def _assignments_to(fn: FuncInfo, name: str) -> list:
    """(target_node, value_node, index_in_tuple|None) for every binding of `name`."""
    out = []
    for n in walk_scope(fn.node):
        if isinstance(n, ast.Assign):
            for t in n.targets:
                if isinstance(t, ast.Name) and t.id == name:
                    out.append((n, n.value, None))
                elif isinstance(t, (ast.Tuple, ast.List)):
                    for i, el in enumerate(t.elts):
                        if isinstance(el, ast.Name) and el.id == name:
                            out.append((n, n.value, i))
        elif isinstance(n, ast.AnnAssign) and isinstance(n.target, ast.Name) and n.target.id == name:
            out.append((n, n.value, None))
    return out


def _index_is_top(sub: ast.Subscript) -> bool:
    s = sub.slice
    return isinstance(s, ast.UnaryOp) and isinstance(s.op, ast.USub) and isinstance(s.operand, ast.Constant) and s.operand.value == 1


def follow_delegate(model, fn: FuncInfo, depth: int = 0) -> FuncInfo:
    """A function whose whole body is `return g(...)` / `g(...)` for an internal g merely
    delegates: the role is g's (`push_shape_memo -> _stack.push`)."""
    body = [st for st in fn.body if not (isinstance(st, ast.Expr) and isinstance(st.value, ast.Constant))]
    if depth < 3 and len(body) == 1 and isinstance(body[0], (ast.Return, ast.Expr)) and isinstance(body[0].value, ast.Call):
        t = model.resolve_call(fn, body[0].value)
        if t.kind == "func" and t.target is not fn:
            return follow_delegate(model, t.target, depth + 1)
    return fn


def locate_stack(r):
    """The thread-local attribute that holds the context stack: the one the push primitive
    (push_shape_memo, or the function it delegates to) appends to."""
    push = follow_delegate(r.m, r.push)
    al = r.local_aliases(push)
    stack_tl, stack_attr = None, None
    appended = None
    for n in walk_scope(push.node):
        if isinstance(n, ast.Call) and isinstance(n.func, ast.Attribute) and n.func.attr == "append":
            t = r.tl_of_expr(push, n.func.value, al)
            if t is not None and t[1]:
                stack_tl, stack_attr = t[0], t[1][0]
                appended = n
    need(appended is not None, "push_shape_memo no longer appends to a thread-local stack (role lost)")
    return stack_tl, stack_attr, appended


def _returns_of(fn: FuncInfo) -> list:
    return [n for n in walk_scope(fn.node) if isinstance(n, ast.Return)]


def is_top_expr(r, fn: FuncInfo, e, al=None, depth: int = 0) -> bool:
    """`<stack>[-1]`, a name bound once to it, or a call of an internal helper every return of
    which is the top of the stack (or None: 'no context')."""
    if al is None:
        al = r.local_aliases(fn)
    if isinstance(e, ast.Subscript):
        t = r.tl_of_expr(fn, e.value, al)
        return t is not None and _index_is_top(e)
    if isinstance(e, ast.Name) and depth < 3:
        d = _assignments_to(fn, e.id)
        if not d or any(x[2] is not None or x[1] is None for x in d):
            return False
        # every definition is the top of the stack, or None ('no context' -- the caller tests for it)
        vals = [x[1] for x in d if not (isinstance(x[1], ast.Constant) and x[1].value is None)]
        return bool(vals) and all(is_top_expr(r, fn, v, al, depth + 1) for v in vals)
    if isinstance(e, ast.Call) and depth < 3:
        t = r.m.resolve_call(fn, e)
        if t.kind == "func" and t.target is not fn:
            rets = _returns_of(t.target)
            vals = [x.value for x in rets if not (x.value is None or (isinstance(x.value, ast.Constant) and x.value.value is None))]
            return bool(vals) and all(is_top_expr(r, t.target, v, None, depth + 1) for v in vals)
    return False


def _not_top_frame(r, fn: FuncInfo, e, al):
    """A name some definition of which is `<stack>[<constant other than -1>]`: the offending subscript, else None."""
    if not isinstance(e, ast.Name):
        return None
    for d in _assignments_to(fn, e.id):
        v = d[1]
        if d[2] is None and isinstance(v, ast.Subscript) and r.tl_of_expr(fn, v.value, al) is not None and not _index_is_top(v) \
                and isinstance(v.slice, (ast.Constant, ast.UnaryOp)):
            return v
    return None


def reads_stack_only(r, fn: FuncInfo, stack_tl, stack_attr) -> bool:
    """A helper that only inspects the stack (hasattr/len/top-or-None): usable as the
    'a context exists' test."""
    touched = False
    for o in r.ops:
        if o.fn is fn and o.tl == stack_tl:
            if o.op != "load":
                return False
            touched = True
    return touched


def check_storage_discipline(ctx: RuleContext, r, tag: str = "C05.4"):
    m = ctx.model
    need(len(r.thread_locals) >= 1, "no threading.local() storage object found")
    # the API functions may delegate to primitives (methods of a small stack class ...)
    push, pop, get, set_ = (follow_delegate(m, f) for f in (r.push, r.pop, r.get, r.set))
    for f in (push, pop, get, set_):
        ctx.saw(f)
    stack_tl, stack_attr, appended = locate_stack(r)
    ctx.ok(tag, push.qualname, f"appends to thread-local {stack_tl[1]}.{stack_attr}")

    # --- push: tuple of fresh dicts + copy of the arguments
    arg = appended.args[0] if appended.args else None
    tup = arg
    if isinstance(arg, ast.Name):
        asg = _assignments_to(push, arg.id)
        need(len(asg) == 1, f"push_shape_memo: `{arg.id}` has {len(asg)} definitions (expected one)")
        tup = asg[0][1]
    if not isinstance(tup, ast.Tuple) or len(tup.elts) != 4:
        raise AnalysisError("push_shape_memo: the pushed context is not a 4-tuple display (shape not recognised)")
    params = set(push.params)
    for i, el in enumerate(tup.elts):
        if i < 3:
            if _is_fresh_dict(el):
                ctx.ok(tag, push.qualname, f"context slot {i} is a fresh dict created by this call")
            else:
                ctx.bad(tag, push, el, f"slot {i} of a new binding context is not a fresh empty dict: "
                        "bindings would be shared between contexts")
        else:
            if _is_copy_of(el, params):
                ctx.ok(tag, push.qualname, "the {argument} table is a copy of the caller's dict")
            elif _is_fresh_dict(el):
                ctx.bad(tag, push, el, "the argument values of the call are not stored in the context")
            else:
                ctx.bad(tag, push, el, "the {argument} table of a new context aliases the caller's "
                        "dict instead of copying it")

    # --- pop: pops the last element of the same stack
    pops = []
    for n in walk_scope(pop.node):
        if isinstance(n, ast.Call) and isinstance(n.func, ast.Attribute) and n.func.attr == "pop":
            t = r.tl_of_expr(pop, n.func.value, r.local_aliases(pop))
            if t is not None and t[1]:
                pops.append((n, t))
    need(len(pops) >= 1, "pop_shape_memo no longer pops a thread-local stack (role lost)")
    for n, t in pops:
        if (t[0], t[1][0]) != (stack_tl, stack_attr):
            ctx.bad(tag, pop, n, "pop_shape_memo pops a different object than push_shape_memo appends to")
        elif n.args and not (isinstance(n.args[0], ast.UnaryOp) and isinstance(n.args[0].op, ast.USub)
                             and isinstance(n.args[0].operand, ast.Constant) and n.args[0].operand.value == 1):
            ctx.bad(tag, pop, n, "pop_shape_memo does not remove the most recent context (LIFO broken)")
        else:
            ctx.ok(tag, pop.qualname, "pops the last element of the stack push appends to")
    if len(pops) != 1:
        ctx.bad(tag, pop, pop.node, f"pop_shape_memo pops {len(pops)} times")
    # pop must be trivial: no branching (the typestate treats its exceptional edge as post-state)
    for n in walk_scope(pop.node):
        if isinstance(n, (ast.If, ast.Try, ast.For, ast.While, ast.With)):
            ctx.bad(tag, pop, n, "pop_shape_memo is no longer a single unconditional pop")

    # --- get: -1 index; throw-away dicts outside any context
    rets = _returns_of(get)
    need(rets, "get_shape_memo has no return")
    gal = r.local_aliases(get)
    for rt in rets:
        v = rt.value
        if not (isinstance(v, ast.Tuple) and len(v.elts) == 4 and all(isinstance(e, ast.Name) for e in v.elts)):
            if v is not None and is_top_expr(r, get, v, gal):
                ctx.ok(tag, get.qualname, "returns the top of the stack")
                continue
            if isinstance(v, ast.Tuple) and len(v.elts) == 4 and all(_is_fresh_dict(e) for e in v.elts):
                ctx.ok(tag, get.qualname, "outside any context: four throw-away dicts created by this call")
                continue
            raise AnalysisError("get_shape_memo: return value is not a 4-tuple of names (shape not recognised)")
        for i, e in enumerate(v.elts):
            defs = _assignments_to(get, e.id)
            need(defs, f"get_shape_memo: `{e.id}` has no definition")
            for stn, val, idx in defs:
                if idx is not None:
                    # unpacking of the stack top
                    if is_top_expr(r, get, val, gal):
                        if idx != i:
                            ctx.bad(tag, get, stn, "get_shape_memo returns the memo slots in a different order than stored")
                        else:
                            ctx.ok(tag, get.qualname, f"slot {i} read from the top of the stack")
                    elif isinstance(val, ast.Subscript) and r.tl_of_expr(get, val.value, gal):
                        ctx.bad(tag, get, val, "get_shape_memo reads a context other than the innermost one")
                    elif isinstance(val, ast.Name) and _not_top_frame(r, get, val, gal):
                        ctx.bad(tag, get, _not_top_frame(r, get, val, gal), "get_shape_memo reads a context other than the innermost one")
                    else:
                        raise AnalysisError(f"get_shape_memo: unrecognised source for `{e.id}`: {norm(val)}")
                else:
                    if _is_fresh_dict(val):
                        ctx.ok(tag, get.qualname, f"outside any context slot {i} is a throw-away dict created by this call")
                    else:
                        ctx.bad(tag, get, stn, f"outside any context, memo slot {i} is not a dict created by this call: "
                                "checks outside every context would no longer be stateless")

    # --- set: replace top only when a context exists
    _check_set(ctx, r, set_, stack_tl, stack_attr, tag)

    # --- ownership census
    allowed = {
        push.qualname: {"call:append", "store"},
        pop.qualname: {"call:pop"},
        set_.qualname: {"store", "call:clear", "call:update"},
    }
    n_ops = 0
    for o in r.ops:
        if o.op == "load" or o.tl != stack_tl:
            continue
        n_ops += 1
        q = o.fn.qualname
        if o.op in allowed.get(q, ()):  # expected mutation by its owner
            ctx.ok(tag, q, f"owner operation {o.op} on {o.tl[1]}.{o.attr}")
        else:
            ctx.bad(tag, o.fn, o.node, f"the binding-context stack is mutated ({o.op} on {o.tl[1]}.{o.attr}) outside "
                    "its owner functions push/pop/set_shape_memo")
    ctx.counters["stack_mutation_sites"] = n_ops
    ctx.floor(tag, "stack_mutation_sites", 2)
    # the thread-local must only be referenced from its own module
    for mod in m.modules.values():
        if mod.short == stack_tl[0]:
            continue
        nm = stack_tl[1].split(".")[0]
        if mod.imports.get(nm, "").endswith("." + nm) and mod.imports[nm].startswith("jaxtyping._storage") and "." not in stack_tl[1]:
            ctx.bad(tag, (mod.relpath, mod.qualname), mod.tree, f"{mod.relpath} imports the private storage object {stack_tl[1]}",
                    construct=f"import {stack_tl[1]}")


def _check_set(ctx, r, set_, stack_tl, stack_attr, tag, t3=None, t4=None):
    t3 = t3 or tag
    t4 = t4 or tag
    set_ = follow_delegate(ctx.model, set_)
    al = r.local_aliases(set_)
    params = [p for p in set_.params if not (set_.cls is not None and p == set_.params[0] and p in ("self", "cls"))]
    need(len(params) in (1, 4), "set_shape_memo takes neither the four memos nor one snapshot tuple")
    whole = params[0] if len(params) == 1 else None  # the snapshot tuple as one parameter
    found = False
    from ..typestate import NoReturn

    top_nodes = []  # AST nodes that touch the top of the stack
    for n in walk_scope(set_.node):
        # shape (a): <stack>[-1] = (p1, p2, p3, p4)
        if isinstance(n, ast.Assign):
            for t in n.targets:
                if isinstance(t, ast.Subscript):
                    tl = r.tl_of_expr(set_, t.value, al)
                    if tl is None:
                        continue
                    found = True
                    top_nodes.append(n)
                    if not _index_is_top(t):
                        ctx.bad(t4, set_, n, "set_shape_memo writes a context other than the innermost one")
                        continue
                    v = n.value
                    if (isinstance(v, ast.Tuple) and [getattr(e, "id", None) for e in v.elts] == params and whole is None) or (
                            whole is not None and isinstance(v, ast.Name) and v.id == whole):
                        ctx.ok(t4, set_.qualname, "replaces the top of the stack with the four memos in parameter order")
                    else:
                        ctx.bad(t3, set_, n, "set_shape_memo stores the memos in a different order than its parameters")
        # shape (b): in-place restore of the dicts on top of the stack
        if isinstance(n, ast.For) and isinstance(n.iter, ast.Call) and isinstance(n.iter.func, ast.Name) and n.iter.func.id == "zip":
            za = n.iter.args
            if len(za) == 2 and isinstance(n.target, ast.Tuple) and len(n.target.elts) == 2:
                top, new = za
                newsrc = new
                if isinstance(new, ast.Name):
                    d = _assignments_to(set_, new.id)
                    newsrc = d[0][1] if len(d) == 1 else None
                topsrc = top
                if isinstance(top, ast.Name):
                    d = _assignments_to(set_, top.id)
                    topsrc = d[0][1] if len(d) == 1 else None
                is_top = is_top_expr(r, set_, top, al)
                other = (not is_top) and isinstance(topsrc, ast.Subscript) and r.tl_of_expr(set_, topsrc.value, al) is not None
                if is_top or other:
                    found = True
                    top_nodes.append(n)
                    if other:
                        ctx.bad(t4, set_, n, "set_shape_memo restores a context other than the innermost one")
                        continue
                    if whole is not None and isinstance(new, ast.Name) and new.id == whole:
                        pass  # zip(<top>, <snapshot tuple parameter>)
                    elif whole is not None or not (isinstance(newsrc, ast.Tuple) and [getattr(e, "id", None) for e in newsrc.elts] == params):
                        ctx.bad(t3, set_, n, "set_shape_memo pairs the stored memos with its parameters in a different order")
                        continue
                    old_v, new_v = n.target.elts[0].id, n.target.elts[1].id
                    _check_inplace_loop(ctx, set_, n, old_v, new_v, t4)
    need(found, "set_shape_memo: no write to the top of the thread-local stack recognised (role lost / shape not recognised)")
    # guard: the write is control dependent on the has-memo test
    cfg = NoReturn(ctx.model).cfg(set_)
    guarded = True
    has_fn = ctx.model.func_opt("_storage._has_shape_memo")
    for node in cfg.live_nodes():
        if node.kind in ("stmt", "for") and node.ast is not None and any(node.ast is t or (node.kind == "for" and node.ast is t) for t in top_nodes):
            dom = cfg.dominators()[node.id]
            tests = [cfg.nodes[i] for i in dom if cfg.nodes[i].kind == "test"]
            if not any(_is_has_test(ctx.model, set_, t.ast, has_fn, r, al, stack_tl, stack_attr) for t in tests):
                guarded = False
                ctx.bad(t4, set_, node.ast, "set_shape_memo touches the stack without first testing that a context exists")
    if guarded:
        ctx.ok(t4, set_.qualname, "the write is guarded by the context-exists test")


def _check_inplace_loop(ctx, set_, loop: ast.For, old_v: str, new_v: str, tag: str):
    """Each live dict must be cleared and then refilled from its snapshot whenever the two are
    different objects; a guard on anything else (sizes, truthiness ...) skips the restore for
    states the failed check may well have produced."""
    calls = [c for c in ast.walk(loop) if isinstance(c, ast.Call) and isinstance(c.func, ast.Attribute)
             and isinstance(c.func.value, ast.Name) and c.func.value.id == old_v]
    names = [c.func.attr for c in calls]
    upd_ok = any(c.func.attr == "update" and len(c.args) == 1 and isinstance(c.args[0], ast.Name)
                 and c.args[0].id == new_v for c in calls)
    if not ("clear" in names and upd_ok and names.index("clear") < names.index("update")):
        ctx.bad(tag, set_, loop, "the in-place rollback does not clear the live dict and then copy the snapshot into it: entries that the failed "
                "check overwrote (e.g. a broadcast-widened '*#name' binding) or deleted keep the value from the failed check",
                construct=f"in-place restore without clear()+update(snapshot): {short(loop.body[0], 80)}")
        return
    # guards around clear/update inside the loop body: only the identity test of the pair is a
    # sound reason to skip
    ident = {f"{old_v} is not {new_v}", f"{new_v} is not {old_v}"}
    bad_guard = None
    unknown_guard = None

    def walk(stmts, guards):
        nonlocal bad_guard, unknown_guard
        for st in stmts:
            if isinstance(st, ast.If):
                walk(st.body, guards + [(st.test, True)])
                walk(st.orelse, guards + [(st.test, False)])
                continue
            if isinstance(st, (ast.For, ast.While, ast.Try, ast.With)):
                if any(c in list(ast.walk(st)) for c in calls):
                    unknown_guard = st
                continue
            if any(c in list(ast.walk(st)) for c in calls):
                for test, pol in guards:
                    conj = test.values if isinstance(test, ast.BoolOp) and isinstance(test.op, ast.And) and pol else [test]
                    for t in conj:
                        tx = norm(t)
                        if pol and tx in ident:
                            continue
                        if (not pol) and tx in {f"{old_v} is {new_v}", f"{new_v} is {old_v}"}:
                            continue
                        names_in = {x.id for x in ast.walk(t) if isinstance(x, ast.Name)}
                        if names_in & {old_v, new_v}:
                            bad_guard = t
                        else:
                            unknown_guard = t

    walk(loop.body, [])
    if bad_guard is not None:
        ctx.bad(tag, set_, bad_guard, f"the in-place rollback of a memo is skipped under `{short(bad_guard, 70)}`: a failed check can change a binding "
                "without changing what this condition looks at (e.g. re-broadcasting an existing '*#name' entry keeps the size), so its binding "
                "would survive the rollback", construct=f"in-place restore guarded by {short(bad_guard, 70)}")
    elif unknown_guard is not None:
        raise AnalysisError(f"set_shape_memo: the in-place restore is guarded by `{short(unknown_guard, 60)}`, which the rule cannot interpret")
    else:
        ctx.ok(tag, set_.qualname, "restores the four dicts on top of the stack in place (clear, then update from the snapshot; skipped only for the identical object)")


def _is_has_test(model, fn, test, has_fn, r, al, stack_tl=None, stack_attr=None) -> bool:
    # `top is not None` where top comes from a top-or-None helper
    for x in ast.walk(test):
        if isinstance(x, ast.Compare) and len(x.ops) == 1 and isinstance(x.ops[0], (ast.IsNot, ast.Is)) \
                and isinstance(x.comparators[0], ast.Constant) and x.comparators[0].value is None and is_top_expr(r, fn, x.left, al):
            return True
    for c in ast.walk(test):
        if isinstance(c, ast.Call):
            t = model.resolve_call(fn, c)
            if t.kind == "func" and has_fn is not None and t.target is has_fn:
                return True
            if t.kind == "func" and stack_tl is not None and reads_stack_only(r, t.target, stack_tl, stack_attr):
                return True
            if isinstance(c.func, ast.Name) and c.func.id in ("len", "hasattr") and c.args:
                if r.tl_of_expr(fn, c.args[0], al) is not None or (
                    isinstance(c.args[0], ast.Name) and model.resolve_name(fn, c.args[0].id).kind == "modvar"
                ):
                    return True
    return False


# ------------------------------------------------------------------------ C05.7
_INFALLIBLE = {"len", "id", "isinstance", "type", "tuple", "dict", "list", "bool"}


def check_push_cannot_fail_after_append(ctx: RuleContext, r):
    """C05.7: once the new frame is on the stack, the push function returns without doing anything that can raise.  Its callers open
    their `try: .. finally: pop` *after* the push has returned, so an exception raised by the push function after the append (a warning
    turned into an error, a logging hook, a conversion of the arguments) leaves a frame on the stack that nobody pops: the caller's
    own bindings are gone for the rest of its activation and checks outside every context become stateful."""
    m = ctx.model
    push = follow_delegate(m, r.push)
    ctx.saw(push)
    g = NoReturn(m).cfg(push)
    app = [n for n in g.live_nodes() for c in node_calls(n) if isinstance(c.func, ast.Attribute) and c.func.attr in ("append", "insert", "extend", "appendleft")]
    need(app, "C05.7: the statement that puts the new frame on the stack was not found in the push function")
    after = set()
    for a in app:
        for k, s_ in a.succ:
            if k in ("n", "t", "f", "loop", "done"):
                after |= g.reach_from(s_, avoid=lambda n: False)
    n_checked = 0
    bad = False
    for nid in sorted(after):
        n = g.nodes[nid]
        if n.ast is None:
            continue
        n_checked += 1
        if n.kind == "raise":
            bad = True
            ctx.bad("C05.7", push, n.ast, "the push function can raise after it has put the new frame on the stack: callers enter their try/finally only after the push returned, "
                    "so that frame is never popped", construct="raise after the frame was appended")
            continue
        for c in node_calls(n):
            nm = norm(c.func)
            if nm in _INFALLIBLE or any(c is c2 for a in app for c2 in node_calls(a)):
                continue
            bad = True
            ctx.bad("C05.7", push, c, f"`{short(c, 60)}` runs after the new frame was put on the stack and may raise (a warning turned into an error, a hook, a conversion): callers enter "
                    "their try/finally only after the push returned, so the frame would never be popped and the caller's bindings are lost",
                    construct=f"fallible call after the frame was appended: {short(c, 60)}")
    if not bad:
        ctx.ok("C05.7", push.qualname, f"nothing that can raise runs between the append and the return ({n_checked} node(s) after the append)")


# ------------------------------------------------------------------------ C05.8
def check_only_innermost_frame_is_read(ctx: RuleContext, r):
    """C05.8: 'a call sees only the bindings created during that call': the context stack is only ever pushed, popped, measured and
    indexed at its top.  Reading any other frame -- `stack[:-1]`, `stack[0]`, a loop over the stack, `reversed(stack)` -- lets a call
    see bindings of its callers (a scope chain): the same call then passes, fails or raises depending on who called it."""
    m = ctx.model
    stack_tl, stack_attr, _ = locate_stack(r)
    n_uses = 0
    bad = False
    for f in m.all_functions(include_typeguard=False):
        al = r.local_aliases(f)

        def is_stack(e):
            t = r.tl_of_expr(f, e, al)
            return t is not None and t[0] == stack_tl and list(t[1]) == [stack_attr]

        parents = {}
        for p_ in ast.walk(f.node):
            for c_ in ast.iter_child_nodes(p_):
                parents[id(c_)] = p_
        for n in walk_scope(f.node):
            if not isinstance(n, (ast.Attribute, ast.Name, ast.Call)) or not is_stack(n):
                continue
            if isinstance(n, ast.Name) and isinstance(n.ctx, ast.Store):
                continue
            p_ = parents.get(id(n))
            # the chain `tl.memo_stack` is itself an Attribute whose .value is the thread-local: only judge the outermost stack expression
            if isinstance(p_, (ast.Attribute, ast.Subscript, ast.Call)) and is_stack(p_):
                continue
            n_uses += 1
            why = None
            if isinstance(p_, ast.Subscript) and p_.value is n:
                if isinstance(p_.ctx, ast.Load) and not _index_is_top(p_):
                    why = f"`{short(p_, 50)}` reads frames other than the innermost one"
            elif isinstance(p_, (ast.For, ast.comprehension)) and p_.iter is n:
                why = "the stack is iterated (every frame is visited)"
            elif isinstance(p_, ast.Call) and n in p_.args and norm(p_.func) in ("reversed", "list", "tuple", "iter", "enumerate", "zip", "sorted", "itertools.chain", "map", "filter"):
                why = f"the whole stack is handed to `{norm(p_.func)}`"
            elif isinstance(p_, ast.Starred):
                why = "the stack is unpacked"
            if why:
                bad = True
                ctx.bad("C05.8", f, p_, f"{why}: a call would see bindings that were not created during that call (those of its callers), so its verdict depends on who calls it",
                        construct=f"non-top read of the context stack in {f.name}")
    ctx.counters["stack_uses"] = n_uses
    ctx.floor("C05.8", "stack_uses", 4)
    if not bad:
        ctx.ok("C05.8", "_storage", f"all {n_uses} uses of the context stack push, pop, measure or index its top")


# ------------------------------------------------------------------------ C05.9
def check_no_frame_state_beside_the_stack(ctx: RuleContext, r):
    """C05.9: everything that belongs to one activation lives *in its frame*.  A thread-local (or module-level) slot that the push function
    re-initialises for the new frame -- a per-call cache, a "current arguments" pointer -- and that the pop function does not put back is
    not unwound with the stack: after a nested or recursive call returns, the caller goes on with the callee's slot."""
    m = ctx.model
    push = follow_delegate(m, r.push)
    pop = follow_delegate(m, r.pop) if getattr(r, "pop", None) is not None else None
    need(pop is not None, "C05.9: the pop primitive was not found")
    stack_tl, stack_attr, _ = locate_stack(r)
    al = r.local_aliases(push)

    def slot_stores(fn):
        out = {}
        a_ = r.local_aliases(fn)
        for st in walk_scope(fn.node):
            tgts = st.targets if isinstance(st, ast.Assign) else [st.target] if isinstance(st, (ast.AugAssign, ast.AnnAssign)) and getattr(st, "value", None) is not None else []
            for t in tgts:
                for x in ([t] if not isinstance(t, ast.Tuple) else t.elts):
                    if isinstance(x, ast.Attribute):
                        tl = r.tl_of_expr(fn, x, a_)
                        if tl is not None and tl[1]:
                            out.setdefault((tl[0], tl[1][0]), st)
                        elif isinstance(x.value, ast.Name) and m.resolve_name(fn, x.value.id).kind == "modvar":
                            out.setdefault((x.value.id, x.attr), st)
                    elif isinstance(x, ast.Name) and any(isinstance(g_, ast.Global) and x.id in g_.names for g_ in ast.walk(fn.node)):
                        out.setdefault(("<global>", x.id), st)
        return out

    pushed = {k: v for k, v in slot_stores(push).items() if k != (stack_tl, stack_attr)}
    popped = slot_stores(pop)
    ctx.saw(push)
    ctx.saw(pop)
    ctx.counters["push_pop_functions"] = 2
    for (root, attr), st in sorted(pushed.items(), key=lambda kv: kv[0][1]):
        if (root, attr) in popped:
            raise AnalysisError(f"C05.9: `{short(st, 50)}` in {push.qualname} sets a per-frame slot beside the stack and {pop.qualname} writes it too; whether the caller's value is "
                                "put back is not decided")
        v_ = getattr(st, "value", None)
        if isinstance(v_, ast.Constant):
            # an initialisation flag: every store to the slot anywhere in the package stores this very constant -> idempotent
            others = [x for f2 in m.all_functions(include_typeguard=False) for x in walk_scope(f2.node) if isinstance(x, ast.Assign)
                      and any(isinstance(t_, ast.Attribute) and t_.attr == attr for t_ in x.targets)]
            if others and all(isinstance(x.value, ast.Constant) and x.value.value == v_.value for x in others):
                ctx.ok("C05.9", push.qualname, f"`{short(st, 50)}`: the only value this slot ever gets (an initialisation flag)")
                continue
        ctx.bad("C05.9", push, st, f"`{short(st, 60)}`: the push function re-initialises the slot `{attr}` for the new frame, but it is not part of the frame and {pop.qualname} does not put "
                "the caller's value back: after a nested or recursive call returns, the caller continues with the callee's slot (its own was overwritten)",
                construct=f"per-frame state beside the stack: {attr}")
    if not pushed:
        ctx.ok("C05.9", push.qualname, f"the push function writes no thread-local / module-level slot besides the stack `{stack_attr}`")


# ------------------------------------------------------------------------ C05.10
def check_generator_detection_unwraps_fully(ctx: RuleContext):
    """Old-style `@jaxtyped @typechecker def gen(): yield ..`: the wrapper returns (and pops its frame) before the generator body runs, so the
    typechecker's per-`next()` checks of the *return annotation* would run in the consumer's context -- a second call sees the first call's
    bindings.  jaxtyped therefore makes the return annotation of generator functions transparent; whether `fn` is one is asked of the innermost
    function of the whole `__wrapped__` chain (any number of `functools.wraps` decorators may sit in between)."""
    m = ctx.model
    jt = m.func("_decorator.jaxtyped")
    ctx.saw(jt)
    probes = [c for c in ast.walk(jt.node) if isinstance(c, ast.Call) and norm(c.func).split(".")[-1] in ("isgeneratorfunction", "isasyncgenfunction") and c.args]
    ctx.counters["generator_probes"] = len(probes)
    ctx.floor("C05.10", "generator_probes", 1)
    for c in probes:
        a = c.args[0]
        if isinstance(a, ast.Call) and norm(a.func) in ("inspect.unwrap", "unwrap"):
            ctx.ok("C05.10", jt.qualname, f"`{short(c, 50)}` asks the fully unwrapped function")
            continue
        if not isinstance(a, ast.Name):
            raise AnalysisError(f"C05.10: `{short(c, 50)}`: what is asked whether it is a generator function was not recognised")
        v = a.id
        loops = [w for w in ast.walk(jt.node) if isinstance(w, ast.While) and "__wrapped__" in norm(w.test) and any(
            isinstance(st, ast.Assign) and any(isinstance(t, ast.Name) and t.id == v for t in st.targets) and "__wrapped__" in norm(st.value) for st in ast.walk(w))]
        unwrap_call = [st for st in ast.walk(jt.node) if isinstance(st, ast.Assign) and any(isinstance(t, ast.Name) and t.id == v for t in st.targets)
                       and isinstance(st.value, ast.Call) and norm(st.value.func) in ("inspect.unwrap", "unwrap")]
        if loops or unwrap_call:
            ctx.ok("C05.10", jt.qualname, f"`{short(c, 50)}`: `{v}` is the end of the whole `__wrapped__` chain")
            continue
        once = [st for st in ast.walk(jt.node) if isinstance(st, ast.Assign) and any(isinstance(t, ast.Name) and t.id == v for t in st.targets) and "__wrapped__" in norm(st.value)]
        if once or v in jt.params:
            ctx.bad("C05.10", jt, once[0] if once else c, f"`{short(c, 50)}` asks " + (f"`{short(once[0], 50)}`: one level of `__wrapped__` only" if once else f"the decorated object `{v}` itself") +
                    ": a generator function under one more `functools.wraps` decorator is not recognised, its return annotation is not made transparent, and the typechecker's per-item "
                    "checks run after the call has returned -- in the consumer's binding context (a later call is checked against an earlier call's bindings)",
                    construct="generator detection does not unwrap the whole __wrapped__ chain")
            continue
        raise AnalysisError(f"C05.10: how `{v}` (asked whether it is a generator function) is obtained from the decorated function was not recognised")
