"""C05 -- bindings live exactly as long as one jaxtyped call / context block.

Decided structurally (all paths, all three exits -- return, Exception, BaseException):
  C05.1 push/pop typestate: every function that (transitively) pushes a binding context
        leaves the stack exactly as it found it on every path to every exit;
        helpers with a consistent non-zero effect are summarised and their callers checked.
  C05.2 context-manager pairing: __enter__ ends pushed (+1) on every normal path and
        unpushed on every raising path; __exit__ pops exactly once on every path,
        unconditionally, and returns a falsy constant.
  C05.3 no yield / await while a context pushed by the same activation is open.
  C05.4 storage discipline of the five _storage primitives (fresh dicts, copied
        arguments, pop of the last element, throw-away dicts outside any context,
        replace-top only when a context exists) and ownership census: nobody else
        mutates the thread-local stack.
Not decided: nothing value-level is involved in this property beyond these shapes.
"""
from __future__ import annotations

import ast

from ..callgraph import CallGraph
from ..core import AnalysisError, RuleContext, need, norm, short
from ..model import FuncInfo, dotted_of, walk_scope
from ..roles import roles_for
from ..typestate import NoReturn, StackBalance

EXPLANATION = __doc__


def run(ctx: RuleContext):
    m = ctx.model
    r = roles_for(m)
    sb = StackBalance(m, r)
    cg = CallGraph(m)
    ctx.sub(check_balance, ctx, sb, cg, "C05")
    ctx.sub(check_storage_discipline, ctx, r)


# ---------------------------------------------------------------------- C05.1-3
def check_balance(ctx: RuleContext, sb: StackBalance, cg: CallGraph, tag: str):
    m = ctx.model
    push_q, pop_q = sb.push_q, sb.pop_q
    n_push_sites = len(cg.sites.get(push_q, []))
    n_pop_sites = len(cg.sites.get(pop_q, []))
    ctx.counters["push_call_sites"] = n_push_sites
    ctx.counters["pop_call_sites"] = n_pop_sites
    ctx.floor(f"{tag}.1", "push_call_sites", 2)
    ctx.floor(f"{tag}.1", "pop_call_sites", 2)

    cm_classes = 0
    for f in m.all_functions():
        s = sb.summary(f)
        if s is None or not s.touches or f.qualname in (push_q, pop_q):
            continue
        ctx.saw(f)
        g, fl = s.cfg, s.flow
        st = g.stats()
        ctx.count("cfg_nodes", st["nodes"])
        ctx.count("cfg_edges", st["edges"])
        name = f.name
        is_cm = f.cls is not None and name in ("__enter__", "__exit__", "__aenter__", "__aexit__")
        if is_cm:
            if name in ("__enter__", "__aenter__"):
                cm_classes += 1
                _expect(ctx, f"{tag}.2", f, s, normal={1}, exc={0},
                        what="__enter__ must end with exactly one context pushed on every normal "
                             "path and none on every raising path")
            else:
                _expect(ctx, f"{tag}.2", f, s, normal={-1}, exc={-1},
                        what="__exit__ must pop exactly one context on every path (unconditionally)")
                for n in walk_scope(f.node):
                    if isinstance(n, ast.Return) and n.value is not None:
                        v = n.value
                        if not (isinstance(v, ast.Constant) and not v.value):
                            ctx.bad(f"{tag}.2", f, n, "__exit__ may return a truthy value and swallow "
                                    "the exception of the block")
                ctx.ok(f"{tag}.2", f.qualname, "__exit__ returns a falsy constant on every path")
            continue
        helper = bool(cg.callers(f)) and f.qualname not in cg.escapes
        if helper and len(s.normal) == 1 and s.exc <= {0}:
            ctx.ok(f"{tag}.1", f.qualname,
                   f"helper with consistent effect {sorted(s.normal)} on return and 0 on raise; callers are checked")
            continue
        _expect(ctx, f"{tag}.1", f, s, normal={0}, exc={0},
                what="a binding context pushed by this activation must be popped exactly once "
                     "on every path to every exit (return, Exception, BaseException)")
        # C05.3
        bad_susp = False
        for n in g.live_nodes():
            if n.ast is None:
                continue
            asts = [n.ast] if n.kind not in ("def",) else []
            for a in asts:
                susp = [x for x in _own_walk(a) if isinstance(x, (ast.Yield, ast.YieldFrom, ast.Await))]
                if not susp:
                    continue
                for stt in fl.states_at(n):
                    if stt > 0:
                        bad_susp = True
                        ctx.bad(f"{tag}.3", f, n.ast,
                                "suspension point (yield/await) while a binding context pushed by "
                                "this activation is still open: the context would stay on the "
                                "thread's stack while the caller's code runs",
                                path=fl.witness(n, stt))
        if not bad_susp:
            ctx.ok(f"{tag}.3", f.qualname, "no yield/await between a push and its pop")
    ctx.counters["context_manager_classes"] = cm_classes
    ctx.floor(f"{tag}.2", "context_manager_classes", 1)


def _own_walk(a):
    stack = [a]
    while stack:
        n = stack.pop()
        yield n
        if isinstance(n, (ast.FunctionDef, ast.AsyncFunctionDef, ast.ClassDef, ast.Lambda)) and n is not a:
            continue
        stack.extend(ast.iter_child_nodes(n))


def _expect(ctx, rule, f, s, normal, exc, what):
    g, fl = s.cfg, s.flow
    ok = True
    for ex, allowed, label in ((g.exit, normal, "normal exit"), (g.exit_e, exc, "Exception exit"),
                               (g.exit_b, exc, "BaseException exit")):
        for stt in sorted(fl.states_at(ex)):
            if stt not in allowed:
                ok = False
                path = fl.witness(ex, stt)
                # name the construct: the last real statement on the witness path
                last = _last_stmt_on_path(fl, ex, stt)
                ctx.bad(rule, f, last if last is not None else f.node,
                        f"{what}; on a path to the {label} the stack delta is {stt:+d} "
                        f"(allowed {sorted(allowed)})",
                        path=path,
                        construct=f"{label}: delta {stt:+d} via {short(last, 120) if last is not None else '?'}")
    if ok:
        ctx.ok(rule, f.qualname,
               f"stack delta on all paths: normal {sorted(fl.states_at(g.exit))}, "
               f"Exception {sorted(fl.states_at(g.exit_e))}, BaseException {sorted(fl.states_at(g.exit_b))}")
    return ok


def _last_stmt_on_path(fl, node, state):
    key = (node.id, state)
    while key is not None:
        p = fl.pred.get(key)
        if p is None:
            return None
        n = fl.cfg.nodes[p[0]]
        if n.ast is not None and n.kind not in ("dispatch", "finally", "unwind", "handler"):
            return n.ast if not isinstance(n.ast, ast.expr) else n.ast
        key = (p[0], p[1])
    return None


# ------------------------------------------------------------------------ C05.4
def _is_fresh_dict(e) -> bool:
    if isinstance(e, ast.Dict) and not e.keys:
        return True
    if isinstance(e, ast.Call) and isinstance(e.func, ast.Name) and e.func.id == "dict" and not e.args and not e.keywords:
        return True
    return False


def _is_copy_of(e, names) -> bool:
    """`p.copy()`, `dict(p)`, `{**p}`, `copy.copy(p)` for a name p in names."""
    if isinstance(e, ast.Call):
        if isinstance(e.func, ast.Attribute) and e.func.attr == "copy" and isinstance(e.func.value, ast.Name):
            return e.func.value.id in names and not e.args
        if isinstance(e.func, ast.Name) and e.func.id == "dict" and len(e.args) == 1 and isinstance(e.args[0], ast.Name):
            return e.args[0].id in names
        if dotted_of(e.func) in ("copy.copy", "copy.deepcopy") and len(e.args) == 1 and isinstance(e.args[0], ast.Name):
            return e.args[0].id in names
    if isinstance(e, ast.Dict) and len(e.keys) == 1 and e.keys[0] is None and isinstance(e.values[0], ast.Name):
        return e.values[0].id in names
    return False


def _assignments_to(fn: FuncInfo, name: str) -> list:
    """(target_node, value_node, index_in_tuple|None) for every binding of `name`."""
    out = []
    for n in walk_scope(fn.node):
        if isinstance(n, ast.Assign):
            for t in n.targets:
                if isinstance(t, ast.Name) and t.id == name:
                    out.append((n, n.value, None))
                elif isinstance(t, (ast.Tuple, ast.List)):
                    for i, el in enumerate(t.elts):
                        if isinstance(el, ast.Name) and el.id == name:
                            out.append((n, n.value, i))
        elif isinstance(n, ast.AnnAssign) and isinstance(n.target, ast.Name) and n.target.id == name:
            out.append((n, n.value, None))
    return out


def _index_is_top(sub: ast.Subscript) -> bool:
    s = sub.slice
    return isinstance(s, ast.UnaryOp) and isinstance(s.op, ast.USub) and isinstance(s.operand, ast.Constant) and s.operand.value == 1


def locate_stack(r):
    """The thread-local attribute that holds the context stack: the one push appends to."""
    push = r.push
    al = r.local_aliases(push)
    stack_tl, stack_attr = None, None
    appended = None
    for n in walk_scope(push.node):
        if isinstance(n, ast.Call) and isinstance(n.func, ast.Attribute) and n.func.attr == "append":
            t = r.tl_of_expr(push, n.func.value, al)
            if t is not None:
                stack_tl, stack_attr = t[0], t[1][0]
                appended = n
    need(appended is not None, "push_shape_memo no longer appends to a thread-local stack (role lost)")
    return stack_tl, stack_attr, appended


def check_storage_discipline(ctx: RuleContext, r, tag: str = "C05.4"):
    m = ctx.model
    need(len(r.thread_locals) >= 1, "no threading.local() storage object found")
    push, pop, get, set_ = r.push, r.pop, r.get, r.set
    for f in (push, pop, get, set_):
        ctx.saw(f)
    stack_tl, stack_attr, appended = locate_stack(r)
    ctx.ok(tag, push.qualname, f"appends to thread-local {stack_tl[1]}.{stack_attr}")

    # --- push: tuple of fresh dicts + copy of the arguments
    arg = appended.args[0] if appended.args else None
    tup = arg
    if isinstance(arg, ast.Name):
        asg = _assignments_to(push, arg.id)
        need(len(asg) == 1, f"push_shape_memo: `{arg.id}` has {len(asg)} definitions (expected one)")
        tup = asg[0][1]
    if not isinstance(tup, ast.Tuple) or len(tup.elts) != 4:
        raise AnalysisError("push_shape_memo: the pushed context is not a 4-tuple display (shape not recognised)")
    params = set(push.params)
    for i, el in enumerate(tup.elts):
        if i < 3:
            if _is_fresh_dict(el):
                ctx.ok(tag, push.qualname, f"context slot {i} is a fresh dict created by this call")
            else:
                ctx.bad(tag, push, el, f"slot {i} of a new binding context is not a fresh empty dict: "
                        "bindings would be shared between contexts")
        else:
            if _is_copy_of(el, params):
                ctx.ok(tag, push.qualname, "the {argument} table is a copy of the caller's dict")
            elif _is_fresh_dict(el):
                ctx.bad(tag, push, el, "the argument values of the call are not stored in the context")
            else:
                ctx.bad(tag, push, el, "the {argument} table of a new context aliases the caller's "
                        "dict instead of copying it")

    # --- pop: pops the last element of the same stack
    pops = []
    for n in walk_scope(pop.node):
        if isinstance(n, ast.Call) and isinstance(n.func, ast.Attribute) and n.func.attr == "pop":
            t = r.tl_of_expr(pop, n.func.value, r.local_aliases(pop))
            if t is not None:
                pops.append((n, t))
    need(len(pops) >= 1, "pop_shape_memo no longer pops a thread-local stack (role lost)")
    for n, t in pops:
        if (t[0], t[1][0]) != (stack_tl, stack_attr):
            ctx.bad(tag, pop, n, "pop_shape_memo pops a different object than push_shape_memo appends to")
        elif n.args and not (isinstance(n.args[0], ast.UnaryOp) and isinstance(n.args[0].op, ast.USub)
                             and isinstance(n.args[0].operand, ast.Constant) and n.args[0].operand.value == 1):
            ctx.bad(tag, pop, n, "pop_shape_memo does not remove the most recent context (LIFO broken)")
        else:
            ctx.ok(tag, pop.qualname, "pops the last element of the stack push appends to")
    if len(pops) != 1:
        ctx.bad(tag, pop, pop.node, f"pop_shape_memo pops {len(pops)} times")
    # pop must be trivial: no branching (the typestate treats its exceptional edge as post-state)
    for n in walk_scope(pop.node):
        if isinstance(n, (ast.If, ast.Try, ast.For, ast.While, ast.With)):
            ctx.bad(tag, pop, n, "pop_shape_memo is no longer a single unconditional pop")

    # --- get: -1 index; throw-away dicts outside any context
    rets = [n for n in walk_scope(get.node) if isinstance(n, ast.Return)]
    need(rets, "get_shape_memo has no return")
    for rt in rets:
        v = rt.value
        if not (isinstance(v, ast.Tuple) and len(v.elts) == 4 and all(isinstance(e, ast.Name) for e in v.elts)):
            if isinstance(v, ast.Subscript) and r.tl_of_expr(get, v.value, r.local_aliases(get)) and _index_is_top(v):
                ctx.ok(tag, get.qualname, "returns the top of the stack")
                continue
            raise AnalysisError("get_shape_memo: return value is not a 4-tuple of names (shape not recognised)")
        for i, e in enumerate(v.elts):
            defs = _assignments_to(get, e.id)
            need(defs, f"get_shape_memo: `{e.id}` has no definition")
            for stn, val, idx in defs:
                if idx is not None:
                    # unpacking of the stack top
                    if isinstance(val, ast.Subscript) and r.tl_of_expr(get, val.value, r.local_aliases(get)):
                        if not _index_is_top(val):
                            ctx.bad(tag, get, val, "get_shape_memo reads a context other than the innermost one")
                        elif idx != i:
                            ctx.bad(tag, get, stn, "get_shape_memo returns the memo slots in a different order than stored")
                        else:
                            ctx.ok(tag, get.qualname, f"slot {i} read from the top of the stack")
                    else:
                        raise AnalysisError(f"get_shape_memo: unrecognised source for `{e.id}`: {norm(val)}")
                else:
                    if _is_fresh_dict(val):
                        ctx.ok(tag, get.qualname, f"outside any context slot {i} is a throw-away dict created by this call")
                    else:
                        ctx.bad(tag, get, stn, f"outside any context, memo slot {i} is not a dict created by this call: "
                                "checks outside every context would no longer be stateless")

    # --- set: replace top only when a context exists
    _check_set(ctx, r, set_, stack_tl, stack_attr, tag)

    # --- ownership census
    allowed = {
        push.qualname: {"call:append", "store"},
        pop.qualname: {"call:pop"},
        set_.qualname: {"store", "call:clear", "call:update"},
    }
    n_ops = 0
    for o in r.ops:
        if o.op == "load" or o.tl != stack_tl:
            continue
        n_ops += 1
        q = o.fn.qualname
        if o.op in allowed.get(q, ()):  # expected mutation by its owner
            ctx.ok(tag, q, f"owner operation {o.op} on {o.tl[1]}.{o.attr}")
        else:
            ctx.bad(tag, o.fn, o.node, f"the binding-context stack is mutated ({o.op} on {o.tl[1]}.{o.attr}) outside "
                    "its owner functions push/pop/set_shape_memo")
    ctx.counters["stack_mutation_sites"] = n_ops
    ctx.floor(tag, "stack_mutation_sites", 3)
    # the thread-local must only be referenced from its own module
    for mod in m.modules.values():
        if mod.short == stack_tl[0]:
            continue
        if mod.imports.get(stack_tl[1], "").endswith("." + stack_tl[1]) and mod.imports[stack_tl[1]].startswith("jaxtyping._storage"):
            ctx.bad(tag, (mod.relpath, mod.qualname), mod.tree, f"{mod.relpath} imports the private storage object {stack_tl[1]}",
                    construct=f"import {stack_tl[1]}")


def _check_set(ctx, r, set_, stack_tl, stack_attr, tag, t3=None, t4=None):
    t3 = t3 or tag
    t4 = t4 or tag
    al = r.local_aliases(set_)
    params = [p for p in set_.params]
    need(len(params) == 4, "set_shape_memo no longer takes the four memos")
    found = False
    from ..typestate import NoReturn

    for n in walk_scope(set_.node):
        # shape (a): <stack>[-1] = (p1, p2, p3, p4)
        if isinstance(n, ast.Assign):
            for t in n.targets:
                if isinstance(t, ast.Subscript):
                    tl = r.tl_of_expr(set_, t.value, al)
                    if tl is None:
                        continue
                    found = True
                    if not _index_is_top(t):
                        ctx.bad(t4, set_, n, "set_shape_memo writes a context other than the innermost one")
                        continue
                    v = n.value
                    if isinstance(v, ast.Tuple) and [getattr(e, "id", None) for e in v.elts] == params:
                        ctx.ok(t4, set_.qualname, "replaces the top of the stack with the four memos in parameter order")
                    else:
                        ctx.bad(t3, set_, n, "set_shape_memo stores the memos in a different order than its parameters")
        # shape (b): in-place restore of the dicts on top of the stack
        if isinstance(n, ast.For) and isinstance(n.iter, ast.Call) and isinstance(n.iter.func, ast.Name) and n.iter.func.id == "zip":
            za = n.iter.args
            if len(za) == 2 and isinstance(n.target, ast.Tuple) and len(n.target.elts) == 2:
                top, new = za
                topsrc = top
                if isinstance(top, ast.Name):
                    d = _assignments_to(set_, top.id)
                    topsrc = d[0][1] if len(d) == 1 else None
                newsrc = new
                if isinstance(new, ast.Name):
                    d = _assignments_to(set_, new.id)
                    newsrc = d[0][1] if len(d) == 1 else None
                if isinstance(topsrc, ast.Subscript) and r.tl_of_expr(set_, topsrc.value, al) is not None:
                    found = True
                    if not _index_is_top(topsrc):
                        ctx.bad(t4, set_, n, "set_shape_memo restores a context other than the innermost one")
                        continue
                    if not (isinstance(newsrc, ast.Tuple) and [getattr(e, "id", None) for e in newsrc.elts] == params):
                        ctx.bad(t3, set_, n, "set_shape_memo pairs the stored memos with its parameters in a different order")
                        continue
                    old_v, new_v = n.target.elts[0].id, n.target.elts[1].id
                    calls = [c for c in ast.walk(n) if isinstance(c, ast.Call) and isinstance(c.func, ast.Attribute)
                             and isinstance(c.func.value, ast.Name) and c.func.value.id == old_v]
                    names = [c.func.attr for c in calls]
                    upd_ok = any(c.func.attr == "update" and len(c.args) == 1 and isinstance(c.args[0], ast.Name)
                                 and c.args[0].id == new_v for c in calls)
                    if "clear" in names and upd_ok and names.index("clear") < names.index("update"):
                        ctx.ok(t4, set_.qualname, "restores the four dicts on top of the stack in place (clear, then update from the snapshot)")
                    else:
                        ctx.bad(t4, set_, n, "the in-place rollback does not clear the live dict and then copy the snapshot into it: entries that the failed "
                                "check overwrote (e.g. a broadcast-widened '*#name' binding) or deleted keep the value from the failed check",
                                construct=f"in-place restore without clear()+update(snapshot): {short(n.body[0], 80)}")
    need(found, "set_shape_memo: no write to the top of the thread-local stack recognised (role lost / shape not recognised)")
    # guard: the write is control dependent on the has-memo test
    cfg = NoReturn(ctx.model).cfg(set_)
    guarded = True
    has_fn = ctx.model.func_opt("_storage._has_shape_memo")
    for node in cfg.live_nodes():
        if node.kind in ("stmt", "for") and node.ast is not None:
            touches = any(
                isinstance(x, ast.Subscript) and r.tl_of_expr(set_, x.value, al) is not None
                for x in ast.walk(node.ast)
            ) if node.kind == "stmt" else False
            if touches:
                dom = cfg.dominators()[node.id]
                tests = [cfg.nodes[i] for i in dom if cfg.nodes[i].kind == "test"]
                if not any(_is_has_test(ctx.model, set_, t.ast, has_fn, r, al) for t in tests):
                    guarded = False
                    ctx.bad(t4, set_, node.ast, "set_shape_memo touches the stack without first testing that a context exists")
    if guarded:
        ctx.ok(t4, set_.qualname, "the write is guarded by the context-exists test")


def _is_has_test(model, fn, test, has_fn, r, al) -> bool:
    for c in ast.walk(test):
        if isinstance(c, ast.Call):
            t = model.resolve_call(fn, c)
            if t.kind == "func" and has_fn is not None and t.target is has_fn:
                return True
            if isinstance(c.func, ast.Name) and c.func.id in ("len", "hasattr") and c.args:
                if r.tl_of_expr(fn, c.args[0], al) is not None or (
                    isinstance(c.args[0], ast.Name) and model.resolve_name(fn, c.args[0].id).kind == "modvar"
                ):
                    return True
    return False
