"""What class of exception does `raise <expr>` raise?  Shared by the rules that check exception discipline."""
from __future__ import annotations

import ast

from ..model import walk_scope
from . import c05


def raised_class(m, scope, x, depth: int = 0):
    """Name of the exception class of the expression after `raise`: `Cls(..)` / `Cls` -> 'Cls'; a local bound (only) to such calls -> that
    class; a call of a package function every `return` of which hands back such a thing (an error factory) -> that class.
    None when it cannot be read."""
    if x is None or depth > 3:
        return None
    if isinstance(x, ast.Call):
        if isinstance(x.func, ast.Name):
            b = m.resolve_name(scope, x.func.id)
            if b.kind == "func":
                kinds = set()
                for rt in walk_scope(b.target.node):
                    if isinstance(rt, ast.Return):
                        kinds.add(raised_class(m, b.target, rt.value, depth + 1))
                return kinds.pop() if len(kinds) == 1 else None
            return x.func.id
        if isinstance(x.func, ast.Attribute):
            t = m.resolve_call(scope, x)
            if t.kind == "func":
                kinds = {raised_class(m, t.target, rt.value, depth + 1) for rt in walk_scope(t.target.node) if isinstance(rt, ast.Return)}
                return kinds.pop() if len(kinds) == 1 else None
            return x.func.attr
        return None
    if isinstance(x, ast.Name):
        if hasattr(scope, "params") and x.id in scope.params:
            return None
        ds = c05._assignments_to(scope, x.id) if hasattr(scope, "node") else []
        if ds:
            kinds = {raised_class(m, scope, d[1], depth + 1) if d[2] is None else None for d in ds}
            return kinds.pop() if len(kinds) == 1 else None
        return x.id  # a class name used bare: `raise ValueError`
    return None
