"""C18 -- cached bytecode never makes a module run with the wrong instrumentation.

Decided structurally (for all histories of runs at once):
  C18.1 the tag passed as `optimization=` contains a version literal and the typechecker
        hash; the hash bound into the patched function is the loader's own checker's
        get_hash() (which returns the hash embedded by the decorator template, C10.6).
  C18.2 the hash is a hashlib digest of the checker string or a constant -- never hash(),
        id(), random, uuid, time (which differ between runs).
  C18.3 patch extent: the body of `with patch("importlib._bootstrap_external.
        cache_from_source", ...)` contains the cache read/write of this module (get_code) and
        calls no loader method that executes module code (exec_module, load_module, exec):
        otherwise modules imported *by* the hooked module are cached under the instrumented
        tag without being instrumented.
  C18.5 a hand-written replacement of importlib._bootstrap_external.cache_from_source (instead
        of unittest.mock.patch) must restore the saved original on every exit, including the
        exceptional exit of a `yield` in a generator-based context manager.
  C18.4 the loader overrides nothing that bypasses importlib's source-mtime/size validation.
  C18.8 no in-memory memo of compiled code that is shared between hooks and blind to the typechecker: a keyed store made by a
        loader method into a class-level / module-level container that the loader also reads must have the loader's checker
        (the object or its hash) in its key; otherwise code instrumented for one typechecker is handed to a hook installed with
        another -- and then written to the other hook's cache tag on disk.
  C18.9 nothing run while a hooked module is compiled reads the config object or the environment: such a setting selects what is
        compiled but is not part of the cache tag.
Not decided: importlib's own cache validation (trusted base).
"""
from __future__ import annotations

import ast

from ..core import AnalysisError, RuleContext, need, norm, short
from ..model import walk_scope
from ..roles import roles_for

EXPLANATION = __doc__

EXECUTES_MODULE_CODE = {"exec_module", "load_module", "_load_module_shim", "exec", "eval", "import_module", "__import__", "_exec", "_load"}
CACHE_IO = {"get_code"}
ALLOWED_OVERRIDES = {"__init__", "source_to_code", "exec_module", "get_code"}
# methods of importlib's loader protocol whose override would take part in locating / validating /
# loading the module (anything else defined on the loader is a private helper of jaxtyping's own)
PROTOCOL_METHODS = {"get_data", "set_data", "path_stats", "path_mtime", "_cache_bytecode", "get_filename", "get_source", "is_package",
                    "load_module", "create_module", "get_resource_reader", "contents", "is_resource", "open_resource", "resource_path",
                    "find_spec", "find_module", "invalidate_caches", "_check_name"}


def run(ctx: RuleContext):
    ctx.sub(check_tag, ctx)
    ctx.sub(check_hash, ctx)
    ctx.sub(check_manual_patches, ctx)
    ctx.sub(check_patch_extent, ctx)
    ctx.sub(check_overrides, ctx)
    from .c10 import check_all_returns_instrumented

    ctx.sub(check_all_returns_instrumented, ctx, "C18.6")
    ctx.sub(check_nothing_imported_while_compiling, ctx)
    ctx.sub(check_no_checker_blind_code_memo, ctx)


def check_tag(ctx):
    m = ctx.model
    mod = m.module("_import_hook")
    f = m.func("_import_hook._optimized_cache_from_source")
    ctx.saw(f)
    rets = [x for x in walk_scope(f.node) if isinstance(x, ast.Return)]
    need(len(rets) == 1 and isinstance(rets[0].value, ast.Call), "_optimized_cache_from_source: expected `return cache_from_source(...)`")
    call = rets[0].value
    tgt = m.resolve_call(f, call)
    if not (tgt.kind == "ext" and tgt.target == "importlib.util.cache_from_source"):
        ctx.bad("C18.1", f, call, f"the cache path is not computed by importlib.util.cache_from_source (found {tgt.dotted})")
    kw = {k.arg: k.value for k in call.keywords}
    opt = kw.get("optimization")
    if opt is None:
        ctx.bad("C18.1", f, call, "no `optimization=` tag is passed: instrumented bytecode would be cached under the ordinary name and reused by uninstrumented runs")
        return
    hash_param = f.params[0]
    holes, lits = [], ""
    if isinstance(opt, ast.JoinedStr):
        for v in opt.values:
            if isinstance(v, ast.Constant):
                lits += v.value
            else:
                holes.append(norm(v.value))
    elif isinstance(opt, ast.BinOp):
        for x in ast.walk(opt):
            if isinstance(x, ast.Constant) and isinstance(x.value, str):
                lits += x.value
            if isinstance(x, ast.Name):
                holes.append(x.id)
    elif isinstance(opt, ast.Constant):
        lits = str(opt.value)
    else:
        raise AnalysisError(f"C18.1: unrecognised optimization tag expression `{norm(opt)}`")
    if hash_param not in holes:
        ctx.bad("C18.1", f, call, f"the cache tag `{norm(opt)}` does not contain the typechecker hash: bytecode instrumented for one typechecker is reused "
                "for another")
    else:
        ctx.ok("C18.1", f.qualname, f"cache tag contains the typechecker hash (`{hash_param}`)")
    if not (any(ch.isdigit() for ch in lits) and any(ch.isalpha() for ch in lits)):
        ctx.bad("C18.1", f, call, f"the cache tag `{norm(opt)}` has no name+version literal")
    else:
        ctx.ok("C18.1", f.qualname, f"cache tag literal `{lits}` (name + version)")
    # forwarded arguments: path, debug_override
    args = [norm(a) for a in call.args]
    if args[:1] != [f.params[1]]:
        ctx.bad("C18.1", f, call, "the source path is not forwarded to cache_from_source")
    # the partial binding
    ld = m.cls("_import_hook._JaxtypingLoader")
    n = 0
    for name, meth in ld.methods.items():
        for c in m.calls_in(meth):
            if norm(c.func) in ("ft.partial", "functools.partial", "partial") and c.args and (
                    norm(c.args[0]) == "_optimized_cache_from_source" or m.resolve_expr_static(meth, c.args[0]) is f):
                n += 1
                ctx.saw(meth)
                want = f"{meth.params[0]}._typechecker.get_hash()"
                got = norm(c.args[1]) if len(c.args) > 1 else None
                if got != want and got != f"{meth.params[0]}._typechecker.hash":
                    ctx.bad("C18.1", meth, c, f"the hash bound into the cache function is `{got}`, not the loader's own checker's hash")
                else:
                    ctx.ok("C18.1", meth.qualname, f"hash bound from the loader's own checker: {got}")
    # the same binding made inside a hand-written patch helper: the hash is a parameter of the
    # helper and must be the loader's own checker's hash at every call site
    for q, hf in sorted(manual_patchers(ctx).items()):
        for c in m.calls_in(hf):
            if norm(c.func) in ("ft.partial", "functools.partial", "partial") and c.args and norm(c.args[0]) == "_optimized_cache_from_source":
                harg = c.args[1] if len(c.args) > 1 else None
                if isinstance(harg, ast.Name) and harg.id in hf.params:
                    idx = hf.params.index(harg.id)
                    for name, meth in ld.methods.items():
                        for c2 in m.calls_in(meth):
                            t2 = m.resolve_call(meth, c2)
                            if t2.kind == "func" and t2.target is hf:
                                n += 1
                                got = norm(c2.args[idx]) if len(c2.args) > idx else None
                                if got not in (f"{meth.params[0]}._typechecker.get_hash()", f"{meth.params[0]}._typechecker.hash"):
                                    ctx.bad("C18.1", meth, c2, f"the hash handed to the patch helper is `{got}`, not the loader's own checker's hash")
                                else:
                                    ctx.ok("C18.1", meth.qualname, f"hash bound from the loader's own checker via {hf.name}: {got}")
                else:
                    ctx.bad("C18.1", hf, c, f"the hash bound into the cache function by the patch helper is `{norm(harg)}`")
    ctx.counters["partial_binding_sites"] = n
    ctx.floor("C18.1", "partial_binding_sites", 1)
    tc = m.cls("_import_hook.Typechecker")
    gh = tc.methods.get("get_hash")
    if gh is not None:
        rets = [x for x in walk_scope(gh.node) if isinstance(x, ast.Return)]
        if len(rets) == 1 and norm(rets[0].value) == f"{gh.params[0]}.hash":
            ctx.ok("C18.1", gh.qualname, "get_hash returns self.hash (the key embedded in the decorator template)")
        else:
            ctx.bad("C18.1", gh, gh.node, "get_hash does not return self.hash: cache tag and decorator lookup key diverge", construct="get_hash")


def check_hash(ctx):
    m = ctx.model
    tc = m.cls("_import_hook.Typechecker")
    init = need(tc.methods.get("__init__"), "Typechecker.__init__ not found")
    ctx.saw(init)
    n = 0
    for st in walk_scope(init.node):
        if isinstance(st, ast.Assign) and any(norm(t) == f"{init.params[0]}.hash" for t in st.targets):
            n += 1
            v = st.value
            if isinstance(v, ast.Constant) and isinstance(v.value, str):
                ctx.ok("C18.2", init.qualname, f"hash is the constant {v.value!r}")
                continue
            ok = False
            if isinstance(v, ast.Call) and isinstance(v.func, ast.Attribute) and v.func.attr in ("hexdigest",):
                inner = v.func.value
                if isinstance(inner, ast.Call):
                    t = m.resolve_call(init, inner)
                    if t.kind == "ext" and t.target.startswith("hashlib."):
                        # digest of the typechecker string
                        arg_names = {x.id for a in inner.args for x in ast.walk(a) if isinstance(x, ast.Name)}
                        # the digest must tell any two typechecker strings apart: nothing lossy is applied to the string before it is hashed
                        # (the hash is the cache tag *and* the key under which the decorator is looked up when an instrumented module runs)
                        srcs = list(inner.args)
                        from . import c05 as _c05

                        for nm_ in sorted(arg_names - {init.params[1]}):
                            for _, val_, _ in _c05._assignments_to(init, nm_):
                                if val_ is not None:
                                    srcs.append(val_)
                        lossy = [c_ for a in srcs for c_ in ast.walk(a) if isinstance(c_, ast.Call) and isinstance(c_.func, ast.Attribute)
                                 and c_.func.attr in ("split", "rsplit", "join", "strip", "lstrip", "rstrip", "lower", "upper", "casefold", "replace", "translate", "sub", "partition", "rpartition", "title", "capitalize", "expandtabs")]
                        lossy += [c_ for a in srcs for c_ in ast.walk(a) if isinstance(c_, ast.Subscript) and isinstance(c_.slice, ast.Slice)]
                        if lossy and (init.params[1] in arg_names or any(isinstance(x, ast.Name) and x.id == init.params[1] for a in srcs for x in ast.walk(a))):
                            ctx.bad("C18.2", init, st, f"the typechecker string is normalised (`{short(lossy[0], 50)}`) before it is hashed: two different typechecker expressions (differing, say, "
                                    "inside a string literal) get one hash -- one cache tag and one entry in the lookup the instrumented modules resolve their decorator from, so modules "
                                    "loaded by one hook are checked by the other hook's checker", construct=f"lossy hash input: {short(lossy[0], 50)}")
                            continue
                        if init.params[1] in arg_names:
                            ok = True
                        else:
                            ctx.bad("C18.2", init, st, "the digest is not computed from the typechecker string")
                            continue
            if ok:
                ctx.ok("C18.2", init.qualname, f"hash is a hashlib digest of the typechecker string: {short(v, 70)}")
            elif isinstance(v, (ast.Name, ast.Subscript, ast.Attribute)) and not any(isinstance(c_, ast.Call) for c_ in ast.walk(v)):
                # the digest was computed elsewhere (a helper that returns source and digest together) and arrives through a local / a field:
                # where it comes from is not followed
                raise AnalysisError(f"C18.2: self.hash is assigned `{norm(v)}`; how that value is computed is not followed")
            else:
                bad_src = [norm(c.func) for c in ast.walk(v) if isinstance(c, ast.Call)]
                ctx.bad("C18.2", init, st, f"self.hash is computed by {bad_src or norm(v)}, not by a hashlib digest of the typechecker string or a constant: "
                        "hash()/id()/random/time differ between runs (PYTHONHASHSEED), so caches written by one run are orphaned or, worse, collide")
    ctx.counters["hash_assignments"] = n
    ctx.floor("C18.2", "hash_assignments", 2)


def _is_bootstrap_attr(e) -> bool:
    return isinstance(e, ast.Attribute) and norm(e.value).endswith("_bootstrap_external") and e.attr == "cache_from_source"


def manual_patchers(ctx) -> dict:
    """functions of _import_hook that assign importlib._bootstrap_external.cache_from_source"""
    m = ctx.model
    out = {}
    for f in m.all_functions(include_typeguard=False):
        if f.module.short != "_import_hook":
            continue
        if any(isinstance(n, ast.Assign) and any(_is_bootstrap_attr(t) for t in n.targets) for n in walk_scope(f.node)):
            out[f.qualname] = f
    return out


def check_manual_patches(ctx):
    from ..cfg import Flow
    from ..typestate import NoReturn

    m = ctx.model
    for q, f in sorted(manual_patchers(ctx).items()):
        ctx.saw(f)
        g = NoReturn(m).cfg(f)
        NORMAL = ("n", "t", "f", "loop", "done", "ret", "brk", "cont", "caught", "fall")

        def transfer(node, st, kind, succ):
            state, saved = st
            a = node.ast
            if node.kind == "stmt" and isinstance(a, ast.Assign):
                if len(a.targets) == 1 and isinstance(a.targets[0], ast.Name) and _is_bootstrap_attr(a.value) and kind in NORMAL and state == "orig":
                    saved = saved | {a.targets[0].id}
                if any(_is_bootstrap_attr(t) for t in a.targets):
                    # a release store counts on its exceptional edge too (post-state)
                    if isinstance(a.value, ast.Name) and a.value.id in saved:
                        state = "orig"
                    elif kind in NORMAL:
                        state = "patched"
            return ((state, saved),)

        fl = Flow(g, ("orig", frozenset()), transfer)
        bad = False
        for ex, label in ((g.exit, "returns"), (g.exit_e, "is left by an Exception"), (g.exit_b, "is left by a BaseException")):
            for stt in fl.states_at(ex):
                if stt[0] == "patched":
                    bad = True
                    ctx.bad("C18.5", f, f.node, f"importlib's cache_from_source is replaced by hand and `{f.name}` {label} with the replacement still installed (e.g. the "
                            "hooked module raises at import): every later import in the process, hooked or not, reads and writes the jaxtyping-tagged cache",
                            path=fl.witness(ex, stt), construct=f"{f.name}: cache_from_source not restored when it {label}")
                    break
        if not bad:
            ctx.ok("C18.5", q, "hand-written patch restores the saved original on every exit")


def check_patch_extent(ctx):
    m = ctx.model
    ld = m.cls("_import_hook._JaxtypingLoader")
    n = 0
    helpers = set(manual_patchers(ctx))
    for name, meth in ld.methods.items():
        for w in [x for x in walk_scope(meth.node) if isinstance(x, ast.With)]:
            for item in w.items:
                ce = item.context_expr
                if not isinstance(ce, ast.Call):
                    continue
                rt = m.resolve_call(meth, ce)
                if rt.kind == "func" and rt.target.cls is ld:
                    # a helper method of the loader that returns the patch object
                    rets = [x.value for x in walk_scope(rt.target.node) if isinstance(x, ast.Return)]
                    if len(rets) == 1 and isinstance(rets[0], ast.Call) and m.resolve_call(rt.target, rets[0]).kind == "ext" and m.resolve_call(rt.target, rets[0]).target.endswith("mock.patch"):
                        ce = rets[0]
                        rt = m.resolve_call(rt.target, ce)
                is_mock = rt.kind == "ext" and rt.target.endswith("mock.patch")
                is_helper = rt.kind == "func" and rt.target.qualname in helpers
                if not (is_mock or is_helper):
                    continue
                n += 1
                ctx.saw(meth)
                tgt = ce.args[0] if ce.args else None
                if is_helper:
                    ctx.ok("C18.3", meth.qualname, f"patch applied through the helper {rt.target.name} (pairing judged by C18.5)")
                elif not (isinstance(tgt, ast.Constant) and tgt.value == "importlib._bootstrap_external.cache_from_source"):
                    ctx.bad("C18.3", meth, ce, f"the patch target is `{norm(tgt)}`, not importlib._bootstrap_external.cache_from_source: the tag is not applied where "
                            "importlib computes the cache path")
                else:
                    ctx.ok("C18.3", meth.qualname, "patch target is importlib._bootstrap_external.cache_from_source")
                calls = [c for b in w.body for c in ast.walk(b) if isinstance(c, ast.Call)]
                names = []
                for c in calls:
                    nm = c.func.attr if isinstance(c.func, ast.Attribute) else (c.func.id if isinstance(c.func, ast.Name) else None)
                    names.append((nm, c))
                executed = [(nm, c) for nm, c in names if nm in EXECUTES_MODULE_CODE]
                io = [(nm, c) for nm, c in names if nm in CACHE_IO]
                for nm, c in executed:
                    ctx.bad("C18.3", meth, c, f"`{short(c, 50)}` runs module code while importlib's cache_from_source is patched: every module imported by the hooked "
                            "module (hooked or not) is cached under the instrumented tag without being instrumented, and is later reused when it is hooked")
                if not io and not executed and (any(isinstance(y_, (ast.Yield, ast.YieldFrom)) for b_ in w.body for y_ in ast.walk(b_))
                                                or any("contextmanager" in norm(d_) for d_ in meth.decorators)):
                    # the `with patch(..)` lives in a generator context manager: what runs inside the patched region is whatever its users put
                    # into *their* with-blocks
                    raise AnalysisError(f"C18.3: the patch is applied by the context manager {meth.qualname} (`yield` inside `with patch(..)`); the region it covers at its use sites is not followed")
                if not io and not executed:
                    ctx.bad("C18.3", meth, w, "the patched region does not contain the cache read/write of the module (super().get_code): the tag is never applied",
                            construct=f"with patch(...): {short(w.body[0], 60)}")
                if io and not executed:
                    ctx.ok("C18.3", meth.qualname, f"patched region = `{short(io[0][1], 50)}` only: cache lookup/validation/write of this module, no module code is executed")
                # unknown calls in the region
                for nm, c in names:
                    if nm not in EXECUTES_MODULE_CODE | CACHE_IO | {"super", "partial", "patch", "get_hash", "source_to_code", "get_data", "set_data", "cache_from_source"} | {h.split(".")[-1] for h in helpers}:
                        ctx.bad("C18.3", meth, c, f"`{short(c, 50)}` inside the patched region is not known to be free of module execution")
    # every delegation to the cache-reading get_code must happen under this loader's own patch
    gc = ld.methods.get("get_code")
    if gc is not None and n > 0:
        inside = set()
        for w in [x for x in walk_scope(gc.node) if isinstance(x, ast.With)]:
            for b in w.body:
                for c in ast.walk(b):
                    if isinstance(c, ast.Call):
                        inside.add(id(c))
        for c in m.calls_in(gc):
            if isinstance(c.func, ast.Attribute) and c.func.attr == "get_code" and id(c) not in inside:
                ctx.bad("C18.3", gc, c, "the module's bytecode is looked up / written (super().get_code) on a path that does not install this loader's own cache tag: a module "
                        "imported while another hook's tag is in place is cached under that other typechecker's tag")
    if n == 0:
        f0 = ld.methods.get("exec_module") or ld.methods.get("get_code") or list(ld.methods.values())[0]
        ctx.bad("C18.3", f0, f0.node, "importlib's cache_from_source is never patched: instrumented bytecode is cached under the ordinary name and reused by "
                "uninstrumented runs (and vice versa)", construct="no patch of cache_from_source in _JaxtypingLoader")
    ctx.counters["patch_sites"] = n


def check_overrides(ctx):
    m = ctx.model
    ld = m.cls("_import_hook._JaxtypingLoader")
    bases = m.class_bases(ld)
    if "importlib.machinery.SourceFileLoader" not in bases:
        ctx.bad("C18.4", (ld.file, ld.qualname), ld.node, f"_JaxtypingLoader derives from {bases}, not SourceFileLoader", construct="loader base class")
    for name, meth in sorted(ld.methods.items()):
        if name in PROTOCOL_METHODS:
            ctx.bad("C18.4", meth, meth.node, f"the loader overrides `{name}`, which takes part in importlib's cache validation / loading protocol",
                    construct=f"override {name}")
        elif name in ALLOWED_OVERRIDES:
            ctx.ok("C18.4", meth.qualname, f"override of `{name}` is outside the stat/validation protocol")
        else:
            ctx.ok("C18.4", meth.qualname, f"`{name}` is a private helper (not part of importlib's loader protocol)")
        if name in ("get_code", "exec_module"):
            # must delegate to super() with its own arguments and return the result
            sup = [c for c in m.calls_in(meth) if isinstance(c.func, ast.Attribute) and c.func.attr == name and isinstance(c.func.value, ast.Call)
                   and isinstance(c.func.value.func, ast.Name) and c.func.value.func.id == "super"]
            if len(sup) != 1 or [norm(a) for a in sup[0].args] != meth.params[1:]:
                ctx.bad("C18.4", meth, meth.node, f"`{name}` does not delegate to super().{name}({', '.join(meth.params[1:])}) exactly once", construct=f"{name}: delegation")
            else:
                rets = [x for x in walk_scope(meth.node) if isinstance(x, ast.Return)]
                # ... possibly through a local bound to it once (`code = super().get_code(..)` inside the with-block, `return code` after it)
                via = {st.targets[0].id for st in walk_scope(meth.node) if isinstance(st, ast.Assign) and st.value is sup[0] and len(st.targets) == 1 and isinstance(st.targets[0], ast.Name)}
                via = {v_ for v_ in via if sum(1 for st in walk_scope(meth.node) if isinstance(st, ast.Assign) and any(isinstance(t_, ast.Name) and t_.id == v_ for t_ in st.targets)) == 1}
                if name == "get_code" and not any(x.value is sup[0] or (isinstance(x.value, ast.Name) and x.value.id in via) for x in rets):
                    ctx.bad("C18.4", meth, meth.node, "get_code does not return super().get_code(...)", construct="get_code: return")
                else:
                    ctx.ok("C18.4", meth.qualname, f"delegates to super().{name} with its own arguments")
    ctx.counters["loader_methods"] = len(ld.methods)
    ctx.floor("C18.4", "loader_methods", 3)


# ------------------------------------------------------------------------ C18.7
def check_nothing_imported_while_compiling(ctx):
    """importlib calls the loader's `source_to_code` from inside `get_code`, i.e. *inside* the region in which
    cache_from_source carries the instrumented tag.  Whatever source_to_code (and the transformer / Typechecker
    methods it drives) runs must therefore not import or execute modules named by the user: such a module -- and
    everything it imports -- would be compiled and cached, un-instrumented, under the instrumented tag, and be
    reused from there once it is hooked itself."""
    from ..core import region

    m = ctx.model
    ld = m.cls("_import_hook._JaxtypingLoader")
    s2c = need(ld.methods.get("source_to_code"), "_JaxtypingLoader.source_to_code not found")
    fns = {f.qualname: f for f in region(m, s2c, depth=3)}
    # methods driven through objects the loader holds: the transformer's visit_* methods, the Typechecker's methods
    work = list(fns.values())
    tc = m.classes.get("_import_hook.Typechecker")
    tr = m.classes.get("_import_hook.JaxtypingTransformer")
    seen_attr_calls = set()
    while work:
        f = work.pop()
        for c in m.calls_in(f):
            if not isinstance(c.func, ast.Attribute):
                continue
            recv = norm(c.func.value)
            tgt = None
            if tc is not None and recv.endswith("_typechecker") and c.func.attr in tc.methods:
                tgt = tc.methods[c.func.attr]
            elif tr is not None and c.func.attr == "visit" and "JaxtypingTransformer" in recv or (tr is not None and c.func.attr in ("visit", "generic_visit") and f.cls is tr):
                for nm_, mt in tr.methods.items():
                    if nm_.startswith("visit_") and mt.qualname not in fns:
                        fns[mt.qualname] = mt
                        work.append(mt)
                        for h_ in region(m, mt, depth=2):
                            if h_.qualname not in fns:
                                fns[h_.qualname] = h_
                                work.append(h_)
            if tgt is not None and tgt.qualname not in fns:
                for h_ in region(m, tgt, depth=2):
                    if h_.qualname not in fns:
                        fns[h_.qualname] = h_
                        work.append(h_)
    n_calls = 0
    for q, f in sorted(fns.items()):
        ctx.saw(f)
        for c in m.calls_in(f):
            n_calls += 1
            nm = norm(c.func)
            last = nm.split(".")[-1]
            dynamic_arg = bool(c.args) and not isinstance(c.args[0], ast.Constant)
            if last in ("__import__", "import_module", "exec", "run_module", "run_path") and dynamic_arg or (last == "eval" and dynamic_arg and nm == "eval"):
                ctx.bad("C18.7", f, c, f"`{short(c, 50)}` runs while importlib's cache_from_source carries the instrumented tag (source_to_code is called from inside get_code): "
                        "a module imported here, and everything it imports, is cached un-instrumented under the instrumented tag")
                continue
            # a call through an attribute that holds code generated with exec (`self._resolve = ns["resolve"]` after `exec(src, {}, ns)`)
            all_methods = {mn for k in m.classes.values() for mn in k.methods}
            if isinstance(c.func, ast.Attribute) and c.func.attr not in all_methods:
                # which class keeps such an attribute?  (the receiver may be `self` or a chain like `self._typechecker`)
                vals = []
                for k in m.classes.values():
                    if k.module.short.startswith("_typeguard"):
                        continue
                    vals += m.instance_attr_values(k, c.func.attr)
                for owner, v in vals:
                    if isinstance(v, ast.Subscript) and isinstance(v.value, ast.Name):
                        ns = v.value.id
                        execs = [x for x in walk_scope(owner.node) if isinstance(x, ast.Call) and norm(x.func) == "exec" and any(isinstance(a, ast.Name) and a.id == ns for a in x.args)]
                        if execs:
                            ctx.bad("C18.7", f, c, f"`{short(c, 40)}` calls code generated with `{short(execs[0], 40)}` in {owner.qualname} while importlib's cache_from_source carries the "
                                    "instrumented tag: what that code imports (the typechecker's own package and its imports) is cached un-instrumented under the instrumented tag")
    # C18.9: what the compiled code is depends only on the source and on the loader's typechecker -- the two things the cache tag and
    # importlib's own validation cover.  A process setting read while compiling (the disable switch, an environment variable) is an input
    # the tag does not carry: bytecode compiled under one value is reused under another
    n_set = 0
    for q, f in sorted(fns.items()):
        for x in ast.walk(f.node):
            hit = None
            if isinstance(x, ast.Attribute) and isinstance(x.ctx, ast.Load) and isinstance(x.value, ast.Name):
                b_ = m.resolve_name(f, x.value.id)
                if b_.kind == "modvar" and b_.target[0].short == "_config":
                    hit = norm(x)
            if isinstance(x, ast.Attribute) and norm(x) == "os.environ":
                hit = "os.environ"
            if isinstance(x, ast.Call) and norm(x.func) in ("os.getenv", "os.environ.get"):
                hit = norm(x.func)
            if hit:
                n_set += 1
                ctx.bad("C18.9", f, x, f"`{hit}` is read while a hooked module is compiled (source_to_code runs inside the patched region of get_code): what ends up in the cache file "
                        "under this hook's tag depends on a setting that is not part of the tag, so a later run with another value reuses bytecode that does not fit it",
                        construct=f"setting read while compiling: {hit}")
    if not n_set:
        ctx.ok("C18.9", s2c.qualname, f"none of the {len(fns)} functions run while compiling reads the config object or the environment")
    ctx.counters["calls_under_the_tag"] = n_calls
    ctx.ok("C18.7", s2c.qualname, f"{len(fns)} functions run from source_to_code (inside the patched region of get_code), {n_calls} calls: none imports / executes a module named at run time")


# ------------------------------------------------------------------------ C18.8
_MUTABLE_CTORS = {"dict", "list", "set", "defaultdict", "OrderedDict", "WeakValueDictionary", "WeakKeyDictionary", "LRUCache", "Counter", "deque"}


def _is_mutable_literal(v) -> bool:
    if isinstance(v, (ast.Dict, ast.List, ast.Set)):
        return True
    return isinstance(v, ast.Call) and norm(v.func).split(".")[-1] in _MUTABLE_CTORS


def check_no_checker_blind_code_memo(ctx):
    m = ctx.model
    ld = m.cls("_import_hook._JaxtypingLoader")
    mod = m.module("_import_hook")
    shared_attrs = {}
    for c in m.classes.values():
        if c.module.short != "_import_hook":
            continue
        for st in c.node.body:
            if isinstance(st, ast.Assign) and len(st.targets) == 1 and isinstance(st.targets[0], ast.Name) and _is_mutable_literal(st.value):
                shared_attrs[st.targets[0].id] = c.qualname
            if isinstance(st, ast.AnnAssign) and isinstance(st.target, ast.Name) and st.value is not None and _is_mutable_literal(st.value):
                shared_attrs[st.target.id] = c.qualname
    shared_mod = {nm for nm, vals in mod.assigns.items() if vals and all(v is not None and _is_mutable_literal(v) for v in vals)}
    ctx.counters["shared_containers_in_hook_module"] = len(shared_attrs) + len(shared_mod)
    ctx.floor("C18.8", "shared_containers_in_hook_module", 1)  # Typechecker.lookup
    n = 0
    for name, meth in sorted(ld.methods.items()):
        ctx.saw(meth)
        selfn = meth.params[0] if meth.params else "self"

        def is_shared(base):
            if isinstance(base, ast.Attribute) and base.attr in shared_attrs:
                # an instance attribute of the same name set in the loader's own __init__ shadows nothing here: class-level containers
                # are reached through any instance
                return f"{shared_attrs[base.attr]}.{base.attr}"
            if isinstance(base, ast.Name) and base.id in shared_mod and m.resolve_name(meth, base.id).kind == "modvar":
                return f"_import_hook.{base.id}"
            return None

        stores = []
        for st in walk_scope(meth.node):
            if isinstance(st, ast.Assign):
                for t in st.targets:
                    if isinstance(t, ast.Subscript) and is_shared(t.value):
                        stores.append((st, t.value, t.slice, is_shared(t.value)))
            if isinstance(st, ast.Call) and isinstance(st.func, ast.Attribute) and st.func.attr == "setdefault" and st.args and is_shared(st.func.value):
                stores.append((st, st.func.value, st.args[0], is_shared(st.func.value)))
        for st, base, key, label in stores:
            n += 1
            btxt = norm(base)
            reads = [x for x in walk_scope(meth.node) if isinstance(x, (ast.Subscript, ast.Attribute, ast.Name)) and isinstance(getattr(x, "ctx", None), ast.Load) and norm(x) == btxt]
            # (the store itself loads the container once)
            if len(reads) <= 1 and not any(isinstance(x, ast.Compare) and any(norm(c_) == btxt for c_ in x.comparators) for x in walk_scope(meth.node)):
                ctx.ok("C18.8", meth.qualname, f"`{short(st, 60)}` writes the shared `{label}`, which this method never reads back")
                continue
            ktxt = norm(key)
            if isinstance(key, ast.Name) and key.id not in meth.params:
                from . import c05

                ktxt = " ".join(norm(d[1]) for d in c05._assignments_to(meth, key.id) if d[1] is not None) or ktxt
            if "_typechecker" in ktxt or "get_hash" in ktxt or "typechecker" in ktxt:
                ctx.ok("C18.8", meth.qualname, f"memo `{label}` is keyed with the loader's checker (`{ktxt[:60]}`)")
            else:
                ctx.bad("C18.8", meth, st, f"`{short(st, 60)}` memoises per-checker results of this loader in `{label}`, which every hook of the process shares, under a key "
                        f"(`{ktxt[:70]}`) that does not contain the loader's typechecker: code instrumented for one typechecker is reused by a hook installed with another, "
                        "and then cached on disk under that other hook's tag", construct=f"checker-blind shared memo {label}")
    ctx.counters["shared_keyed_stores_by_loader"] = n
