"""C10 -- the import hook only adds decorators: everything else in the module is untouched.

A frame condition over JaxtypingTransformer, hence over *all* programs it will ever be
applied to (the IPython magic uses the same class):
  C10.1 visitor surface: derives from ast.NodeVisitor, defines exactly visit_Module,
        visit_ClassDef, visit_FunctionDef, does not override visit/generic_visit.
  C10.2 write set: the complete set of stores that can reach a visited node is: one
        `body.insert(i, Import(jaxtyping))` followed by `break` (at most one insertion) at the
        first statement that is neither a `from __future__ import` nor a constant expression
        (docstring) -- decided by evaluating the skip predicate over a table of statement
        kinds; `decorator_list.insert(0, D)` for classes (outermost); `decorator_list.append(D)`
        for functions (innermost).  No other attribute store, del, or mutator call.
  C10.3 locations: in every ast.copy_location(a, b), a is the fresh decorator and b the
        visited node -- positions of existing nodes are never written.
  C10.4 traversal: each visit method calls self.generic_visit(node) on every normal path
        (=> every nesting depth) and returns `node` itself.
  C10.5 fresh decorator per site: get_ast is not memoised and returns a sub-tree of an
        ast.parse(...) evaluated in that very call.
  C10.6 template well-formedness and key agreement: the decorator template (folded with a
        symbolic hash and parsed) is jaxtyping.jaxtyped(typechecker=jaxtyping._import_hook.
        Typechecker.lookup['<h>']); root name = alias of the inserted import; jaxtyped is
        exported; every non-raising path of Typechecker.__init__ stores lookup[self.hash].
  C10.7 pipeline order in source_to_code: parse (PyCF_ONLY_AST) -> visit ->
        fix_missing_locations -> compile, both compile calls with dont_inherit=True.
Not decided: behaviour of a module that shadows the name `jaxtyping`.
"""
from __future__ import annotations

import ast

from ..cfg import Flow
from ..core import AnalysisError, RuleContext, need, norm, short
from ..effects import Effects
from ..model import walk_scope, walk_with_lambdas
from ..roles import node_calls, roles_for
from ..typestate import NoReturn

EXPLANATION = __doc__
NORMAL = ("n", "t", "f", "loop", "done", "ret", "brk", "cont", "caught", "fall")
EXPECTED_VISITS = {"visit_Module", "visit_ClassDef", "visit_FunctionDef"}


def run(ctx: RuleContext):
    m = ctx.model
    r = roles_for(m)
    ctx.sub(check_surface, ctx)
    ctx.sub(check_docstring_truthiness, ctx)
    ctx.sub(check_write_set, ctx, r)
    ctx.sub(check_locations, ctx)
    ctx.sub(check_traversal, ctx)
    ctx.sub(check_fresh_decorator, ctx)
    ctx.sub(check_template, ctx)
    ctx.sub(check_pipeline, ctx)
    ctx.sub(check_all_returns_instrumented, ctx, "C10.7")
    ctx.sub(check_ipython_same_class, ctx)
    # C10.8: in IPython the transformer is applied exactly once per cell: choosing a typechecker removes every
    # JaxtypingTransformer installed before (front-end clause of C11.5)
    from .c11 import check_front_ends

    ctx.reuse("C10.8", check_front_ends, ctx)


def transformer(ctx):
    return ctx.model.cls("_import_hook.JaxtypingTransformer")


# ------------------------------------------------------------------------ C10.1
def check_surface(ctx):
    m = ctx.model
    c = transformer(ctx)
    bases = m.class_bases(c)
    if "ast.NodeVisitor" not in bases:
        ctx.bad("C10.1", (c.file, c.qualname), c.node, f"JaxtypingTransformer derives from {bases}, not ast.NodeVisitor: with another base the "
                "return values of the visit methods replace / delete nodes", construct=f"class JaxtypingTransformer({', '.join(map(str, bases))})")
    else:
        ctx.ok("C10.1", c.qualname, "derives from ast.NodeVisitor (return values of nested visits are ignored; nothing can be deleted)")
    visits = {n for n in c.methods if n.startswith("visit") or n == "generic_visit"}
    for v in sorted(visits - EXPECTED_VISITS):
        f = c.methods[v]
        if v in ("visit", "generic_visit"):
            ctx.bad("C10.1", f, f.node, f"the transformer overrides `{v}`: the traversal itself is changed", construct=f"def {v}")
        else:
            ctx.bad("C10.1", f, f.node, f"the transformer handles an additional node kind (`{v}`): only modules, classes and synchronous "
                    "function definitions may be touched", construct=f"def {v}")
    # visit methods bound by assignment in the class body (`visit_AsyncFunctionDef = visit_FunctionDef`) or on the class
    # afterwards (`JaxtypingTransformer.visit_Lambda = ...`, `setattr(JaxtypingTransformer, "visit_...", ...)`)
    for st in c.node.body:
        tg = st.targets if isinstance(st, ast.Assign) else [st.target] if isinstance(st, (ast.AnnAssign, ast.AugAssign)) else []
        for t in tg:
            for x in ast.walk(t):
                if isinstance(x, ast.Name) and (x.id.startswith("visit") or x.id == "generic_visit") and x.id not in EXPECTED_VISITS:
                    what = "the traversal itself is changed" if x.id in ("visit", "generic_visit") else \
                        "only modules, classes and synchronous function definitions may be touched"
                    ctx.bad("C10.1", (c.file, c.qualname), st, f"the transformer binds `{x.id}` in its class body (`{short(st, 60)}`): {what}", construct=f"{x.id} = ...")
    mod_ = c.module
    for st in ast.walk(mod_.tree):
        if isinstance(st, ast.Assign):
            for t in st.targets:
                if isinstance(t, ast.Attribute) and isinstance(t.value, ast.Name) and t.value.id == c.name and (t.attr.startswith("visit") or t.attr == "generic_visit") \
                        and t.attr not in EXPECTED_VISITS:
                    ctx.bad("C10.1", (c.file, c.qualname), st, f"`{short(st, 60)}` adds the visit method `{t.attr}` to the transformer", construct=f"{c.name}.{t.attr} = ...")
        if isinstance(st, ast.Call) and isinstance(st.func, ast.Name) and st.func.id == "setattr" and len(st.args) == 3 and isinstance(st.args[0], ast.Name) and st.args[0].id == c.name \
                and isinstance(st.args[1], ast.Constant) and isinstance(st.args[1].value, str) and st.args[1].value.startswith("visit") and st.args[1].value not in EXPECTED_VISITS:
            ctx.bad("C10.1", (c.file, c.qualname), st, f"`{short(st, 60)}` adds the visit method `{st.args[1].value}` to the transformer", construct=f"setattr({c.name}, {st.args[1].value!r}, ...)")
    for v in sorted(EXPECTED_VISITS - visits):
        ctx.bad("C10.1", (c.file, c.qualname), c.node, f"`{v}` is missing", construct=f"no {v}")
    if visits == EXPECTED_VISITS:
        ctx.ok("C10.1", c.qualname, "defines exactly visit_Module, visit_ClassDef, visit_FunctionDef")
    ctx.counters["visit_methods"] = len(visits)
    ctx.floor("C10.1", "visit_methods", 3)


# ------------------------------------------------------------------------ C10.2
STMT_KINDS = [
    ("from __future__ import x", {"type": "ImportFrom", "module": "__future__"}, True),
    ("from os import x", {"type": "ImportFrom", "module": "os"}, False),
    ("docstring / constant expression", {"type": "Expr", "value": "Constant"}, True),
    ("expression statement (call)", {"type": "Expr", "value": "Call"}, False),
    ("import os", {"type": "Import"}, False),
    ("def f(): ...", {"type": "FunctionDef"}, False),
    ("async def f(): ...", {"type": "AsyncFunctionDef"}, False),
    ("class A: ...", {"type": "ClassDef"}, False),
    ("x = 1", {"type": "Assign"}, False),
    ("if c: ...", {"type": "If"}, False),
    ("try: ...", {"type": "Try"}, False),
    ("with c: ...", {"type": "With"}, False),
    ("for x in y: ...", {"type": "For"}, False),
    ("while c: ...", {"type": "While"}, False),
    ("@d\\ndef f(): ... (decorated)", {"type": "FunctionDef"}, False),
]


def _eval_skip(test, cls, var):
    if isinstance(test, ast.BoolOp):
        vals = []
        for v in test.values:
            x = _eval_skip(v, cls, var)
            if isinstance(test.op, ast.And) and x is False:
                return False
            if isinstance(test.op, ast.Or) and x is True:
                return True
            vals.append(x)
        return isinstance(test.op, ast.And)
    if isinstance(test, ast.UnaryOp) and isinstance(test.op, ast.Not):
        return not _eval_skip(test.operand, cls, var)
    if isinstance(test, ast.IfExp):
        return _eval_skip(test.body if _eval_skip(test.test, cls, var) else test.orelse, cls, var)
    if isinstance(test, ast.Constant):
        return bool(test.value)
    if isinstance(test, ast.Call) and isinstance(test.func, ast.Name) and test.func.id == "isinstance" and len(test.args) == 2:
        obj, t = test.args
        names = [x.attr if isinstance(x, ast.Attribute) else getattr(x, "id", "?") for x in (t.elts if isinstance(t, ast.Tuple) else [t])]
        if isinstance(obj, ast.Name) and obj.id == var:
            return cls["type"] in names or ("stmt" in names) or ("AST" in names)
        if isinstance(obj, ast.Attribute) and obj.attr == "value" and isinstance(obj.value, ast.Name) and obj.value.id == var:
            return cls.get("value") in names or (cls.get("value") == "Constant" and "Str" in names)
    if isinstance(test, ast.Compare) and len(test.ops) == 1 and isinstance(test.ops[0], (ast.Eq, ast.NotEq)):
        l, rr = test.left, test.comparators[0]
        if isinstance(l, ast.Attribute) and l.attr == "module" and isinstance(rr, ast.Constant):
            v = cls.get("module") == rr.value
            return v if isinstance(test.ops[0], ast.Eq) else not v
    raise AnalysisError(f"C10.2: unrecognised atom `{norm(test)}` in the import-placement predicate")


def check_docstring_truthiness(ctx):
    """ast.get_docstring() returns Optional[str]: using it in a boolean context conflates an
    empty docstring with no docstring, so the import lands before an empty docstring."""
    m = ctx.model
    c = transformer(ctx)
    for name, f in sorted(c.methods.items()):
        for n in ast.walk(f.node):
            tests = []
            if isinstance(n, (ast.If, ast.While, ast.IfExp)):
                tests.append(n.test)
            if isinstance(n, ast.BoolOp):
                tests += n.values
            if isinstance(n, ast.UnaryOp) and isinstance(n.op, ast.Not):
                tests.append(n.operand)
            for t in tests:
                if isinstance(t, ast.Call) and norm(t.func) in ("ast.get_docstring", "get_docstring"):
                    ctx.bad("C10.2", f, t, "the docstring is detected by the truthiness of ast.get_docstring(...): an empty (or whitespace-only) docstring is "
                            "treated as absent, so `import jaxtyping` is inserted before it (the module's __doc__ changes; a following "
                            "`from __future__ import` becomes a SyntaxError)")


def check_write_set(ctx, r):
    m = ctx.model
    c = transformer(ctx)
    eff = Effects(m, r)
    n_writes = 0
    for name, f in sorted(c.methods.items()):
        ctx.saw(f)
        node_param = f.params[1] if len(f.params) > 1 else None
        # names derived from the visited node (loop variables over node.body etc.)
        derived = {node_param} if node_param else set()
        for n in walk_scope(f.node):
            if isinstance(n, (ast.For,)):
                if any(isinstance(x, ast.Name) and x.id in derived for x in ast.walk(n.iter)):
                    for x in ast.walk(n.target):
                        if isinstance(x, ast.Name):
                            derived.add(x.id)
            if isinstance(n, ast.Assign) and any(isinstance(x, ast.Name) and x.id in derived for x in ast.walk(n.value)):
                if not (isinstance(n.value, ast.Call)):
                    for t in n.targets:
                        if isinstance(t, ast.Name):
                            derived.add(t.id)
        for s in eff.stores(f):
            root = s.root_name
            if s.kind == "self":
                continue  # the transformer's own bookkeeping (self._parents)
            if s.kind == "local" and root not in derived:
                continue
            if not (root in derived or s.kind in ("param", "freevar", "unknown", "call-result", "modvar", "class", "ext", "global")):
                continue
            n_writes += 1
            call = s.node if isinstance(s.node, ast.Call) else None
            if name == "visit_Module" and s.how == "call:insert" and s.attr == "body" and root == node_param:
                _check_import_insertion(ctx, f, call, node_param)
            elif name == "visit_ClassDef" and s.how == "call:insert" and s.attr == "decorator_list" and root == node_param:
                idx = call.args[0]
                if isinstance(idx, ast.Constant) and idx.value == 0:
                    ctx.ok("C10.2", f.qualname, "class decorator inserted at position 0 (outermost)")
                else:
                    ctx.bad("C10.2", f, call, "the class decorator is not placed outermost (decorator_list.insert(0, ...))")
                _check_fresh_decorator_arg(ctx, f, call.args[1] if len(call.args) > 1 else None, call)
            elif name == "visit_ClassDef" and s.how == "call:append" and s.attr == "decorator_list":
                ctx.bad("C10.2", f, call, "the class decorator is appended (innermost) instead of placed outermost: it would run before @dataclass")
            elif name == "visit_FunctionDef" and s.how == "call:append" and s.attr == "decorator_list" and root == node_param:
                ctx.ok("C10.2", f.qualname, "function decorator appended (innermost)")
                _check_fresh_decorator_arg(ctx, f, call.args[0] if call.args else None, call)
            elif name == "visit_FunctionDef" and s.how == "call:insert" and s.attr == "decorator_list":
                ctx.bad("C10.2", f, call, "the function decorator is not placed innermost (decorator_list.append(...)): it would wrap the "
                        "other decorators (jax.custom_jvp, ...) instead of the plain function")
            else:
                ctx.bad("C10.2", f, s.node, f"the transformer writes to the visited tree outside the three allowed insertions: {s.how} on "
                        f"`{root}{'.' + s.attr if s.attr else ''}`")
        # plain attribute assignment through a derived name is a store too (covered above);
        # direct Name rebinding of node is harmless
    ctx.counters["tree_write_sites"] = n_writes
    ctx.floor("C10.2", "tree_write_sites", 3)
    # each of the three methods must perform its insertion
    for name, how in (("visit_Module", "insert"), ("visit_ClassDef", "insert"), ("visit_FunctionDef", "append")):
        f = c.methods.get(name)
        if f is None:
            continue
        has = any(isinstance(n, ast.Call) and isinstance(n.func, ast.Attribute) and n.func.attr == how for n in walk_scope(f.node))
        if not has:
            ctx.bad("C10.2", f, f.node, f"{name} no longer inserts anything", construct=f"{name}: no {how}")
            continue
        if name == "visit_Module":
            continue
        # "one decorator on EVERY def / class": the insertion is unconditional -- it lies on every path to every
        # normal return (a skip for defs that 'already carry a jaxtyped decorator', for private names, ... leaves
        # those definitions unchecked)
        g = NoReturn(m).cfg(f)
        ins = [n for n in g.live_nodes() if any(isinstance(c_.func, ast.Attribute) and c_.func.attr == how and "decorator_list" in norm(c_.func.value) for c_ in node_calls(n))]
        if not ins:
            continue
        dom = g.dominators()
        for rn in [n for n in g.live_nodes() if n.kind == "return"]:
            if not any(i_.id in dom[rn.id] for i_ in ins):
                cond = [g.nodes[i] for i in dom[ins[0].id] if g.nodes[i].kind == "test"]
                ctx.bad("C10.2", f, cond[-1].ast if cond else rn.ast, f"{name} can return without having inserted the decorator"
                        + (f" (the insertion is conditional on `{short(cond[-1].ast, 60)}`)" if cond else "") + ": such definitions stay un-instrumented",
                        construct=f"{name}: decorator insertion is conditional")
                break
        else:
            ctx.ok("C10.2", f.qualname, "the decorator insertion lies on every path to every return")


def _check_fresh_decorator_arg(ctx, f, arg, call):
    if not isinstance(arg, ast.Name):
        ctx.bad("C10.2", f, call, "the inserted decorator is not a fresh tree obtained from get_ast()")
        return
    from . import c05

    defs = c05._assignments_to(f, arg.id)
    ok = len(defs) == 1 and isinstance(defs[0][1], ast.Call) and isinstance(defs[0][1].func, ast.Attribute) and defs[0][1].func.attr == "get_ast"
    if not ok and len(defs) == 1 and isinstance(defs[0][1], ast.Call):
        # a helper method that returns the fresh decorator
        t = ctx.model.resolve_call(f, defs[0][1])
        if t.kind == "func" and t.target.cls is f.cls:
            rets = [x.value for x in walk_scope(t.target.node) if isinstance(x, ast.Return)]
            if len(rets) == 1 and isinstance(rets[0], ast.Name):
                d2 = c05._assignments_to(t.target, rets[0].id)
                ok = len(d2) == 1 and isinstance(d2[0][1], ast.Call) and isinstance(d2[0][1].func, ast.Attribute) and d2[0][1].func.attr == "get_ast"
    if not ok:
        ctx.bad("C10.2", f, call, f"the inserted decorator `{arg.id}` is not (only) the result of get_ast() evaluated in this call")
    else:
        ctx.ok("C10.2", f.qualname, f"inserted decorator `{arg.id}` = {short(defs[0][1], 40)} evaluated in this call")


def _check_import_insertion(ctx, f, call, node_param):
    # inside `for i, child in enumerate(node.body)`; index argument is i; followed by break
    loops = [n for n in walk_scope(f.node) if isinstance(n, ast.For) and any(x is call for x in ast.walk(n))]
    if len(loops) != 1:
        raise AnalysisError("C10.2: the import insertion is not inside exactly one loop over the module body")
    lp = loops[0]
    ok_iter = (isinstance(lp.iter, ast.Call) and isinstance(lp.iter.func, ast.Name) and lp.iter.func.id == "enumerate" and lp.iter.args
               and norm(lp.iter.args[0]) == f"{node_param}.body" and isinstance(lp.target, ast.Tuple) and len(lp.target.elts) == 2)
    if not ok_iter:
        raise AnalysisError("C10.2: loop over the module body has an unrecognised form")
    ivar, cvar = lp.target.elts[0].id, lp.target.elts[1].id
    if not (isinstance(call.args[0], ast.Name) and call.args[0].id == ivar):
        ctx.bad("C10.2", f, call, f"`import jaxtyping` is inserted at `{norm(call.args[0])}`, not at the position of the first ordinary statement")
    # the statement list containing the insertion: insertion followed by break
    def find_block(stmts):
        for i, st in enumerate(stmts):
            if isinstance(st, ast.Expr) and st.value is call:
                return stmts, i
            for sub in (getattr(st, "body", []), getattr(st, "orelse", [])):
                if isinstance(sub, list):
                    r_ = find_block(sub)
                    if r_:
                        return r_
        return None

    blk = find_block(lp.body)
    need(blk, "C10.2: insertion statement not found in loop body")
    stmts, i = blk
    if not (i + 1 < len(stmts) and isinstance(stmts[i + 1], ast.Break)):
        ctx.bad("C10.2", f, call, "the import insertion is not immediately followed by `break`: more than one import could be inserted / the loop "
                "continues over a list it is mutating")
    else:
        ctx.ok("C10.2", f.qualname, "exactly one insertion per module (insert; break)")
    # what is inserted
    ins = call.args[1] if len(call.args) > 1 else None
    good = (isinstance(ins, ast.Call) and norm(ins.func) in ("ast.Import",) and len(ins.keywords) == 1 and ins.keywords[0].arg == "names")
    alias = None
    if good:
        lst = ins.keywords[0].value
        if isinstance(lst, ast.List) and len(lst.elts) == 1 and isinstance(lst.elts[0], ast.Call) and norm(lst.elts[0].func) == "ast.alias":
            a = lst.elts[0]
            args = list(a.args) + [k.value for k in a.keywords]
            if args and isinstance(args[0], ast.Constant):
                alias = (args[0].value, args[1].value if len(args) > 1 and isinstance(args[1], ast.Constant) else None)
    if alias != ("jaxtyping", None):
        ctx.bad("C10.2", f, call, f"the inserted statement is not `import jaxtyping` (found alias {alias})")
    else:
        ctx.ok("C10.2", f.qualname, "inserted statement is `import jaxtyping`")
    # the skip predicate as a table over statement kinds
    # walk the if/elif chain of the loop body
    def outcome(cls):
        # the loop body is walked for one statement kind: tests are decided by _eval_skip, `continue` / falling off the end is "skip",
        # reaching the insertion is "insert"; guard clauses, if/elif chains and nested ifs are the same walk
        def walk(stmts_):
            for st in stmts_:
                if isinstance(st, ast.If):
                    v = _eval_skip(st.test, cls, cvar)
                    r_ = walk(st.body if v else st.orelse)
                    if r_ is not None:
                        return r_
                    continue
                if isinstance(st, ast.Continue):
                    return "skip"
                if isinstance(st, ast.Pass):
                    continue
                if isinstance(st, ast.Expr) and st.value is call:
                    return "insert"
                if isinstance(st, ast.Break):
                    return "skip"  # nothing inserted for this statement (and none later): judged by the insertion rules above
                raise AnalysisError("C10.2: import-placement loop body has an unrecognised form")
            return None

        r_ = walk(lp.body)
        return "skip" if r_ is None else r_

    bad = []
    for label, cls, want_skip in STMT_KINDS:
        got = outcome(cls)
        if (got == "skip") != want_skip:
            bad.append((label, got))
    if bad:
        for label, got in bad:
            if got == "skip":
                ctx.bad("C10.2", f, lp, f"`import jaxtyping` is placed after a `{label}` statement: a definition there would be decorated with "
                        "`jaxtyping.jaxtyped` before the name `jaxtyping` is bound (NameError at import)", construct=f"placement skips `{label}`")
            else:
                ctx.bad("C10.2", f, lp, f"`import jaxtyping` is inserted before a `{label}`: the docstring / __future__ flags of the module change "
                        "(SyntaxError for a late __future__ import, lost __doc__)", construct=f"placement does not skip `{label}`")
    else:
        ctx.ok("C10.2", f.qualname, f"placement predicate over {len(STMT_KINDS)} statement kinds: skips exactly __future__ imports and constant expressions")


# ------------------------------------------------------------------------ C10.3
def check_locations(ctx):
    m = ctx.model
    c = transformer(ctx)
    from . import c05

    n = 0
    for name, f in sorted(c.methods.items()):
        node_param = f.params[1] if len(f.params) > 1 else None
        for call in m.calls_in(f):
            d = norm(call.func)
            if d in ("ast.copy_location", "copy_location"):
                n += 1
                a, b = call.args[0], call.args[1]
                fresh = isinstance(a, ast.Name) and a.id != node_param and all(
                    isinstance(v, ast.Call) and isinstance(v.func, ast.Attribute) and v.func.attr == "get_ast" for _, v, _ in c05._assignments_to(f, a.id))
                b_is_node = isinstance(b, ast.Name) and b.id == node_param
                if b_is_node and not name.startswith("visit_"):
                    # a helper: its node parameter must be the visited node at every call site
                    from ..callgraph import CallGraph, trace_value

                    cg_ = CallGraph(m)
                    srcs = trace_value(cg_, f, b)
                    b_is_node = bool(srcs) and all(fn_.name.startswith("visit_") and isinstance(e, ast.Name) and len(fn_.params) > 1 and e.id == fn_.params[1] for fn_, e in srcs)
                if fresh and b_is_node:
                    ctx.ok("C10.3", f.qualname, f"copy_location({a.id}, {b.id}): position copied from the visited node onto the fresh decorator")
                else:
                    ctx.bad("C10.3", f, call, f"ast.copy_location({norm(a)}, {norm(b)}) writes the position of an existing node (the first argument "
                            "must be the fresh decorator, the second the visited node)")
            elif d in ("ast.increment_lineno", "ast.fix_missing_locations") or (isinstance(call.func, ast.Attribute) and call.func.attr in ("increment_lineno",)):
                ctx.bad("C10.3", f, call, f"`{d}` inside the transformer rewrites positions of existing nodes")
        for n_ in walk_scope(f.node):
            if isinstance(n_, ast.Attribute) and isinstance(n_.ctx, ast.Store) and n_.attr in ("lineno", "col_offset", "end_lineno", "end_col_offset"):
                root = n_.value
                if isinstance(root, ast.Name) and root.id == node_param:
                    ctx.bad("C10.3", f, n_, "a position attribute of the visited node is assigned")
    ctx.counters["copy_location_sites"] = n
    ctx.floor("C10.3", "copy_location_sites", 1)


# ------------------------------------------------------------------------ C10.4
def check_traversal(ctx):
    m = ctx.model
    c = transformer(ctx)
    # helper methods that (on every normal path) call generic_visit on their node parameter and return it
    def analyse_method(f, helpers):
        node_param = f.params[1]
        g = NoReturn(m).cfg(f)

        def is_gv(call):
            if not (isinstance(call.func, ast.Attribute) and isinstance(call.func.value, ast.Name) and call.func.value.id == f.params[0]
                    and len(call.args) == 1 and isinstance(call.args[0], ast.Name) and call.args[0].id == node_param):
                return False
            return call.func.attr == "generic_visit" or call.func.attr in helpers

        def transfer(node, st, kind, succ):
            if any(is_gv(c_) for c_ in node_calls(node)) and kind in NORMAL:
                return (min(st + 1, 2),)
            return (st,)

        fl = Flow(g, 0, transfer)
        always = all(stt >= 1 for stt in fl.states_at(g.exit)) and bool(fl.states_at(g.exit))
        rets_ok = True
        for n in g.live_nodes():
            if n.kind == "return":
                v = n.ast.value
                if isinstance(v, ast.Name) and v.id == node_param:
                    continue
                if isinstance(v, ast.Call) and is_gv(v) and v.func.attr in helpers:
                    continue
                rets_ok = False
        return always and rets_ok and g.falloff.id not in g.reachable

    helpers = set()
    for hname, hf in c.methods.items():
        if not hname.startswith("visit") and hname not in ("__init__", "generic_visit") and len(hf.params) == 2:
            if analyse_method(hf, set()):
                helpers.add(hname)
    for name in sorted(EXPECTED_VISITS & set(c.methods)):
        f = c.methods[name]
        node_param = f.params[1]
        g = NoReturn(m).cfg(f)

        def is_gv(call):
            if not (isinstance(call.func, ast.Attribute) and isinstance(call.func.value, ast.Name) and call.func.value.id == f.params[0]
                    and len(call.args) == 1 and isinstance(call.args[0], ast.Name) and call.args[0].id == node_param):
                return False
            return call.func.attr == "generic_visit" or call.func.attr in helpers

        def transfer(node, st, kind, succ):
            if any(is_gv(c_) for c_ in node_calls(node)) and kind in NORMAL:
                return (min(st + 1, 2),)
            return (st,)

        fl = Flow(g, 0, transfer)
        ok = True
        for stt in fl.states_at(g.exit):
            if stt == 0:
                ok = False
                ctx.bad("C10.4", f, f.node, f"{name} can return without calling self.generic_visit({node_param}): nested classes and functions "
                        "below this node would not be instrumented", path=fl.witness(g.exit, stt), construct=f"{name}: path without generic_visit")
        for n in g.live_nodes():
            if n.kind == "return":
                v = n.ast.value
                via_helper = isinstance(v, ast.Call) and is_gv(v) and v.func.attr in helpers
                if not (isinstance(v, ast.Name) and v.id == node_param) and not via_helper:
                    ok = False
                    ctx.bad("C10.4", f, n.ast, f"{name} returns `{norm(v)}` instead of the visited node itself")
        if g.falloff.id in g.reachable:
            ok = False
            ctx.bad("C10.4", f, f.node, f"{name} can fall off its end and return None instead of the visited node", construct=f"{name}: implicit return None")
        # node must not be rebound before the return
        for n in walk_scope(f.node):
            if isinstance(n, ast.Name) and isinstance(n.ctx, ast.Store) and n.id == node_param:
                ok = False
                ctx.bad("C10.4", f, n, f"`{node_param}` is rebound inside {name}")
        if ok:
            ctx.ok("C10.4", f.qualname, "generic_visit(node) on every normal path; returns the visited node itself")


# ------------------------------------------------------------------------ C10.5 / C10.6
def _fold_template(e, holes):
    """Fold a string expression to text, replacing holes by markers."""
    if isinstance(e, ast.Constant) and isinstance(e.value, str):
        return e.value
    if isinstance(e, ast.JoinedStr):
        out = ""
        for v in e.values:
            if isinstance(v, ast.Constant):
                out += v.value
            else:
                holes.append(v.value)
                out += f"__HOLE{len(holes) - 1}__"
        return out
    if isinstance(e, ast.BinOp) and isinstance(e.op, ast.Add):
        return _fold_template(e.left, holes) + _fold_template(e.right, holes)
    raise AnalysisError(f"C10.6: decorator template is not a foldable string expression: `{short(e, 60)}`")


def check_fresh_decorator(ctx):
    m = ctx.model
    tc = m.cls("_import_hook.Typechecker")
    ga = need(tc.methods.get("get_ast"), "Typechecker.get_ast not found")
    ctx.saw(ga)
    if ga.decorators:
        ctx.bad("C10.5", ga, ga.node, f"get_ast is decorated ({', '.join(norm(d) for d in ga.decorators)}): one decorator tree would be shared by all "
                "sites and copy_location would overwrite its position each time", construct="decorated get_ast")
    else:
        ctx.ok("C10.5", ga.qualname, "not memoised")
    rets = [x for x in walk_scope(ga.node) if isinstance(x, ast.Return)]
    need(len(rets) == 1, "get_ast: expected one return")
    v = rets[0].value
    parse = [c for c in ast.walk(v) if isinstance(c, ast.Call) and norm(c.func) == "ast.parse"]
    if not parse:
        ctx.bad("C10.5", ga, rets[0], "get_ast does not return a sub-tree of an ast.parse(...) evaluated in this call (stored tree shared between sites?)")
    else:
        ctx.ok("C10.5", ga.qualname, "returns a sub-tree of ast.parse(...) evaluated in this call")


def check_template(ctx):
    m = ctx.model
    tc = m.cls("_import_hook.Typechecker")
    ga = need(tc.methods.get("get_ast"), "Typechecker.get_ast not found")
    rets = [x for x in walk_scope(ga.node) if isinstance(x, ast.Return)]
    v = rets[0].value
    parse = [c for c in ast.walk(v) if isinstance(c, ast.Call) and norm(c.func) == "ast.parse"]
    need(parse, "get_ast: no ast.parse call")
    holes = []
    text = _fold_template(parse[0].args[0], holes)
    try:
        tree = ast.parse(text)
    except SyntaxError as e:
        ctx.bad("C10.6", ga, parse[0], f"the decorator template does not parse: {e}")
        return
    # the path taken: .body[0].decorator_list[0]
    path = norm(v).replace(norm(parse[0]), "T")
    if path != "T.body[0].decorator_list[0]":
        raise AnalysisError(f"C10.6: get_ast takes `{path}` from the parsed template (expected T.body[0].decorator_list[0])")
    st0 = tree.body[0]
    if not (isinstance(st0, (ast.FunctionDef, ast.ClassDef)) and st0.decorator_list):
        ctx.bad("C10.6", ga, parse[0], "the template's first statement has no decorator")
        return
    dec = st0.decorator_list[0]
    want = "jaxtyping.jaxtyped(typechecker=jaxtyping._import_hook.Typechecker.lookup['__HOLE0__'])"
    got = norm(dec)
    if got != want:
        ctx.bad("C10.6", ga, parse[0], f"the inserted decorator is `{got}`, expected `{want}`", construct=f"decorator template: {got}")
    else:
        ctx.ok("C10.6", ga.qualname, f"decorator template parses to {want}")
    if len(holes) != 1 or norm(holes[0]) != f"{ga.params[0]}.hash":
        ctx.bad("C10.6", ga, parse[0], f"the lookup key in the template is `{[norm(h) for h in holes]}`, not self.hash")
    else:
        ctx.ok("C10.6", ga.qualname, "the lookup key embedded in the decorator is self.hash")
    # jaxtyped exported by the package
    init = m.module("jaxtyping")
    if init.imports.get("jaxtyped", "").endswith("_decorator.jaxtyped"):
        ctx.ok("C10.6", "jaxtyping.<module>", "jaxtyping.jaxtyped is exported")
    else:
        ctx.bad("C10.6", (init.relpath, init.qualname), init.tree, "`jaxtyping.jaxtyped` is not exported by the package: the inserted decorator cannot be resolved",
                construct="from ._decorator import jaxtyped")
    # Typechecker.lookup class-level dict; __init__ stores lookup[self.hash] on every non-raising path
    if "lookup" not in tc.assigns:
        ctx.bad("C10.6", (tc.file, tc.qualname), tc.node, "Typechecker has no class-level `lookup` table", construct="class Typechecker: lookup")
    init_f = need(tc.methods.get("__init__"), "Typechecker.__init__ not found")
    ctx.saw(init_f)
    g = NoReturn(m).cfg(init_f)

    def stores_lookup(node):
        a = node.ast
        if node.kind == "stmt" and isinstance(a, ast.Assign):
            for t in a.targets:
                if isinstance(t, ast.Subscript) and norm(t.value) in ("Typechecker.lookup", f"{init_f.params[0]}.lookup", f"type({init_f.params[0]}).lookup") \
                        and norm(t.slice) == f"{init_f.params[0]}.hash":
                    return True
        return False

    def sets_hash(node):
        a = node.ast
        return node.kind == "stmt" and isinstance(a, ast.Assign) and any(norm(t) == f"{init_f.params[0]}.hash" for t in a.targets)

    def transfer(node, st, kind, succ):
        h, l = st
        if kind in NORMAL:
            if sets_hash(node):
                h = True
                l = False  # a later change of the hash invalidates the stored key
            if stores_lookup(node):
                l = h
        return ((h, l),)

    fl = Flow(g, (False, False), transfer)
    bad = [s for s in fl.states_at(g.exit) if not (s[0] and s[1])]
    if bad:
        ctx.bad("C10.6", init_f, init_f.node, "Typechecker.__init__ can return without having stored lookup[self.hash] for the final self.hash: the decorator "
                "inserted into hooked modules would raise KeyError / use another checker", path=fl.witness(g.exit, bad[0]), construct="Typechecker.__init__: path without lookup[self.hash]")
    else:
        ctx.ok("C10.6", init_f.qualname, "every non-raising path sets self.hash and then stores Typechecker.lookup[self.hash]")
    # ... and the entry stays: the decorator text `...Typechecker.lookup['<hash>']` is evaluated whenever a `def` statement of an instrumented
    # module runs -- for nested functions and classes that is at *call* time, possibly long after the hook was uninstalled.  Removing entries
    # (in uninstall, in a clean-up, through a weak table) turns a well-typed call into a KeyError.
    removed = []
    for f2 in m.all_functions(include_typeguard=False):
        for x in walk_scope(f2.node):
            tgt = None
            if isinstance(x, ast.Call) and isinstance(x.func, ast.Attribute) and x.func.attr in ("pop", "popitem", "clear") and norm(x.func.value).endswith(".lookup"):
                tgt = x
            if isinstance(x, ast.Delete) and any(isinstance(t, ast.Subscript) and norm(t.value).endswith(".lookup") for t in x.targets):
                tgt = x
            if isinstance(x, ast.Assign) and any(isinstance(t, ast.Attribute) and t.attr == "lookup" for t in x.targets) and f2.name != "__init__":
                tgt = x
            if tgt is not None:
                removed.append((f2, tgt))
    look_def = tc.assigns.get("lookup")
    # ... and is held strongly: a weak-value table drops an entry as soon as nobody else references the decorator (two hooks with one checker
    # string: the second overwrites the entry, and when it is dropped the first hook's modules meet KeyError)
    for v_ in (look_def or []):
        if isinstance(v_, ast.Call) and norm(v_.func).split(".")[-1] in ("WeakValueDictionary", "WeakKeyDictionary", "WeakSet"):
            ctx.bad("C10.6", (tc.file, tc.qualname), v_, f"`lookup = {short(v_, 40)}`: entries of Typechecker.lookup vanish when their last other reference goes: a module loaded by a hook that is "
                    "still installed then raises KeyError where its decorator looks the typechecker up", construct="Typechecker.lookup holds its entries weakly")
    if removed:
        for f2, x in removed:
            ctx.bad("C10.6", f2, x, f"`{short(x, 60)}` removes entries from Typechecker.lookup: the decorators inserted into instrumented modules look their typechecker up there each "
                    "time a `def` statement runs (nested functions: at call time, also after uninstall), so a well-typed call of instrumented code would raise KeyError",
                    construct="Typechecker.lookup entry removed")
    else:
        ctx.ok("C10.6", tc.qualname, "nothing removes entries from Typechecker.lookup (they are needed whenever an instrumented def statement runs)")


# ------------------------------------------------------------------------ C10.7
def check_pipeline(ctx):
    m = ctx.model
    ld = m.cls("_import_hook._JaxtypingLoader")
    f = need(ld.methods.get("source_to_code"), "_JaxtypingLoader.source_to_code not found")
    ctx.saw(f)
    g = NoReturn(m).cfg(f)
    dom = g.dominators()
    stages = {}
    for n in g.live_nodes():
        for c in node_calls(n):
            txt = norm(c)
            args = [norm(a) for a in c.args]
            is_compile = (isinstance(c.func, ast.Name) and c.func.id == "compile") or (args and args[0] == "compile")
            if is_compile:
                if any("PyCF_ONLY_AST" in a for a in args) or any(k.arg == "flags" and "PyCF_ONLY_AST" in norm(k.value) for k in c.keywords):
                    stages.setdefault("parse", []).append((n, c))
                else:
                    stages.setdefault("compile", []).append((n, c))
            elif isinstance(c.func, ast.Attribute) and c.func.attr == "visit":
                stages.setdefault("visit", []).append((n, c))
            elif norm(c.func) == "ast.fix_missing_locations":
                stages.setdefault("fix", []).append((n, c))
            elif norm(c.func) == "ast.parse":
                stages.setdefault("parse", []).append((n, c))
    for st in ("parse", "visit", "fix", "compile"):
        if st not in stages:
            what = {"parse": "parsing to an AST", "visit": "the transformer", "fix": "ast.fix_missing_locations", "compile": "compile of the transformed tree"}[st]
            ctx.bad("C10.7", f, f.node, f"source_to_code no longer runs {what}" + (": the inserted nodes lack positions and compile() fails" if st == "fix" else ""),
                    construct=f"pipeline stage missing: {st}")
    if all(s in stages for s in ("parse", "visit", "fix", "compile")):
        order = ["parse", "visit", "fix", "compile"]
        ok = True
        for a, b in zip(order, order[1:]):
            na, nb = stages[a][0][0], stages[b][0][0]
            if na.id not in dom[nb.id] or na is nb:
                ok = False
                ctx.bad("C10.7", f, nb.ast, f"pipeline order: `{a}` does not precede `{b}` on every path")
        if ok:
            ctx.ok("C10.7", f.qualname, "parse(PyCF_ONLY_AST) -> visit -> fix_missing_locations -> compile, each dominating the next")
        # the visit is by a JaxtypingTransformer built with the loader's own checker
        vc = stages["visit"][0][1]
        recv = vc.func.value
        if isinstance(recv, ast.Name):
            # `transformer = JaxtypingTransformer(...)` ... `transformer.visit(tree)`
            from . import c05

            defs = c05._assignments_to(f, recv.id)
            if len(defs) == 1 and defs[0][2] is None:
                recv = defs[0][1]
        if not (isinstance(recv, ast.Call) and norm(recv.func) == "JaxtypingTransformer"):
            if isinstance(recv, ast.Call):
                ctx.bad("C10.7", f, vc, f"the tree is visited by `{short(recv, 50)}`, not by JaxtypingTransformer(typechecker=self._typechecker)")
            else:
                raise AnalysisError(f"C10.7: cannot tell which transformer object `{short(vc, 50)}` is called on")
        elif not any(k.arg == "typechecker" and norm(k.value) == f"{f.params[0]}._typechecker" for k in recv.keywords):
            own = f.cls.methods.get("__init__") if f.cls is not None else None
            keeps = own is not None and any(isinstance(t_, ast.Attribute) and t_.attr == "_typechecker" for st_ in walk_scope(own.node) if isinstance(st_, ast.Assign) for t_ in st_.targets)
            given = next((k.value for k in recv.keywords if k.arg == "typechecker"), None)
            if not keeps and given is not None and isinstance(given, ast.Attribute) and norm(given).startswith(f"{f.params[0]}."):
                raise AnalysisError(f"C10.7: the transformer is built with `{norm(given)}`; the loader no longer keeps its checker in `_typechecker` and the rule "
                                    "cannot follow where that value comes from")
            ctx.bad("C10.7", f, vc, "the tree is not visited by JaxtypingTransformer(typechecker=self._typechecker)")
        # the compiled thing is the visited tree
    for st in ("parse", "compile"):
        for n, c in stages.get(st, []):
            kw = {k.arg: k.value for k in c.keywords}
            di = kw.get("dont_inherit")
            if not (isinstance(di, ast.Constant) and di.value is True):
                ctx.bad("C10.7", f, c, f"the `{st}` call does not pass dont_inherit=True: the __future__ flags of jaxtyping's own module would leak into the hooked module")
            else:
                ctx.ok("C10.7", f.qualname, f"{st}: dont_inherit=True")


def check_all_returns_instrumented(ctx, tag="C10.7"):
    """Every value source_to_code hands back is the compiled *transformed* tree: a path that returns
    code compiled from the untouched source (a fallback after an error, a fast path) makes the loader
    run -- and cache under the instrumented tag -- a module without its decorators."""
    m = ctx.model
    ld = m.cls("_import_hook._JaxtypingLoader")
    f = need(ld.methods.get("source_to_code"), "_JaxtypingLoader.source_to_code not found")
    g = NoReturn(m).cfg(f)
    dom = g.dominators()
    visits = [n for n in g.live_nodes() if any(isinstance(c.func, ast.Attribute) and c.func.attr == "visit" for c in node_calls(n))]
    need(visits, f"{tag}: the transformer pass was not found in source_to_code")
    n_ret = 0
    from . import c05

    def judge(v, at):
        """'ok' | 'bad' | None for the value expression `v` evaluated at CFG node `at`"""
        src = v
        if isinstance(v, ast.Name):
            defs = c05._assignments_to(f, v.id)
            src = defs[0][1] if len(defs) == 1 and defs[0][2] is None else None
        if not isinstance(src, ast.Call):
            return None
        args = [norm(a) for a in src.args] + [norm(k.value) for k in src.keywords if k.arg == "flags"]
        is_compile = (isinstance(src.func, ast.Name) and src.func.id == "compile") or (args and args[0] == "compile")
        after_visit = any(vn.id in dom[at.id] for vn in visits)
        if is_compile and after_visit and not any("PyCF_ONLY_AST" in a for a in args):
            return "ok"
        if is_compile and not any("PyCF_ONLY_AST" in a for a in args) or (isinstance(src.func, ast.Attribute) and src.func.attr == "source_to_code"):
            return "bad"
        return None

    for rn in [n for n in g.live_nodes() if n.kind == "return"]:
        n_ret += 1
        v = rn.ast.value
        verdict = judge(v, rn)
        if verdict is None and isinstance(v, ast.Subscript) and isinstance(v.ctx, ast.Load):
            # `return MEMO[key]`: what the memo holds is what this method stored there
            bt = norm(v.value)
            stores = [(n, n.ast.value) for n in g.live_nodes() if n.kind == "stmt" and isinstance(n.ast, ast.Assign)
                      and any(isinstance(t, ast.Subscript) and norm(t.value) == bt for t in n.ast.targets)]
            others = [x for q_, f2 in m.functions.items() if f2 is not f and not f2.module.short.startswith("_typeguard") for x in walk_scope(f2.node)
                      if isinstance(x, ast.Assign) and any(isinstance(t, ast.Subscript) and norm(t.value).split(".")[-1] == bt.split(".")[-1] for t in x.targets)]
            if stores and not others:
                vs = [judge(val, n) for n, val in stores]
                verdict = "ok" if all(x == "ok" for x in vs) else "bad" if any(x == "bad" for x in vs) else None
        if verdict == "ok":
            ctx.ok(tag, f.qualname, f"`{short(rn.ast, 60)}`: the compiled tree went through the transformer on every path to this return")
        elif verdict == "bad":
            ctx.bad(tag, f, rn.ast, f"`{short(rn.ast, 70)}` returns code that did not go through the transformer on every path leading here: the module runs (and is "
                    "cached under the instrumented tag) without its decorators", construct=f"un-instrumented return: {short(rn.ast, 70)}")
        else:
            raise AnalysisError(f"{tag}: cannot tell what `{norm(rn.ast)}` in source_to_code returns")
    ctx.counters[f"{tag}:returns"] = n_ret


def check_ipython_same_class(ctx):
    m = ctx.model
    mod = m.module("_ipython_extension")
    tgt = mod.imports.get("JaxtypingTransformer", "")
    if tgt.endswith("_import_hook.JaxtypingTransformer"):
        ctx.ok("C10.1", mod.qualname, "the IPython magic uses the import hook's JaxtypingTransformer class")
    else:
        ctx.bad("C10.1", (mod.relpath, mod.qualname), mod.tree, "the IPython magic does not use _import_hook.JaxtypingTransformer", construct="import JaxtypingTransformer")
