"""C12 -- a check's verdict never depends on earlier, unrelated activity.

Decided structurally:
  C12.1 entry-value flag typestate for the flatten-mode flag and the '?' label: at every
        exit (return, Exception, BaseException) of every function that sets or clears
        them the value equals the value on entry -- the static form of "inject a fault
        at every call-out".  Re-entrant functions must save/restore (or clear only what
        this activation set).
  C12.2 the context stack is balanced on every path (the C05.1 typestate).
  C12.3 annotation classes are immutable after construction: the attributes the check
        functions read from an annotation class (the verdict-relevant attribute set,
        collected from the metaclass methods) are written only by class bodies, factory
        functions on a freshly created class, and __init_subclass__.
  C12.4 no check-time shared writes (the C06.2 effect classification); hook installation
        writes only sys.meta_path and Typechecker.lookup.
  C12.5 caches: in memoised constructors, mutable module globals may flow only into the
        display name; no memoised function is reachable from a check entry point.
Not decided: behaviour of third-party caches (beartype, typeguard >= 3).
"""
from __future__ import annotations

import ast

from ..callgraph import CallGraph
from ..core import AnalysisError, RuleContext, need, norm, short
from ..effects import Effects
from ..model import ClassInfo, FuncInfo, walk_scope, walk_with_lambdas
from ..roles import roles_for
from ..typestate import StackBalance
from . import c05, c06
from ._flags import run_flag_typestate

EXPLANATION = __doc__


def run(ctx: RuleContext):
    m = ctx.model
    r = roles_for(m)
    cg = CallGraph(m)
    res = ctx.sub(run_flag_typestate, ctx, "C12.1", cg=cg) or []
    ctx.counters["flag_functions"] = len(res)
    ctx.sub(ctx.floor, "C12.1", "flag_functions", 1)
    sb = StackBalance(m, r)
    ctx.sub(c05.check_balance, ctx, sb, cg, "C12.2")
    ctx.sub(check_annotation_immutability, ctx, r, "C12.3")
    ctx.sub(c06.check_shared_writes, ctx, r, cg, "C12.4", "C12.4")
    ctx.sub(check_hook_install_writes, ctx, r, "C12.4")
    ctx.sub(check_caches, ctx, r, cg, "C12.5")
    ctx.reuse("C12.6", check_failed_checks_leave_nothing, ctx, r)
    ctx.reuse("C12.7", check_unpickling_is_history_free, ctx)
    # C12.8: "verdicts never depend on ... which hooks are installed": a hook instruments exactly the packages named (C11.2's predicate): a
    # bare prefix test instruments `foobar` for `foo`, whose checks then run inside contexts nobody asked for
    from .c11 import check_predicate

    ctx.reuse("C12.8", check_predicate, ctx)


def check_unpickling_is_history_free(ctx):
    """C12.7: 'never on ... pickling': what a pickled annotation is loaded as does not go through a process-wide mutable table
    (a registry of live annotation classes, an interning dict): the loaded annotation would be whichever object earlier activity
    left there -- possibly one that another decoration has since changed (C20.3's loader discipline)."""
    from . import c20

    m = ctx.model
    red = m.func("_array_types._pickle_array_annotation")
    ctx.saw(red)
    gen, cats, items, loader = c20.reducer_plan(ctx, red)
    if loader is None:
        ctx.ok("C12.7", red.qualname, "annotations are loaded by replaying the subscription on the category class itself (no loader function, no table)")
        return
    ctx.saw(loader)
    n0 = len(ctx.findings)
    c20._check_loader(ctx, red, loader)
    if len(ctx.findings) == n0:
        ctx.ok("C12.7", loader.qualname, "the loader consults and updates no process-wide table")


def check_failed_checks_leave_nothing(ctx, r):
    """C12.6: 'never on earlier failing or raising checks': both check sites roll the bindings back on
    every failing exit (rollback typestate C04.1/C04.2) and the restore puts every entry back (C04.4)."""
    from . import c04

    sites = c04.find_sites(ctx, r)
    need(len(sites) >= 2, "C12.6: the two rollback sites (array check, PyTree check) were not found")
    for s_ in sites:
        c04.check_site(ctx, r, s_)
    stack_tl, stack_attr, _ = c05.locate_stack(r)
    c05._check_set(ctx, r, r.set, stack_tl, stack_attr, "C12.6")


# ------------------------------------------------------------------------ C12.3
def verdict_relevant_attrs(ctx, r) -> set:
    """Attributes read off the annotation class (first parameter) in the metaclass
    methods that make up a check."""
    m = ctx.model
    attrs = set()
    for c in m.classes.values():
        if c.module.short.startswith("_typeguard") or not m.is_metaclass(c):
            continue
        for name, f in c.methods.items():
            if name in ("__getitem__", "__call__", "__pdoc__", "__new__", "__init__"):
                continue
            if not f.params:
                continue
            first = f.params[0]
            for n in walk_with_lambdas(f.node):
                if isinstance(n, ast.Attribute) and isinstance(n.ctx, ast.Load) and isinstance(n.value, ast.Name) and n.value.id == first:
                    if n.attr.startswith("__") or n.attr in c.methods:
                        continue
                    attrs.add(n.attr)
                if isinstance(n, ast.Call) and isinstance(n.func, ast.Name) and n.func.id in ("hasattr", "getattr") and len(n.args) >= 2:
                    if isinstance(n.args[0], ast.Name) and n.args[0].id == first and isinstance(n.args[1], ast.Constant):
                        attrs.add(n.args[1].value)
    return attrs


def _fresh_class_locals(m, f: FuncInfo) -> set:
    """Local names bound (only) to a class created in this activation."""
    fresh = set(f.nested_classes)
    for n in walk_scope(f.node):
        if isinstance(n, ast.Assign) and isinstance(n.value, ast.Call):
            t = m.resolve_call(f, n.value)
            is_new = (t.kind == "class" and m.is_metaclass(t.target)) or (t.kind == "ext" and t.target in ("builtins.type", "types.new_class"))
            if is_new:
                for tg in n.targets:
                    if isinstance(tg, ast.Name):
                        fresh.add(tg.id)
    return fresh


def check_annotation_immutability(ctx, r, tag):
    m = ctx.model
    attrs = verdict_relevant_attrs(ctx, r)
    ctx.counters["verdict_relevant_attributes"] = len(attrs)
    ctx.floor(tag, "verdict_relevant_attributes", 6)
    ctx.note(f"verdict-relevant attributes of annotation classes: {sorted(attrs)}")
    n_sites = 0
    for f in m.all_functions(include_typeguard=False):
        fresh = None
        for n in walk_with_lambdas(f.node):
            tgt = None
            how = None
            if isinstance(n, ast.Attribute) and isinstance(n.ctx, (ast.Store, ast.Del)) and n.attr in attrs:
                tgt, how = n.value, f"store to .{n.attr}"
            elif isinstance(n, ast.Call) and isinstance(n.func, ast.Name) and n.func.id in ("setattr", "delattr") and len(n.args) >= 2:
                a1 = n.args[1]
                if isinstance(a1, ast.Constant) and a1.value in attrs:
                    tgt, how = n.args[0], f"{n.func.id}(.., {a1.value!r})"
                elif not isinstance(a1, ast.Constant):
                    tgt, how = n.args[0], f"{n.func.id} with a computed attribute name"
            elif isinstance(n, ast.Call) and isinstance(n.func, ast.Attribute) and n.func.attr in r.MUTATORS:
                v = n.func.value
                if isinstance(v, ast.Attribute) and v.attr in attrs:
                    tgt, how = v.value, f"in-place {n.func.attr} of .{v.attr}"
            if tgt is None:
                continue
            n_sites += 1
            ctx.saw(f)
            if fresh is None:
                fresh = _fresh_class_locals(m, f)
            root = tgt
            while isinstance(root, (ast.Attribute, ast.Subscript)):
                root = root.value
            rn = root.id if isinstance(root, ast.Name) else None
            stmt_desc = n
            if rn is not None and rn in fresh and isinstance(tgt, ast.Name):
                ctx.ok(tag, f.qualname, f"{how} on `{rn}`: a class created by this very call (construction)")
                continue
            if f.name in ("__init_subclass__", "__new__", "__init__") and f.params and rn == f.params[0]:
                if f.name == "__init_subclass__" or (f.cls is not None and m.is_metaclass(f.cls)):
                    ctx.ok(tag, f.qualname, f"{how} on the class under construction")
                    continue
                # ordinary instance attribute of an unrelated object (e.g. a loader's _typechecker)
                ctx.ok(tag, f.qualname, f"{how} on the instance under construction (not an annotation class)")
                continue
            if f.cls is not None and not m.is_metaclass(f.cls) and f.params and rn == f.params[0] and f.name != "__init_subclass__":
                is_cm = any(isinstance(d, ast.Name) and d.id == "classmethod" for d in f.decorators)
                if not is_cm:
                    ctx.ok(tag, f.qualname, f"{how} on an ordinary instance (`{rn}`), not an annotation class")
                    continue
            if rn is not None and rn not in f.params and isinstance(tgt, ast.Name):
                # a local bound only to freshly constructed ordinary objects (an exception that gets extra attributes, a record): not a class
                defs_ = c05._assignments_to(f, rn)
                def _plain_ctor(v):
                    if not isinstance(v, ast.Call):
                        return False
                    t_ = m.resolve_call(f, v)
                    if t_.kind == "class":
                        return m.metaclass_of(t_.target) is None and not m.is_metaclass(t_.target)
                    return t_.kind == "ext" and isinstance(t_.target, str) and t_.target.startswith("builtins.") and t_.target.endswith(("Error", "Exception", "Warning"))
                if defs_ and all(d[2] is None and _plain_ctor(d[1]) for d in defs_):
                    ctx.ok(tag, f.qualname, f"{how} on `{rn}`: an ordinary object constructed in this call, not an annotation class")
                    continue
            ctx.bad(tag, f, _stmt_of(f, n) or n,
                    f"{how}: a verdict-relevant attribute of an annotation class object is written after the class was "
                    "constructed; annotation objects are shared (aliases, typing caches), so every later check against "
                    "the same object changes its verdict process-wide")
    ctx.counters["annotation_attr_write_sites"] = n_sites
    ctx.floor(tag, "annotation_attr_write_sites", 2)


def _stmt_of(f, node):
    for st in ast.walk(f.node):
        if isinstance(st, ast.stmt) and not isinstance(st, (ast.FunctionDef, ast.AsyncFunctionDef, ast.ClassDef, ast.If, ast.For, ast.While, ast.Try, ast.With)):
            for x in ast.walk(st):
                if x is node:
                    return st
    return None


# ------------------------------------------------------------------------ C12.4
def check_hook_install_writes(ctx, r, tag):
    m = ctx.model
    eff = Effects(m, r)
    allowed = {("ext", "sys", "meta_path"), ("class", "_import_hook.Typechecker", "lookup.[]"),
               ("class", "_import_hook.Typechecker.lookup", "[]")}
    n = 0
    for f in m.all_functions(include_typeguard=False):
        if f.module.short not in ("_import_hook", "_pytest_plugin", "_ipython_extension"):
            continue
        for s in eff.stores(f):
            if s.kind not in ("modvar", "class", "ext", "global"):
                continue
            if f.qualname.startswith("_import_hook.JaxtypingTransformer"):
                continue
            n += 1
            ctx.saw(f)
            key = (s.kind, s.root_name, s.attr)
            if key in allowed or (s.kind == "ext" and s.root_name == "sys" and s.attr.startswith("meta_path")):
                ctx.ok(tag, f.qualname, f"hook (un)installation writes {s.root_name}.{s.attr} ({s.how})")
            else:
                ctx.bad(tag, f, s.node, f"hook code writes process-wide state other than sys.meta_path / Typechecker.lookup: "
                        f"{s.how} on `{s.root_name}.{s.attr}` ({s.kind})")
    ctx.counters["hook_shared_write_sites"] = n
    ctx.floor(tag, "hook_shared_write_sites", 3)


# ------------------------------------------------------------------------ C12.5
def _mutable_globals(m, mod) -> set:
    """Module-level names rebound at run time through a `global` statement."""
    out = set()
    for f in m.all_functions():
        if f.module is mod:
            out |= f.declared_global()
    return out


def check_caches(ctx, r, cg, tag):
    m = ctx.model
    c06.check_no_memo_tables(ctx, r, cg, tag)
    n = 0
    for f in m.all_functions(include_typeguard=False):
        cached = False
        for d in f.decorators:
            t = d.func if isinstance(d, ast.Call) else d
            st = m.resolve_expr_static(f.parent or f.module, t)
            if isinstance(st, str) and st in ("functools.lru_cache", "functools.cache"):
                cached = True
        if not cached:
            continue
        mg = _mutable_globals(m, f.module) - set(f.params) - f.local_names()
        reads = [x for x in walk_with_lambdas(f.node) if isinstance(x, ast.Name) and isinstance(x.ctx, ast.Load) and x.id in mg]
        if not reads:
            ctx.ok(tag, f.qualname, "memoised function reads no run-time-mutable module global")
            continue
        n += 1
        ctx.saw(f)
        # taint: variables assigned from an expression mentioning the global, or assigned in a
        # branch controlled by a test mentioning it
        tainted = set()
        names = {x.id for x in reads}

        def mentions(e, extra=()):
            return any(isinstance(x, ast.Name) and (x.id in names or x.id in extra) for x in ast.walk(e))

        changed = True
        while changed:
            changed = False
            for st in ast.walk(f.node):
                if isinstance(st, ast.If) and mentions(st.test, tainted):
                    for sub in st.body + st.orelse:
                        for x in ast.walk(sub):
                            if isinstance(x, ast.Name) and isinstance(x.ctx, ast.Store) and x.id not in tainted:
                                tainted.add(x.id)
                                changed = True
                if isinstance(st, ast.Assign) and mentions(st.value, tainted):
                    for tg in st.targets:
                        for x in ast.walk(tg):
                            if isinstance(x, ast.Name) and x.id not in tainted:
                                tainted.add(x.id)
                                changed = True
        # where do tainted variables go?  Only into the element of the returned tuple that the
        # caller uses as the class *name*.
        ret_tuples = [x.value for x in walk_scope(f.node) if isinstance(x, ast.Return) and isinstance(x.value, ast.Tuple)]
        bad = False
        for rt in ret_tuples:
            for i, el in enumerate(rt.elts):
                if mentions(el, tainted):
                    if not _is_name_slot(m, cg, f, i):
                        bad = True
                        ctx.bad(tag, f, rt, f"the run-time-mutable global(s) {sorted(names)} flow into element {i} of the memoised "
                                "result, which is not the display name: an annotation built earlier keeps the old meaning "
                                "while one built later gets the new one (verdict depends on history)")
        for x in walk_scope(f.node):
            if isinstance(x, ast.Return) and not isinstance(x.value, ast.Tuple) and x.value is not None and mentions(x.value, tainted):
                if isinstance(x.value, ast.Call) and m.resolve_call(f, x.value).kind == "class":
                    # a record built from the pieces: which field the global reaches, and what the caller does with that
                    # field, is not followed
                    raise AnalysisError(f"{tag}: {f.qualname} returns `{short(x.value, 50)}`; whether the run-time-mutable global(s) {sorted(names)} reach anything but the "
                                        "display name of the annotation class is not followed through that record")
                bad = True
                ctx.bad(tag, f, x, f"the run-time-mutable global(s) {sorted(names)} flow into the memoised result")
        if not bad:
            ctx.ok(tag, f.qualname, f"mutable global(s) {sorted(names)} reach only the display-name element of the memoised result (tainted locals: {sorted(tainted)})")
    ctx.counters["memoised_functions_reading_mutable_globals"] = n


def _is_name_slot(m, cg, f, idx) -> bool:
    """Is element idx of f's returned tuple used only as the first argument (the class
    name) of a metaclass call in the caller that unpacks it?"""
    for caller, call in cg.callers(f):
        # find `a, b, ... = out` unpack of 6 names in caller
        for st in walk_scope(caller.node):
            if isinstance(st, ast.Assign) and isinstance(st.targets[0], ast.Tuple) and len(st.targets[0].elts) > idx:
                nm = st.targets[0].elts[idx]
                if not isinstance(nm, ast.Name):
                    continue
                uses = [x for x in walk_scope(caller.node) if isinstance(x, ast.Name) and x.id == nm.id and isinstance(x.ctx, ast.Load)]
                ok_all = bool(uses)
                from .c20 import creation_sites

                created = {id(c_) for c_, _ in creation_sites(m, caller)}  # incl. `meta(name, bases, ns)` with `meta` bound to metaclasses only
                for u in uses:
                    ok = False
                    for c in walk_scope(caller.node):
                        if isinstance(c, ast.Call) and c.args and c.args[0] is u:
                            t = m.resolve_call(caller, c)
                            if (t.kind == "class" and m.is_metaclass(t.target)) or id(c) in created:
                                ok = True
                    ok_all = ok_all and ok
                if ok_all:
                    return True
    return False
