"""C16 -- '?' axes are per-leaf-position axes of exactly one structured PyTree.

Decided structurally:
  C16.1 label / flatten-flag typestate (shared with C12.1): at every exit of every
        function that sets or clears them the value equals the value on entry; a clear
        may only execute on paths where *this activation* executed the matching set, and a
        set/clear region that can be re-entered must restore the previous value, not a
        constant (ownership / re-entrancy, C16.5 of the design).
  C16.2 sibling agreement: every use of a dim's name as a memo key in the array check is
        selected by a test of that dim's `.treepath`, the true side prefixing
        get_treepath_memo() -- identically for single and variadic dims.
  C16.3 key disjointness: the label template contains the leaf index and the structure name
        as holes and a literal character that cannot occur in an identifier, so a labelled
        key never equals a plain axis name, and the setter is called with the enumerate
        counter of the leaves loop and the annotation's structure name.
  C16.4 errors: reading the label when unset and setting it when set raise AnnotationError
        before anything is stored.
  C16.6 every leaf position is visited: in the leaves loop no path through an iteration
        returns to the loop header without having handed that leaf to the leaf check (a
        skipped position is never bound, so later trees may disagree on it unnoticed).
  C16.7 the leaf label is only ever used to *build* a memo key (`<label> + <dim>.name`): nothing takes labelled keys apart again
        (`key.startswith(label)`, `key[len(label):]`, `removeprefix`) -- that is how a '?' axis comes to be seen under its bare
        name and to interact with the plain axis of the same name.
Not decided: agreement of sizes across trees (value level).
"""
from __future__ import annotations

import ast

from ..callgraph import CallGraph
from ..core import AnalysisError, RuleContext, need, norm, short
from ..flagstate import discover_flags
from ..model import walk_scope
from ..roles import roles_for
from ..typestate import NoReturn
from . import c05
from .c04 import memo_role
from ._flags import run_flag_typestate

EXPLANATION = __doc__


def run(ctx: RuleContext):
    m = ctx.model
    r = roles_for(m)
    cg = CallGraph(m)
    res = ctx.sub(run_flag_typestate, ctx, "C16.1", cg=cg) or []
    ctx.counters["flag_functions"] = len(res)
    ctx.sub(ctx.floor, "C16.1", "flag_functions", 1)
    ctx.sub(check_sibling_agreement, ctx, r)
    ctx.sub(check_errors, ctx, r)
    ctx.sub(check_label_template, ctx, r, cg)
    ctx.sub(check_every_leaf_visited, ctx, r, cg)
    ctx.sub(check_label_only_builds_keys, ctx, r)
    # the '?' label is the position of the leaf in the list the loop runs over: that list must be the flatten result itself
    from .c08 import check_leaves_single_source

    ctx.reuse("C16.6", check_leaves_single_source, ctx, "C16.6")
    # C16.8: the per-leaf sizes of `?` axes are bindings like any other: when a structured PyTree check fails at a later leaf, the sizes bound
    # under the earlier leaves' labels must be gone with the structure name (C04's snapshot / restore clauses at the PyTree check site) --
    # otherwise the next alternative of a union is judged against `(Leaf 0 in structure T) n = 2` left by the failed one
    ctx.reuse("C16.8", _pytree_rollback, ctx, r)
    ctx.sub(check_union_does_not_swallow_misuse, ctx)


# ------------------------------------------------------------------------ C16.2
def _is_treepath_test(test):
    """(dim_expr_text, polarity) if test is `<d>.treepath` / `not <d>.treepath`."""
    pol = True
    t = test
    while isinstance(t, ast.UnaryOp) and isinstance(t.op, ast.Not):
        pol = not pol
        t = t.operand
    if isinstance(t, ast.Attribute) and t.attr == "treepath":
        return norm(t.value), pol
    return None


def _label_getter_kind(ctx, r, scope, call):
    """'getter' if the call reads the '?' label (the pinned get_treepath_memo, or -- by effect -- a function that only loads the label
    thread-local and raises when it is unset); 'other' if it positively is something else (a pinned function, an external callable);
    an AnalysisError if it is a new function the rule cannot classify."""
    m = ctx.model
    if r.role_of_call(scope, call) == "get_treepath_memo":
        return "getter"
    t = m.resolve_call(scope, call)
    if t.kind == "func":
        try:
            stack_tl, _, _ = c05.locate_stack(r)
            labels = [fl for fl in discover_flags(m, r, stack_tl) if fl.guarded_setters or fl.raising_getters]
        except AnalysisError:
            labels = []
        if len(labels) == 1 and t.target.qualname in labels[0].raising_getters and t.target in labels[0].getters:
            return "getter"
        try:
            from ..inventory import FUNCTIONS
        except ImportError:
            FUNCTIONS = set()
        if t.target.qualname in FUNCTIONS:
            return "other"
        raise AnalysisError(f"C16.2: `{norm(call)}` in {scope.qualname} resolves to the new function {t.target.qualname}, which is not recognisably the label getter")
    if t.kind in ("ext", "class", "builtin"):
        return "other"
    raise AnalysisError(f"C16.2: the callee of `{norm(call)}` in {scope.qualname} could not be resolved; whether it reads the '?' label is unknown")


def check_sibling_agreement(ctx, r):
    m = ctx.model
    n_sites = 0
    for q in ("_array_types._check_dims", "_array_types._MetaAbstractArray._check_shape"):
        f = m.func(q)
        ctx.saw(f)
        memo_params = {p for p in f.params if memo_role(p) in ("single", "variadic")}
        keys = {}
        for n in walk_scope(f.node):
            if isinstance(n, ast.Subscript) and isinstance(n.value, ast.Name) and n.value.id in memo_params:
                keys.setdefault(norm(n.slice), []).append(n)
        for ktext, subs in sorted(keys.items()):
            n_sites += 1
            k = subs[0].slice
            if isinstance(k, ast.Attribute) and k.attr == "name":
                ctx.bad("C16.2", f, subs[0], f"memo key `{ktext}` ignores the dim's `.treepath`: a '?name' axis would share its "
                        "binding with the plain axis of the same name and with every other leaf")
                continue
            if not isinstance(k, ast.Name):
                raise AnalysisError(f"C16.2: memo key `{ktext}` in {q} has an unrecognised form")
            # find the If that defines the key
            defs = []
            for st in ast.walk(f.node):
                if isinstance(st, ast.If):
                    tp = _is_treepath_test(st.test)
                    if tp is None:
                        continue
                    b = [a for a in st.body if isinstance(a, ast.Assign) and any(isinstance(t, ast.Name) and t.id == k.id for t in a.targets)]
                    o = [a for a in st.orelse if isinstance(a, ast.Assign) and any(isinstance(t, ast.Name) and t.id == k.id for t in a.targets)]
                    if b or o:
                        defs.append((st, tp, b, o))
            all_defs = c05._assignments_to(f, k.id)
            if not defs and len(all_defs) == 1 and isinstance(all_defs[0][1], ast.Call) and m.resolve_call(f, all_defs[0][1]).kind == "func":
                # the key is computed by a helper applied to the dim: the helper must have the
                # treepath form, and both sites use it (sibling agreement by construction)
                h = m.resolve_call(f, all_defs[0][1]).target
                ok_h = False
                if len(h.params) == 1:
                    d = h.params[0]
                    for st in ast.walk(h.node):
                        if isinstance(st, ast.If) and _is_treepath_test(st.test) and _is_treepath_test(st.test)[0] == d:
                            pol = _is_treepath_test(st.test)[1]
                            def ret_of(stmts):
                                rs = [x.value for x in stmts if isinstance(x, ast.Return)]
                                return rs[0] if len(rs) == 1 else None
                            after = [x for x in h.body if isinstance(x, ast.Return)]
                            tb = ret_of(st.body)
                            fb = ret_of(st.orelse) or (after[-1].value if after and not st.orelse else None)
                            tside, fside = (tb, fb) if pol else (fb, tb)
                            okt = (isinstance(tside, ast.BinOp) and isinstance(tside.op, ast.Add) and isinstance(tside.left, ast.Call)
                                   and _label_getter_kind(ctx, r, h, tside.left) == "getter" and norm(tside.right) == f"{d}.name")
                            okf = fside is not None and norm(fside) == f"{d}.name"
                            ok_h = okt and okf
                            if not ok_h:
                                ctx.bad("C16.2", h, st, f"the memo-key helper `{h.name}` does not return get_treepath_memo() + <dim>.name on the treepath side and the plain name otherwise")
                if ok_h:
                    ctx.ok("C16.2", q, f"key `{k.id}` = {h.name}(dim): treepath -> get_treepath_memo() + name, else plain name")
                    continue
                if not any(fd.function == h.qualname for fd in ctx.findings):
                    raise AnalysisError(f"C16.2: memo key `{k.id}` in {q} comes from helper `{h.name}`, whose form was not recognised")
                continue
            if not defs and len(all_defs) == 1 and isinstance(all_defs[0][1], ast.IfExp) and _is_treepath_test(all_defs[0][1].test) is not None:
                # `key = get_treepath_memo() + d.name if d.treepath else d.name`
                ie = all_defs[0][1]
                dimtxt, pol = _is_treepath_test(ie.test)
                tside, fside = (ie.body, ie.orelse) if pol else (ie.orelse, ie.body)
                okt = (isinstance(tside, ast.BinOp) and isinstance(tside.op, ast.Add) and isinstance(tside.left, ast.Call)
                       and _label_getter_kind(ctx, r, f, tside.left) == "getter"
                       and isinstance(tside.right, ast.Attribute) and tside.right.attr == "name" and norm(tside.right.value) == dimtxt)
                okf = isinstance(fside, ast.Attribute) and fside.attr == "name" and norm(fside.value) == dimtxt
                if not okt:
                    ctx.bad("C16.2", f, all_defs[0][0], f"on the treepath side the memo key for `{dimtxt}` is `{norm(tside)}`, not "
                            "get_treepath_memo() + <dim>.name: the '?' axis is not keyed by leaf position")
                elif not okf:
                    ctx.bad("C16.2", f, all_defs[0][0], f"on the non-treepath side the memo key for `{dimtxt}` is `{norm(fside)}`, not the plain <dim>.name")
                else:
                    ctx.ok("C16.2", q, f"key `{k.id}` for `{dimtxt}`: treepath -> get_treepath_memo() + name, else plain name (conditional expression)")
                continue
            if not defs:
                if all(isinstance(v, ast.Attribute) and v.attr == "name" for _, v, _ in all_defs):
                    ctx.bad("C16.2", f, all_defs[0][0], f"memo key `{k.id}` is the bare dim name: the dim's `.treepath` is ignored, so a "
                            "'?name' axis is not per-leaf")
                    continue
                raise AnalysisError(f"C16.2: definition of memo key `{k.id}` in {q} not recognised")
            for st, (dimtxt, pol), b, o in defs:
                if len(b) != 1 or len(o) != 1 or len(all_defs) != 2 * len(defs):
                    raise AnalysisError(f"C16.2: key `{k.id}` in {q}: expected one definition per branch of the treepath test")
                tside, fside = (b[0].value, o[0].value) if pol else (o[0].value, b[0].value)
                okt = (isinstance(tside, ast.BinOp) and isinstance(tside.op, ast.Add) and isinstance(tside.left, ast.Call)
                       and _label_getter_kind(ctx, r, f, tside.left) == "getter"
                       and isinstance(tside.right, ast.Attribute) and tside.right.attr == "name" and norm(tside.right.value) == dimtxt)
                okf = isinstance(fside, ast.Attribute) and fside.attr == "name" and norm(fside.value) == dimtxt
                if not okt:
                    ctx.bad("C16.2", f, st, f"on the treepath side the memo key for `{dimtxt}` is `{norm(tside)}`, not "
                            "get_treepath_memo() + <dim>.name: the '?' axis is not keyed by leaf position")
                elif not okf:
                    ctx.bad("C16.2", f, st, f"on the non-treepath side the memo key for `{dimtxt}` is `{norm(fside)}`, not the plain <dim>.name")
                else:
                    ctx.ok("C16.2", q, f"key `{k.id}` for `{dimtxt}`: treepath -> get_treepath_memo() + name, else plain name")
    ctx.counters["memo_key_sites"] = n_sites
    ctx.floor("C16.2", "memo_key_sites", 2)


# ------------------------------------------------------------------------ C16.3
def check_label_template(ctx, r, cg):
    m = ctx.model
    stack_tl, _, _ = c05.locate_stack(r)
    flags = discover_flags(m, r, stack_tl)
    labels = [fl for fl in flags if fl.guarded_setters or fl.raising_getters]
    need(len(labels) == 1, f"expected exactly one label flag (raise-if-set setter / raise-if-unset getter), found {len(labels)}")
    fl = labels[0]
    setter = need([f for f in fl.setters if f.qualname in fl.guarded_setters] or fl.setters or fl.mixed, "label setter not found")[0]
    ctx.saw(setter)
    sparams = [p for p in setter.params if not (setter.cls is not None and p in ("self", "cls"))]
    need(len(sparams) >= 2, "label setter no longer takes (index, structure)")
    p_index, p_struct = sparams[0], sparams[1]
    n_tpl = 0
    tpls = []
    for n in walk_scope(setter.node):
        if isinstance(n, ast.Assign) and any(isinstance(t, ast.Attribute) and r.tl_of_expr(setter, t) for t in n.targets):
            # the stored value, followed through a local it was built in
            cands = [(n, n.value)]
            if isinstance(n.value, ast.Name) and n.value.id not in setter.params:
                defs = c05._assignments_to(setter, n.value.id)
                need(defs and all(d[2] is None and d[1] is not None for d in defs), f"C16.3: the value stored as the label (`{n.value.id}`) could not be followed to its definitions")
                cands = [(d[0], d[1]) for d in defs]
            for stn, v in cands:
                if isinstance(v, ast.Constant) and not v.value:
                    continue  # a clearing store
                n_tpl += 1
                if isinstance(v, ast.Constant):
                    ctx.bad("C16.3", setter, stn, "the '?' label is not built from a template with the leaf index and structure name")
                    continue
                if not isinstance(v, ast.JoinedStr):
                    raise AnalysisError(f"C16.3: the label value `{short(v, 60)}` is not an f-string template; the rule cannot read its holes")
                tpls.append(v)
                holes = [norm(x.value) for x in v.values if isinstance(x, ast.FormattedValue)]
                lits = "".join(x.value for x in v.values if isinstance(x, ast.Constant) and isinstance(x.value, str))
                non_ident = [ch for ch in lits if not (ch.isalnum() or ch == "_")]
                if p_struct not in holes:
                    ctx.bad("C16.3", setter, stn, "the label does not contain the structure name: labels of different structures collide")
                elif not non_ident:
                    ctx.bad("C16.3", setter, stn, "the label contains no character that cannot occur in an identifier: a labelled key can "
                            "equal a plain axis name")
                else:
                    ctx.ok("C16.3", setter.qualname, f"label template holes {holes}, non-identifier literal characters {sorted(set(non_ident))!r}")
    # per-leaf template must contain the index: at least one template mentions it
    if not any(p_index in [norm(x.value) for x in t.values if isinstance(x, ast.FormattedValue)] for t in tpls):
        ctx.bad("C16.3", setter, setter.node, "no label template contains the leaf index: all leaves of a tree share one label",
                construct="label templates without {index}")
    else:
        ctx.ok("C16.3", setter.qualname, "the per-leaf template contains the leaf index")
    ctx.counters["label_templates"] = n_tpl
    ctx.floor("C16.3", "label_templates", 1)
    # call sites: (enumerate counter of the leaves loop, cls.structure) -- followed through helper
    # functions and class-based context managers to the expressions the values come from
    from ..callgraph import trace_value

    n_calls = 0
    for caller, call in cg.callers(setter):
        if not isinstance(call, ast.Call) or len(call.args) < 2:
            continue
        n_calls += 1
        ctx.saw(caller)
        src0 = trace_value(cg, caller, call.args[0])
        src1 = trace_value(cg, caller, call.args[1])
        ok0 = bool(src0)
        for fn_, e in src0:
            good = False
            if isinstance(e, ast.Name):
                for st in ast.walk(fn_.node):
                    if isinstance(st, ast.For) and isinstance(st.target, ast.Tuple) and isinstance(st.iter, ast.Call) \
                            and isinstance(st.iter.func, ast.Name) and st.iter.func.id == "enumerate" and not st.iter.args[1:] and not st.iter.keywords:
                        if isinstance(st.target.elts[0], ast.Name) and st.target.elts[0].id == e.id:
                            good = True
                    # ... or of a comprehension / generator over the leaves (`all(check(i, leaf) for i, leaf in enumerate(leaves))`)
                    if isinstance(st, ast.comprehension) and isinstance(st.target, ast.Tuple) and isinstance(st.iter, ast.Call) \
                            and isinstance(st.iter.func, ast.Name) and st.iter.func.id == "enumerate" and not st.iter.args[1:] and not st.iter.keywords:
                        if isinstance(st.target.elts[0], ast.Name) and st.target.elts[0].id == e.id:
                            good = True
            if not good:
                if isinstance(e, ast.Name) and e.id in fn_.params:
                    raise AnalysisError(f"C16.3: the leaf position handed to {setter.name} could not be traced beyond parameter `{e.id}` of {fn_.qualname}")
                ok0 = False
                ctx.bad("C16.3", fn_, e if isinstance(e, ast.AST) and hasattr(e, "lineno") else call, f"the '?' label is set from `{norm(e)}`, which is not the enumerate counter of a leaves loop: "
                        "leaf positions are not told apart")
        ok1 = all(isinstance(e, ast.Attribute) and e.attr == "structure" for _, e in src1)
        if ok0 and not ok1:
            bad1 = [norm(e) for _, e in src1 if not (isinstance(e, ast.Attribute) and e.attr == "structure")]
            if any(isinstance(e, ast.Name) and e.id in fn_.params for fn_, e in src1):
                raise AnalysisError(f"C16.3: the structure name handed to {setter.name} could not be traced to its source")
            ctx.bad("C16.3", caller, call, f"the '?' label is not set with the annotation's structure name but with {bad1}")
        elif ok0:
            ctx.ok("C16.3", caller.qualname, f"label set with ({', '.join(norm(e) for _, e in src0)}, {', '.join(norm(e) for _, e in src1)}): leaf position and structure name")
    ctx.counters["label_set_sites"] = n_calls
    ctx.floor("C16.3", "label_set_sites", 1)


# ------------------------------------------------------------------------ C16.4
def check_errors(ctx, r):
    m = ctx.model
    stack_tl, _, _ = c05.locate_stack(r)
    flags = discover_flags(m, r, stack_tl)
    labels = [fl for fl in flags if fl.guarded_setters or fl.raising_getters]
    need(labels, "label flag with raising getter/setter not found")
    for fl in flags:
        if fl.guarded_setters and fl.getters and not fl.raising_getters:
            g0 = fl.getters[0]
            if g0.name.startswith("_") and (g0.cls is not None or len(fl.getters) > 1 or g0.name not in ("get_treepath_memo",)):
                # the flag is read by a private accessor (`_current()`); whether the public getter built on it raises is not followed
                raise AnalysisError(f"C16.4: the '?' label is read through the private accessor {g0.qualname}; the raise of the public getter built on it is not followed")
            ctx.bad("C16.4", g0, g0.node, "reading the '?' label when no structured PyTree is being checked no longer raises "
                    "AnnotationError: a '?' axis outside a structured PyTree is silently accepted",
                    construct=f"{g0.name}: no raise")
        if fl.raising_getters and fl.setters and not fl.guarded_setters:
            s0 = fl.setters[0]
            ctx.bad("C16.4", s0, s0.node, "setting the '?' label while one is already set no longer raises AnnotationError: "
                    "nested structured PyTrees silently overwrite each other's leaf position",
                    construct=f"{s0.name}: no raise")
    for fl in labels:
        for f in fl.setters + fl.getters:
            if f.qualname not in fl.guarded_setters and f.qualname not in fl.raising_getters:
                continue
            ctx.saw(f)
            g = NoReturn(m).cfg(f)
            raises = [n for n in g.live_nodes() if n.kind == "raise"]
            need(raises, f"{f.qualname}: raise vanished")
            for rn in raises:
                kinds = rn.info.get("kinds", [])
                if kinds != ["AnnotationError"]:
                    ctx.bad("C16.4", f, rn.ast, f"misuse of '?' raises {kinds}, not AnnotationError")
                else:
                    ctx.ok("C16.4", f.qualname, "misuse raises AnnotationError")
            # the raise must be control dependent on a test of the stored value and (setter)
            # every store must be dominated by the passing side of that test
            dom = g.dominators()
            getq = {x.qualname for x in fl.getters}
            saved_names = set()
            for a in walk_scope(f.node):
                if isinstance(a, ast.Assign) and len(a.targets) == 1 and isinstance(a.targets[0], ast.Name):
                    v = a.value
                    if (isinstance(v, ast.Call) and m.resolve_call(f, v).kind == "func" and m.resolve_call(f, v).target.qualname in getq) or (
                            isinstance(v, ast.Attribute) and r.tl_of_expr(f, v) is not None) or (
                            isinstance(v, ast.Call) and norm(v.func) == "getattr" and v.args and isinstance(v.args[0], ast.Name) and r.tl_of_expr(f, ast.Attribute(value=v.args[0], attr="x", ctx=ast.Load())) is not None):
                        saved_names.add(a.targets[0].id)

            def mentions_label(e):
                for x in ast.walk(e):
                    if isinstance(x, ast.Attribute) and r.tl_of_expr(f, x) is not None:
                        return True
                    if isinstance(x, ast.Call) and m.resolve_call(f, x).kind == "func" and m.resolve_call(f, x).target.qualname in getq:
                        return True
                    if isinstance(x, ast.Call) and norm(x.func) in ("getattr", "hasattr") and x.args and isinstance(x.args[0], ast.Name) \
                            and r.tl_of_expr(f, ast.Attribute(value=x.args[0], attr="x", ctx=ast.Load())) is not None:
                        return True
                    if isinstance(x, ast.Name) and x.id in saved_names:
                        return True
                return False

            tests = [n for n in g.live_nodes() if n.kind == "test" and mentions_label(n.ast)]
            if not tests:
                ctx.bad("C16.4", f, f.node, "the error is no longer conditional on the stored label", construct="no test of the label value")
                continue
            t0 = tests[0]
            for rn in raises:
                if t0.id not in dom[rn.id]:
                    ctx.bad("C16.4", f, rn.ast, "the AnnotationError is not guarded by the test of the label value")
            if f in fl.setters:
                for n in g.live_nodes():
                    if n.kind == "stmt" and isinstance(n.ast, ast.Assign) and any(
                            isinstance(t, ast.Attribute) and r.tl_of_expr(f, t) is not None for t in n.ast.targets):
                        if t0.id not in dom[n.id]:
                            ctx.bad("C16.4", f, n.ast, "the label is stored on a path that did not first test that no label is set "
                                    "(nested structured PyTrees would silently overwrite it)")
                        else:
                            ctx.ok("C16.4", f.qualname, "store dominated by the already-set test")
            # polarity: the raising side is `set and value is not None` for the setter,
            # `unset or value is None` for the getter -- checked through the getter's return:
            if f in fl.getters:
                rets = [n for n in g.live_nodes() if n.kind == "return"]
                for rt in rets:
                    if t0.id not in dom[rt.id]:
                        ctx.bad("C16.4", f, rt.ast, "the label is returned without testing that it is set")
                # which side raises: the side on which the value is None / missing
                _check_polarity(ctx, f, t0, getter=True)
            else:
                _check_polarity(ctx, f, t0, getter=False)


def _check_polarity(ctx, f, tnode, getter: bool):
    """Evaluate the test's boolean skeleton over the atoms (has attribute, value is None)."""
    test = tnode.ast

    def ev(e, has, isnone):
        if isinstance(e, ast.BoolOp):
            vals = [ev(v, has, isnone) for v in e.values]
            return all(vals) if isinstance(e.op, ast.And) else any(vals)
        if isinstance(e, ast.UnaryOp) and isinstance(e.op, ast.Not):
            return not ev(e.operand, has, isnone)
        if isinstance(e, ast.Call) and isinstance(e.func, ast.Name) and e.func.id == "hasattr":
            return has
        if isinstance(e, ast.Compare) and len(e.ops) == 1 and isinstance(e.comparators[0], ast.Constant) and e.comparators[0].value is None:
            # `<label> is None`: with a getattr(.., None)-style read a missing attribute reads as None too
            if isinstance(e.ops[0], ast.Is):
                return isnone or not has
            if isinstance(e.ops[0], ast.IsNot):
                return not (isnone or not has)
        raise AnalysisError(f"C16.4: unrecognised atom in label test `{norm(test)}`")

    # which successor raises?
    t_raises = None
    for k, s in tnode.succ:
        if k in ("t", "f"):
            # follow straight-line to see whether it reaches a raise first
            n = s
            seen = 0
            while n is not None and seen < 20:
                seen += 1
                if n.kind == "raise":
                    if k == "t":
                        t_raises = True
                    elif t_raises is None:
                        t_raises = False
                    break
                nxt = [x for kk, x in n.succ if kk == "n"]
                n = nxt[0] if len(nxt) == 1 and n.kind in ("stmt",) else None
    if t_raises is None:
        raise AnalysisError(f"C16.4: cannot tell which side of `{norm(test)}` raises in {f.qualname}")
    bad = []
    for has in (False, True):
        for isnone in (False, True):
            if not has and not isnone:
                continue  # no attribute: `value is None` is not evaluated; treat as unset below
            unset = (not has) or isnone
            v = ev(test, has, isnone if has else True)
            raises = v if t_raises else not v
            want = unset if getter else not unset
            if raises != want:
                bad.append((has, isnone))
    if bad:
        ctx.bad("C16.4", f, test, ("reading" if getter else "setting") + " the '?' label raises on the wrong side of the test "
                f"(has-attribute, is-None) = {bad}")
    else:
        ctx.ok("C16.4", f.qualname, ("get-when-unset" if getter else "set-when-set") + " raises; truth table over (has attribute, value is None) agrees")


# ------------------------------------------------------------------------ C16.6
def check_every_leaf_visited(ctx, r, cg):
    m = ctx.model
    n_loops = 0
    for f in [x for x in m.all_functions(include_typeguard=False) if x.module.short == "_pytree_type"]:
        flat_names = set()
        for a in walk_scope(f.node):
            if isinstance(a, ast.Assign) and isinstance(a.value, ast.Call) and "tree_flatten" in norm(a.value.func):
                t0 = a.targets[0]
                if isinstance(t0, ast.Tuple) and t0.elts and isinstance(t0.elts[0], ast.Name):
                    flat_names.add(t0.elts[0].id)
        if not flat_names:
            continue
        ctx.saw(f)
        g = NoReturn(m).cfg(f)
        for hdr in [n for n in g.live_nodes() if n.kind == "for"]:
            st = hdr.ast
            it = st.iter
            if not (isinstance(it, ast.Call) and isinstance(it.func, ast.Name) and it.func.id == "enumerate" and isinstance(st.target, ast.Tuple)
                    and len(st.target.elts) == 2 and isinstance(st.target.elts[1], ast.Name) and it.args and isinstance(it.args[0], ast.Name) and it.args[0].id in flat_names):
                continue
            leafvar = st.target.elts[1].id
            n_loops += 1
            checks = set()
            for n in g.live_nodes():
                for c in ast.walk(n.ast) if n.ast is not None and n.kind in ("stmt", "test", "return") else []:
                    if isinstance(c, ast.Call) and any(isinstance(a, ast.Name) and a.id == leafvar for a in c.args):
                        # a builtin such as id()/type()/len() applied to the leaf is not a check of it
                        if m.resolve_call(f, c).kind in ("callout", "func", "method"):
                            checks.add(n.id)
            if not checks:
                ctx.bad("C16.6", f, st, f"the leaves loop never hands `{leafvar}` to the leaf check")
                continue
            # can the header be reached again from the loop body without passing a check node?
            start = [s2 for k, s2 in hdr.succ if k == "loop"]
            seen = set()
            stack = list(start)
            skipped = None
            while stack:
                n = stack.pop()
                if n.id in seen or n.id in checks:
                    continue
                seen.add(n.id)
                if n is hdr:
                    skipped = n
                    break
                for k, s2 in n.succ:
                    if k in ("e", "b") or s2.kind in ("exit", "exit_e", "exit_b"):
                        continue
                    stack.append(s2)
            if skipped is not None:
                culprit = None
                for nid in seen:
                    nd = g.nodes[nid]
                    if nd.kind == "stmt" and isinstance(nd.ast, ast.Continue):
                        culprit = nd.ast
                    if nd.kind == "test" and culprit is None:
                        culprit = nd.ast
                ctx.bad("C16.6", f, culprit if culprit is not None else st,
                        f"an iteration of the leaves loop can return to the loop header without `{leafvar}` having been checked: that leaf position "
                        "binds nothing ('?' axes are per leaf position), so a later tree may disagree on it unnoticed",
                        construct=f"leaves loop: iteration path skips the check of `{leafvar}`" + (f" via `{short(culprit, 60)}`" if culprit is not None else ""))
            else:
                ctx.ok("C16.6", f.qualname, f"every iteration of the leaves loop passes `{leafvar}` to the leaf check before the next one starts")
    ctx.counters["leaves_loops"] = n_loops
    ctx.floor("C16.6", "leaves_loops", 1)


def check_union_does_not_swallow_misuse(ctx):
    """C16.9: the AnnotationError for a misplaced `?` must reach the caller also when the offending annotation is a *member of a union* leaf
    type: the vendored typeguard tries the members one after another and moves on when one raises -- on TypeError only.  A broader handler
    (`except Exception`) swallows AnnotationError: `PyTree[Float[A, "?n"] | int]` answers False instead of raising."""
    m = ctx.model
    cu = None
    for q, f in m.functions.items():
        if f.module.short.startswith("_typeguard") and f.name == "check_union":
            cu = f
    need(cu is not None, "C16.9: the vendored typeguard's check_union was not found")
    ctx.saw(cu)
    n = 0
    for t in ast.walk(cu.node):
        if isinstance(t, ast.Try):
            for h in t.handlers:
                n += 1
                names = [] if h.type is None else [norm(x) for x in (h.type.elts if isinstance(h.type, ast.Tuple) else [h.type])]
                broad = h.type is None or any(x in ("Exception", "BaseException") for x in names)
                reraises = h.body and isinstance(h.body[-1], ast.Raise) and h.body[-1].exc is None
                if broad and not reraises:
                    ctx.bad("C16.9", cu, h, f"check_union moves on to the next member on `except {', '.join(names) or ''}`: an AnnotationError raised by a member (a `?` axis outside a structured "
                            "PyTree, an ambiguous nesting) is swallowed, so the misuse is answered with False / accepted by another member instead of being reported",
                            construct="check_union swallows AnnotationError")
                else:
                    ctx.ok("C16.9", cu.qualname, f"moves on to the next union member on `{', '.join(names)}` only")
    ctx.counters["union_handlers"] = n
    ctx.floor("C16.9", "union_handlers", 1)


def _pytree_rollback(ctx, r):
    from . import c04

    sites = [s_ for s_ in c04.find_sites(ctx, r) if s_.fn.module.short == "_pytree_type"]
    for s_ in sites:
        c04.check_site(ctx, r, s_)
    ctx.counters["pytree_rollback_sites"] = len(sites)
    ctx.floor("C16.8", "pytree_rollback_sites", 1)


# ------------------------------------------------------------------------ C16.7
def check_label_only_builds_keys(ctx, r):
    m = ctx.model
    n = 0
    for f in m.all_functions(include_typeguard=False):
        if f.module.short == "_storage":
            continue
        calls = [c for c in ast.walk(f.node) if isinstance(c, ast.Call)]
        getters = []
        for c in calls:
            try:
                if _label_getter_kind(ctx, r, f, c) == "getter":
                    getters.append(c)
            except AnalysisError:
                continue
        if not getters:
            continue
        ctx.saw(f)
        parents = {}
        for p_ in ast.walk(f.node):
            for c_ in ast.iter_child_nodes(p_):
                parents[id(c_)] = p_
        for gcall in getters:
            n += 1
            uses = [gcall]
            p_ = parents.get(id(gcall))
            if isinstance(p_, ast.Assign) and p_.value is gcall and len(p_.targets) == 1 and isinstance(p_.targets[0], ast.Name):
                nm = p_.targets[0].id
                uses = [x for x in ast.walk(f.node) if isinstance(x, ast.Name) and x.id == nm and isinstance(x.ctx, ast.Load)]
            for u in uses:
                pu = parents.get(id(u))
                if isinstance(pu, ast.BinOp) and isinstance(pu.op, ast.Add) and pu.left is u:
                    continue  # <label> + name: a key is built
                if isinstance(pu, ast.JoinedStr) or isinstance(pu, ast.FormattedValue):
                    continue  # formatted into a key / a message
                if isinstance(pu, ast.Assign) and pu.value is u:
                    continue
                if isinstance(pu, ast.Expr):
                    continue  # called for its AnnotationError only
                ctx.bad("C16.7", f, pu if pu is not None else u, f"the leaf label is used by `{short(pu if pu is not None else u, 60)}`, not to build a memo key: labelled keys are being taken apart / compared, "
                        "which lets a '?' axis be seen under its bare name (and interact with the plain axis of that name)", construct=f"leaf label used other than as a key prefix in {f.name}")
    ctx.counters["label_reads"] = n
    ctx.floor("C16.7", "label_reads", 2)
    if not any(fd.rule == "C16.7" for fd in ctx.findings):
        ctx.ok("C16.7", "_array_types", f"all {n} reads of the leaf label build a memo key (`<label> + <dim>.name`)")
