"""C14 -- the dim-string language: modifier order is free, illegal forms are ValueError.

Decided structurally:
  C14.1 exception discipline: every explicit `raise` reachable from `Dtype[...]` construction
        (the subscript handler, _make_array, _make_array_cached and their helpers) raises
        ValueError.
  C14.2 totality: every partial operation applied to the user's spec or a value derived from
        it is dominated by the guard that makes it total: str methods <- isinstance(_, str)
        test that raises ValueError; x[0] <- length test; 2-tuple unpack of split("=") <-
        count("=") == 1; int(x) <- enclosing `except ValueError`; unpack of the subscript
        item <- tuple/length test.
  C14.3 modifiers: the stripping loop handles exactly the documented modifier characters (the
        "Prepend `c`" bullets of docs/api/array.md) plus `name=`; each arm tests only the
        first character and its own flag (=> order freedom), sets that flag, removes one
        character, and its duplicate test raises ValueError; the flags are initialised once
        per token, outside the loop (a repeat is detected wherever it occurs).
  C14.4 legality matrix: {fixed, named+anonymous, symbolic} x {variadic, anonymous, treepath,
        broadcastable} -> ValueError extracted from the guarded raises equals the reference
        table; plus: second multi-axis specifier, `...` with modifiers, comma, trailing `#`.
  C14.5 whitespace: the spec is strip()ped and split with the no-argument split().
Not decided: the *meaning* of accepted forms (C01).  A wholesale rewrite of the modifier
loop yields ANALYSIS-ERROR (no verdict), not a pass.
"""
from __future__ import annotations

import ast
import re

from ..callgraph import CallGraph
from ..core import AnalysisError, RuleContext, need, norm, short
from ..model import walk_scope, walk_with_lambdas
from ..cfg import Flow
from ..typestate import NoReturn

EXPLANATION = __doc__

STR_METHODS = {"strip", "split", "startswith", "endswith", "count", "isidentifier", "lstrip", "rstrip", "replace", "lower", "upper", "partition", "find"}


def run(ctx: RuleContext):
    ctx.sub(check_raise_discipline, ctx)
    ctx.sub(check_totality, ctx)
    ctx.sub(check_modifier_loop, ctx)
    ctx.sub(check_legality_matrix, ctx)
    ctx.sub(check_whitespace, ctx)
    # C14.6: "two multi-axis specifiers raise ValueError" also when one sits in the annotation being extended and one in the extension
    # (`Shaped[Float[A, "... c"], "*b"]`): the nesting branch of C15.1 (identity tests against None -- position 0 is falsy --, the raise,
    # the shift computed before the concatenation)
    from .c15 import check_nesting

    ctx.reuse("C14.6", check_nesting, ctx)


def construction_functions(ctx):
    m = ctx.model
    cg = CallGraph(m)
    root = m.func("_array_types._MetaAbstractDtype.__getitem__")
    pred = cg.reachable([root], follow_refs=False, dispatch=False)
    fs = [m.functions[q] for q in pred if q in m.functions and m.functions[q].module.short == "_array_types"]
    return root, fs


# ------------------------------------------------------------------------ C14.1
def check_raise_discipline(ctx):
    m = ctx.model
    root, fs = construction_functions(ctx)
    n = 0
    for f in fs:
        ctx.saw(f)
        for st in walk_with_lambdas(f.node):
            if isinstance(st, ast.Raise):
                n += 1
                x = st.exc
                if x is None:
                    ctx.ok("C14.1", f.qualname, "bare re-raise")
                    continue
                from ._exc import raised_class

                cname = raised_class(m, f, x)
                if cname is None:
                    raise AnalysisError(f"C14.1: the class of what `{short(st, 60)}` raises in {f.qualname} could not be read")
                if cname != "ValueError":
                    ctx.bad("C14.1", f, st, f"building an annotation can fail with `{cname}` here; every rejected dim specification must be a ValueError")
                else:
                    ctx.ok("C14.1", f.qualname, f"raise ValueError: {short(x.args[0], 50) if isinstance(x, ast.Call) and x.args else ''}")
    ctx.counters["construction_raise_sites"] = n
    ctx.floor("C14.1", "construction_raise_sites", 20)


# ------------------------------------------------------------------------ C14.2
def _dominating_tests(g, dom, node):
    return [g.nodes[i] for i in dom[node.id] if g.nodes[i].kind in ("test", "while")]


def _side_of(g, dom, tnode, node):
    """'t' / 'f' if `node` can only be reached through that outcome of the dominating test `tnode` (the successor on that edge
    dominates it and the other one does not), else None (reachable through both outcomes)."""
    sides = {}
    for k, s in tnode.succ:
        if k in ("t", "f", "loop", "done"):
            kk = "t" if k in ("t", "loop") else "f"
            sides[kk] = s
    on = [k for k, s in sides.items() if s.id in dom[node.id] or s is node]
    return on[0] if len(on) == 1 else None


def _count_is_one_guard(g, dom, node, sep):
    """Is `node` only reached when `<x>.count(sep) == 1` holds?  (through the true side of `== 1`, the false side of `!= 1`,
    also as a conjunct of the test)"""
    for t in _dominating_tests(g, dom, node):
        side = _side_of(g, dom, t, node)
        if side is None:
            continue
        def has(e, positive):
            # does outcome `positive` of expression e imply count == 1?
            if isinstance(e, ast.UnaryOp) and isinstance(e.op, ast.Not):
                return has(e.operand, not positive)
            if isinstance(e, ast.BoolOp):
                if isinstance(e.op, ast.And) and positive:
                    return any(has(v, True) for v in e.values)
                if isinstance(e.op, ast.Or) and not positive:
                    return any(has(v, False) for v in e.values)
                return False
            if isinstance(e, ast.Compare) and len(e.ops) == 1:
                l, r_ = e.left, e.comparators[0]
                if isinstance(r_, ast.Call) and isinstance(l, ast.Constant):
                    l, r_ = r_, l
                if isinstance(l, ast.Call) and isinstance(l.func, ast.Attribute) and l.func.attr == "count" and l.args and isinstance(l.args[0], ast.Constant) \
                        and l.args[0].value == sep and isinstance(r_, ast.Constant) and r_.value == 1:
                    if isinstance(e.ops[0], ast.Eq):
                        return positive
                    if isinstance(e.ops[0], ast.NotEq):
                        return not positive
            return False
        if has(t.ast, side == "t"):
            return True
    return False


def _guard_raises_on_failure(g, tnode, kind_needed="ValueError"):
    """One side of the test leads straight to `raise ValueError`."""
    for k, s in tnode.succ:
        if k in ("t", "f"):
            n = s
            hops = 0
            while n is not None and hops < 6:
                hops += 1
                if n.kind == "raise":
                    return n.info.get("kinds") == [kind_needed]
                nx = [x for kk, x in n.succ if kk == "n"]
                n = nx[0] if len(nx) == 1 and n.kind == "stmt" else None
    return False


def check_totality(ctx):
    m = ctx.model
    root, fs = construction_functions(ctx)
    n_ops = 0
    for f in fs:
        if f.name not in ("__getitem__", "_make_array_cached", "_make_array"):
            continue
        g = NoReturn(m).cfg(f)
        dom = g.dominators()
        spec_names = {p for p in f.params if p in ("dim_str",)}
        # names holding the user's spec: `dim_str` parameter or unpacked from the item
        for st in walk_scope(f.node):
            if isinstance(st, ast.Assign) and isinstance(st.targets[0], ast.Tuple) and isinstance(st.value, ast.Name) and st.value.id in f.params:
                for e in st.targets[0].elts:
                    if isinstance(e, ast.Name) and e.id == "dim_str":
                        spec_names.add(e.id)
        for node in g.live_nodes():
            if node.ast is None or node.kind not in ("stmt", "test", "while", "return", "for"):
                continue
            tree = node.ast if node.kind != "for" else node.ast.iter
            for x in ast.walk(tree):
                # (i) string methods on the spec
                if isinstance(x, ast.Call) and isinstance(x.func, ast.Attribute) and x.func.attr in STR_METHODS and isinstance(x.func.value, ast.Name) \
                        and x.func.value.id in spec_names:
                    n_ops += 1
                    nm = x.func.value.id
                    tests = [t for t in _dominating_tests(g, dom, node) if any(
                        isinstance(c, ast.Call) and isinstance(c.func, ast.Name) and c.func.id == "isinstance" and len(c.args) == 2 and norm(c.args[0]) == nm and norm(c.args[1]) == "str"
                        for c in ast.walk(t.ast))]
                    if not tests:
                        ctx.bad("C14.2", f, x, f"`{norm(x)}` is applied to the user's shape specification before it is known to be a string: a non-string "
                                "specification fails with AttributeError instead of ValueError", construct=f"{nm}.{x.func.attr}() before isinstance({nm}, str)")
                    elif not any(_guard_raises_on_failure(g, t) for t in tests):
                        ctx.bad("C14.2", f, tests[0].ast, "the string test of the shape specification does not reject with ValueError")
                    else:
                        ctx.ok("C14.2", f.qualname, f"`{short(x, 40)}` dominated by isinstance({nm}, str) -> ValueError")
                # (ii) elem[0]
                if isinstance(x, ast.Subscript) and isinstance(x.ctx, ast.Load) and isinstance(x.value, ast.Name) and x.value.id == "elem" \
                        and isinstance(x.slice, ast.Constant) and x.slice.value == 0:
                    n_ops += 1
                    tests = [t for t in _dominating_tests(g, dom, node) if "len(elem)" in norm(t.ast)]
                    if not tests:
                        ctx.bad("C14.2", f, x, "`elem[0]` is read without a dominating length test: a bare modifier such as `_` or `*` (empty rest) raises IndexError")
                    else:
                        ctx.ok("C14.2", f.qualname, "`elem[0]` dominated by a length test")
                # (iii) 2-tuple unpack of split("=")
                if isinstance(x, ast.Assign) and isinstance(x.targets[0], ast.Tuple) and len(x.targets[0].elts) == 2 and isinstance(x.value, ast.Call) \
                        and isinstance(x.value.func, ast.Attribute) and x.value.func.attr == "split" and x.value.args and isinstance(x.value.args[0], ast.Constant):
                    n_ops += 1
                    sep = x.value.args[0].value
                    if not _count_is_one_guard(g, dom, node, sep):
                        ctx.bad("C14.2", f, x, f"a 2-way unpack of split('{sep}') is not dominated by count('{sep}') == 1: `a=b=c` raises a bare unpacking ValueError/"
                                "TypeError with an unrelated message or is mis-parsed")
                    else:
                        ctx.ok("C14.2", f.qualname, f"unpack of split('{sep}') dominated by count('{sep}') == 1")
                # (iv) int(x)
                if isinstance(x, ast.Call) and isinstance(x.func, ast.Name) and x.func.id == "int" and x.args and isinstance(x.args[0], ast.Name) and x.args[0].id == "elem":
                    n_ops += 1
                    ok = False
                    for t in ast.walk(f.node):
                        if isinstance(t, ast.Try) and any(y is x for b in t.body for y in ast.walk(b)):
                            if any(h.type is not None and "ValueError" in norm(h.type) for h in t.handlers):
                                ok = True
                    if ok:
                        ctx.ok("C14.2", f.qualname, "int(elem) inside try/except ValueError")
                    else:
                        ctx.bad("C14.2", f, x, "int(elem) is not protected by `except ValueError`")
                # (v) unpack of the subscript item
                if isinstance(x, ast.Assign) and isinstance(x.targets[0], ast.Tuple) and isinstance(x.value, ast.Name) and x.value.id in f.params and f.name == "__getitem__":
                    n_ops += 1
                    it = x.value.id
                    tests = [t for t in _dominating_tests(g, dom, node) if f"isinstance({it}, tuple)" in norm(t.ast) and f"len({it})" in norm(t.ast)]
                    if not tests or not any(_guard_raises_on_failure(g, t) for t in tests):
                        ctx.bad("C14.2", f, x, f"the subscript `{it}` is unpacked without a dominating tuple/length test that raises ValueError")
                    else:
                        ctx.ok("C14.2", f.qualname, f"`{short(x, 40)}` dominated by the tuple/length test -> ValueError")
    ctx.counters["partial_operation_sites"] = n_ops
    ctx.floor("C14.2", "partial_operation_sites", 6)
    ctx.sub(_check_token_stays_a_string, ctx)
    # (vi) nothing on the construction path parses / compiles / evaluates a piece of the specification: the base of a
    # symbolic axis is kept as text until a check evaluates it, so a malformed expression (`n+`, `2n`) cannot make
    # `Float[Array, spec]` fail with SyntaxError (or NameError) when the annotation is built
    PARSERS = {"compile": "SyntaxError", "eval": "SyntaxError / NameError", "exec": "SyntaxError", "ast.parse": "SyntaxError", "ast.literal_eval": "SyntaxError",
               "parse": "SyntaxError", "literal_eval": "SyntaxError"}
    n_parse = 0
    for f in fs:
        for x in walk_scope(f.node):
            if isinstance(x, ast.Call) and norm(x.func) in PARSERS and x.args and not isinstance(x.args[0], ast.Constant):
                if norm(x.func) in ("parse", "literal_eval"):
                    b_ = m.resolve_name(f, x.func.id) if isinstance(x.func, ast.Name) else None
                    if b_ is None or b_.kind != "ext" or not str(b_.target).startswith("ast."):
                        continue
                n_parse += 1
                protected = False
                for t in ast.walk(f.node):
                    if isinstance(t, ast.Try) and any(y is x for b in t.body for y in ast.walk(b)):
                        for h in t.handlers:
                            names = norm(h.type) if h.type is not None else "BaseException"
                            if any(k in names for k in ("SyntaxError", "Exception", "BaseException")) and _raises_value_error(h.body):
                                protected = True
                if protected:
                    ctx.ok("C14.2", f.qualname, f"`{short(x, 40)}`: failures are turned into ValueError")
                else:
                    ctx.bad("C14.2", f, x, f"`{short(x, 50)}` runs while the annotation is being built: a malformed piece of the specification (e.g. the symbolic axis `n+`) makes "
                            f"`Dtype[Array, spec]` fail with {PARSERS[norm(x.func)]} instead of being accepted as text or rejected with ValueError",
                            construct=f"{norm(x.func)}() of a piece of the specification at construction time")
    ctx.counters["construction_time_parsers"] = n_parse
    ctx.ok("C14.2", root.qualname, f"{len(fs)} construction functions: {n_parse} call(s) that parse / compile a piece of the specification")


# ------------------------------------------------------------------------ C14.3
def documented_modifiers(ctx) -> set:
    doc = ctx.model.docs.get("docs/api/array.md")
    need(doc, "docs/api/array.md not found")
    chars = set(re.findall(r"^- Prepend `(.)` to an axis", doc, flags=re.M))
    return chars


def check_modifier_loop(ctx):
    """One iteration of the stripping loop, walked on the CFG for every modifier character and
    both values of its flag: first occurrence -> its own flag becomes True and exactly one
    character is dropped; repeated -> ValueError.  Insensitive to where the `elem = elem[1:]` is
    written (per arm or hoisted), to `while True/break` vs `while len(elem) != 0`, to arm order."""
    from ..absim import eval_bool, simulate
    from ..typestate import NoReturn

    m = ctx.model
    f = m.func("_array_types._make_array_cached")
    ctx.saw(f)
    docchars = documented_modifiers(ctx)
    need(len(docchars) >= 4, f"documented modifier bullets not found (got {docchars})")
    loops = [x for x in ast.walk(f.node) if isinstance(x, ast.While)]
    loops = [l for l in loops if any(isinstance(n, ast.Compare) and norm(n.left) == "first_char" for n in ast.walk(l))]
    if len(loops) != 1:
        raise AnalysisError("C14.3: the modifier-stripping loop (`while ...: first_char = elem[0]; if first_char == ...`) is not present in a recognised form")
    lp = loops[0]
    # the variable that holds what is left of the token: the one whose first character is looked at (`first_char = <tok>[0]`); `elem` on the
    # pinned tree, a working copy when the loop was extracted into a helper and inlined back
    tokv = "elem"
    for a_ in ast.walk(lp):
        if isinstance(a_, ast.Assign) and len(a_.targets) == 1 and norm(a_.targets[0]) == "first_char" and isinstance(a_.value, ast.Subscript) and isinstance(a_.value.value, ast.Name):
            tokv = a_.value.value.id
    chars = sorted({n.comparators[0].value for n in ast.walk(lp) if isinstance(n, ast.Compare) and norm(n.left) == "first_char" and isinstance(n.comparators[0], ast.Constant)})
    other_tests = [n for n in ast.walk(lp) if isinstance(n, ast.Compare) and norm(n.left) == "first_char" and not (
        len(n.ops) == 1 and isinstance(n.ops[0], (ast.Eq, ast.NotEq)) and isinstance(n.comparators[0], ast.Constant))]
    if other_tests or not chars:
        # the first character is looked up in a table / a set of seen characters: which modifiers that table holds and how a
        # repeat is detected is not read off an if-chain
        raise AnalysisError(f"C14.3: the modifier-stripping loop decides on `{short(other_tests[0] if other_tests else lp.test, 50)}`, not on comparisons of the first character "
                            "with literal modifier characters; its table is not interpreted")
    if set(chars) != docchars:
        ctx.bad("C14.3", f, lp, f"the modifier characters handled ({chars}) differ from the documented ones ({sorted(docchars)})",
                construct=f"modifier arms {chars} vs docs {sorted(docchars)}")
    else:
        ctx.ok("C14.3", f.qualname, f"modifier characters {chars} = documented 'Prepend' bullets")
    g = NoReturn(m).cfg(f)
    hdr = next((n for n in g.live_nodes() if n.kind == "while" and n.ast is lp.test), None)
    need(hdr is not None, "C14.3: loop header not found in the CFG")
    body_start = [s_ for k, s_ in hdr.succ if k == "t"]
    need(body_start, "C14.3: loop body not reachable")
    loop_ids = g.reach_from(body_start[0], avoid=lambda n: n is hdr)
    after_loop = {s_.id for k, s_ in hdr.succ if k == "f"}
    for n_id in list(loop_ids):
        for k, s_ in g.nodes[n_id].succ:
            if k == "brk":
                after_loop.add(s_.id)

    def run(char, flags):
        def atom(e):
            t = norm(e)
            if isinstance(e, ast.Compare) and len(e.ops) == 1 and norm(e.left) == "first_char" and isinstance(e.comparators[0], ast.Constant):
                v = e.comparators[0].value == char
                return v if isinstance(e.ops[0], ast.Eq) else not v
            if isinstance(e, ast.Compare) and f"len({tokv})" in t:
                if t in (f"len({tokv}) == 0", f"0 == len({tokv})"):
                    return False
                if t in (f"len({tokv}) != 0", f"len({tokv}) > 0", f"0 != len({tokv})"):
                    return True
            if t == tokv:
                return True
            if isinstance(e, ast.Compare) and t.startswith(f"{tokv}.count('=')") and len(e.ops) == 1 and isinstance(e.ops[0], (ast.Eq, ast.NotEq)) \
                    and isinstance(e.comparators[0], ast.Constant) and e.comparators[0].value == 1:
                v = char == "name="
                return v if isinstance(e.ops[0], ast.Eq) else not v
            if isinstance(e, ast.Name):
                return flags.get(e.id)  # None = unknown: both sides are explored
            raise AnalysisError(f"C14.3: unrecognised condition `{t}` in the modifier loop")

        def stop(n):
            return n is hdr or n.kind in ("raise", "return", "exit", "exit_e", "exit_b") or n.id in after_loop

        def event_of(n):
            a = n.ast
            if n.kind == "stmt" and isinstance(a, ast.Assign):
                tx = norm(a)
                if tx == f"{tokv} = {tokv}[1:]":
                    return "strip"
                if isinstance(a.value, ast.Constant) and a.value.value is True and isinstance(a.targets[0], ast.Name):
                    return "flag:" + a.targets[0].id
                if "split('=')" in tx:
                    return "dropname"
            return None

        return simulate(g, body_start[0], stop, lambda n: eval_bool(n.ast, atom), None, event_of)

    flags_of = {}
    ok_all = True
    for c in chars:
        outs = run(c, {})
        # learn the flag of this character: the flag set on the path that continues the loop
        cont = [o for o in outs if o.end is hdr]
        fl = {e[5:] for o in cont for e in o.events if e.startswith("flag:")}
        if len(fl) != 1:
            ok_all = False
            ctx.bad("C14.3", f, lp, f"a first `{c}` does not set exactly one flag and continue with the rest of the token (flags set: {sorted(fl)})", construct=f"arm '{c}': flags {sorted(fl)}")
            continue
        flags_of[c] = fl.pop()
    if len(set(flags_of.values())) != len(flags_of):
        ok_all = False
        ctx.bad("C14.3", f, lp, f"two modifiers share one flag: {flags_of}", construct=f"flags {flags_of}")
    for c, flag in flags_of.items():
        others = {v: False for k, v in flags_of.items() if k != c}
        for own in (False, True):
            for other_val in (False, True):
                env = {v: other_val for v in others}
                env[flag] = own
                outs = run(c, env)
                for o in outs:
                    if own:
                        good = o.end.kind == "raise" and o.end.info.get("kinds") == ["ValueError"]
                        if not good:
                            ok_all = False
                            ctx.bad("C14.3", f, lp, f"a repeated `{c}` (its flag `{flag}` already set, other modifiers {'present' if other_val else 'absent'}) is not rejected with ValueError "
                                    f"(ends at `{o.end.text()}`)", construct=f"arm '{c}': repeat not rejected (others {'set' if other_val else 'unset'})")
                    else:
                        strips = [e for e in o.events if e == "strip"]
                        sets = [e for e in o.events if e.startswith("flag:")]
                        good = o.end is hdr and len(strips) == 1 and sets == ["flag:" + flag]
                        if not good:
                            ok_all = False
                            ctx.bad("C14.3", f, lp, f"a first `{c}` (other modifiers {'present' if other_val else 'absent'}) does not (set `{flag}`, drop exactly one character, continue): "
                                    f"events {list(o.events)}, ends at `{o.end.text()}` -- the meaning of `{c}` would depend on the other modifiers / their order",
                                    construct=f"arm '{c}': first occurrence with others {'set' if other_val else 'unset'} -> {list(o.events)}")
    # `name=` and plain characters
    outs = run("name=", {v: False for v in flags_of.values()})
    if not any(o.end is hdr and "dropname" in o.events for o in outs):
        ok_all = False
        ctx.bad("C14.3", f, lp, "the documentation-only `name=` prefix is no longer dropped inside the stripping loop (so that modifiers may come before or after it)", construct="name= arm")
    outs = run("x", {v: False for v in flags_of.values()})
    if not all(o.end.id in after_loop for o in outs):
        ok_all = False
        ctx.bad("C14.3", f, lp, "an ordinary first character does not end the stripping loop", construct="plain character")
    # the flags are initialised exactly once per token, outside the loop
    for c, flag in flags_of.items():
        inits = [x for x in ast.walk(f.node) if isinstance(x, ast.Assign) and norm(x.targets[0]) == flag and isinstance(x.value, ast.Constant) and x.value.value is False]
        inside = [x for x in inits if any(y is x for y in ast.walk(lp))]
        if inside:
            ok_all = False
            ctx.bad("C14.3", f, inside[0], f"the flag `{flag}` is reset inside the stripping loop: a repeated `{c}` (e.g. on both sides of `name=`) is no longer detected")
        elif not inits:
            ok_all = False
            ctx.bad("C14.3", f, lp, f"the flag `{flag}` is never initialised to False", construct=f"{flag} init")
    if ok_all:
        ctx.ok("C14.3", f.qualname, f"each of {chars}: first occurrence sets its own flag {flags_of} and drops one character whatever the other flags are; a repeat raises ValueError; "
               "`name=` is dropped inside the loop; flags initialised once per token")


# ------------------------------------------------------------------------ C14.4
REFERENCE = {
    "fixed": {"variadic", "anonymous", "treepath"},
    "symbolic": {"variadic", "anonymous", "treepath"},
    "named": {("anonymous", "broadcastable")},
}


def check_legality_matrix(ctx):
    m = ctx.model
    f = m.func("_array_types._make_array_cached")
    # locate the `if dim_type is _DimType.X` chain (in the parser or in a helper it calls)
    chains = []
    chain_fn = f
    for fn_ in [x for x in m.all_functions(include_typeguard=False) if x.module.short == "_array_types"]:
        for x in ast.walk(fn_.node):
            if isinstance(x, ast.If) and isinstance(x.test, ast.Compare) and norm(x.test.left) == "dim_type" and isinstance(x.test.ops[0], (ast.Is, ast.Eq)) and "_DimType" in norm(x.test):
                chains.append(x)
                chain_fn = fn_
    tops = [c for c in chains if not any(c in p.orelse for p in chains)]
    need(len(tops) == 1, "C14.4: dim_type dispatch chain not found")
    st = tops[0]
    branches = {}
    while True:
        kind = norm(st.test.comparators[0]).split(".")[-1]
        branches[kind] = st.body
        if len(st.orelse) == 1 and isinstance(st.orelse[0], ast.If) and isinstance(st.orelse[0].test, ast.Compare) and norm(st.orelse[0].test.left) == "dim_type":
            st = st.orelse[0]
        else:
            if st.orelse:
                # else-branch with `assert dim_type is _DimType.<k>`
                for x in st.orelse:
                    if isinstance(x, ast.Assert) and "dim_type is" in norm(x.test):
                        branches[norm(x.test).split(".")[-1]] = st.orelse
            break
    for k in ("fixed", "named", "symbolic"):
        if k not in branches:
            raise AnalysisError(f"C14.4: branch for dim type `{k}` not found")

    def flag_of(t):
        """`variadic` / `mods.variadic`: the modifier flag a test reads (a local or a field of a record)"""
        if isinstance(t, ast.Name):
            return t.id
        if isinstance(t, ast.Attribute) and isinstance(t.value, ast.Name):
            return t.attr
        return None

    FLAGS = ("broadcastable", "variadic", "anonymous", "treepath")
    from ..absim import eval_bool
    import itertools as _it

    def outcomes(stmts, val):
        """Set of outcomes ('raise:ValueError' | 'raise:other' | 'pass') of a branch body for one
        valuation of the four flags; conditions on anything else are explored both ways."""
        def atom(e):
            fl = flag_of(e)
            if fl in val:
                return val[fl]
            return None

        def run(block):
            outs = set()
            for i, x in enumerate(block):
                if isinstance(x, ast.Raise):
                    from ._exc import raised_class

                    rc_ = raised_class(m, f, x.exc)
                    if rc_ is None:
                        raise AnalysisError(f"C14.4: the class of what `{short(x, 50)}` raises could not be read")
                    return {"raise:ValueError" if rc_ == "ValueError" else "raise:other"}
                if isinstance(x, ast.If):
                    v = eval_bool(x.test, atom)
                    res = set()
                    for side, taken in ((x.body, v is not False), (x.orelse, v is not True)):
                        if taken:
                            res |= run(side)
                    if "pass" not in res:
                        return outs | res
                    outs |= res - {"pass"}
                    continue
                if isinstance(x, ast.Assert) and isinstance(x.test, ast.Constant) and not x.test.value:
                    return outs | {"raise:other"}
                if isinstance(x, ast.Break):
                    return outs | {"break"}
                if isinstance(x, ast.While) and isinstance(x.test, ast.Constant) and x.test.value and not x.orelse:
                    # a single-pass block (an inlined helper): `break` leaves it
                    res = run(x.body)
                    if "pass" in res:
                        raise AnalysisError("C14.4: a `while True` block in a dim-type branch can loop")
                    outs |= res - {"break"}
                    if "break" not in res:
                        return outs
                    continue
                if isinstance(x, (ast.Try, ast.While, ast.For, ast.With, ast.Return, ast.Continue)):
                    raise AnalysisError(f"C14.4: statement `{short(x, 50)}` in a dim-type branch is outside what the legality table can interpret")
            return outs | {"pass"}

        return run(stmts)

    n = 0
    for k, ref in REFERENCE.items():
        wrong_acc, wrong_rej, not_ve = [], [], []
        for bits in _it.product((False, True), repeat=4):
            val = dict(zip(FLAGS, bits))
            must = any(all(val[x] for x in (key if isinstance(key, tuple) else (key,))) for key in ref)
            got = {("pass" if x == "break" else x) for x in outcomes(branches[k], val)}  # a `break` out of a single-pass block = done
            n += 1
            on = tuple(fl for fl in FLAGS if val[fl])
            if got == {"pass"}:
                if must:
                    wrong_acc.append(on)
            elif "pass" not in got:
                if not must:
                    wrong_rej.append(on)
                elif got != {"raise:ValueError"}:
                    not_ve.append(on)
            else:
                raise AnalysisError(f"C14.4: whether a {k} axis with modifiers {on} is rejected depends on a condition the table cannot evaluate")
        # report per reference key (minimal combinations), as before
        for key in ref:
            kk = key if isinstance(key, tuple) else (key,)
            if any(set(kk) <= set(on) for on in wrong_acc) and tuple(x for x in FLAGS if x in kk) in [tuple(x for x in FLAGS if x in on and x in kk) for on in wrong_acc]:
                ctx.bad("C14.4", f, f.node, f"a {k} axis with the modifier(s) `{key}` is no longer rejected when the annotation is built (the reference table demands ValueError)",
                        construct=f"legality: {k} x {key} accepted")
        for on in not_ve:
            ctx.bad("C14.4", f, branches[k][0], f"the illegal combination {k} + {on} is not rejected with ValueError")
            break
        if wrong_rej:
            extra = min(wrong_rej, key=len)
            ctx.bad("C14.4", f, f.node, f"a {k} axis with the modifier(s) `{extra[0] if len(extra) == 1 else extra}` is rejected although the documented language allows it",
                    construct=f"legality: {k} x {extra[0] if len(extra) == 1 else extra} rejected")
        if not wrong_acc and not wrong_rej and not not_ve:
            ctx.ok("C14.4", f.qualname, f"{k}: rejects exactly {sorted(map(str, ref))} (16 flag valuations)")
    ctx.counters["legality_cells"] = n
    # other documented illegal forms
    def _is_cmp(t, left_pred, op_types, right_pred):
        return isinstance(t, ast.Compare) and len(t.ops) == 1 and isinstance(t.ops[0], op_types) and left_pred(t.left) and right_pred(t.comparators[0])

    def _const(v):
        return lambda e: isinstance(e, ast.Constant) and e.value == v

    # the per-token variable, whatever it is called: the target of the loop over `<dim string>.split()` and
    # the names it is copied to -- a test of the *whole* string is not a per-token test
    token_names = set()
    for lp_ in [x for x in ast.walk(f.node) if isinstance(x, ast.For)]:
        it = lp_.iter
        if isinstance(it, ast.Call) and norm(it.func) == "enumerate" and it.args:
            it = it.args[0]
        if isinstance(it, ast.Call) and isinstance(it.func, ast.Attribute) and it.func.attr == "split":
            for x in ast.walk(lp_.target):
                if isinstance(x, ast.Name):
                    token_names.add(x.id)
    changed_ = True
    while changed_:
        changed_ = False
        for a_ in ast.walk(f.node):
            if isinstance(a_, ast.Assign) and isinstance(a_.value, ast.Name) and a_.value.id in token_names:
                for t_ in a_.targets:
                    if isinstance(t_, ast.Name) and t_.id not in token_names:
                        token_names.add(t_.id)
                        changed_ = True
    need(token_names, "C14.4: the per-token loop over the dim string was not found")
    _name = lambda e: isinstance(e, ast.Name) and e.id in token_names  # noqa: E731
    _RVE_CTX.update(m=m, f=f)
    txt_checks = [
        ("second multi-axis specifier", lambda s: isinstance(s, ast.If) and norm(s.test) == "index_variadic is not None" and _raises_value_error(s.body)),
        ("`...` combined with anything else", lambda s: isinstance(s, ast.If) and ((_is_cmp(s.test, _name, ast.NotEq, _const("...")) and _raises_value_error(s.body))
                                                                                     or (_is_cmp(s.test, _name, ast.Eq, _const("...")) and s.orelse and _raises_value_error(s.orelse)))),
        ("comma-separated axes", lambda s: isinstance(s, ast.If) and any(_is_cmp(x, _const(","), ast.In, _name) for x in ast.walk(s.test)) and _raises_value_error(s.body)),
        ("trailing `#`", lambda s: isinstance(s, ast.If) and isinstance(s.test, ast.Call) and isinstance(s.test.func, ast.Attribute) and s.test.func.attr == "endswith"
            and _name(s.test.func.value) and s.test.args and _const("#")(s.test.args[0]) and _raises_value_error(s.body)),
    ]
    g_ = None
    for label, pred in txt_checks:
        hits = [s for s in ast.walk(f.node) if pred(s)]
        if not hits and label.startswith("`...`") and any(isinstance(x_, ast.Compare) and any(isinstance(y_, ast.Constant) and y_.value == "..." for y_ in [x_.left] + x_.comparators)
                                                            and isinstance(x_.ops[0], (ast.Eq, ast.NotEq)) for x_ in ast.walk(f.node)):
            raise AnalysisError("C14.4: the token is still compared with '...' but not in the form `if tok != '...': raise ValueError`; whether every other token containing `...` is rejected is not read")
        if not hits:
            ctx.bad("C14.4", f, f.node, f"the documented illegal form '{label}' is no longer rejected with ValueError", construct=f"illegal form not rejected: {label}")
            continue
        ctx.ok("C14.4", f.qualname, f"{label} -> ValueError")
        if label in ("comma-separated axes", "trailing `#`"):
            # the test must see the token as written: once leading modifiers / a `name=` prefix have been stripped off,
            # `#` on its own (or `*#`, `doc=#`) no longer ends in `#` and slips through as a broadcastable axis
            if g_ is None:
                g_ = NoReturn(m).cfg(f)
            late = []
            for h_ in hits:
                tvars = {x.id for x in ast.walk(h_.test) if isinstance(x, ast.Name) and x.id in token_names}
                tnodes = [n_ for n_ in g_.live_nodes() if n_.kind == "test" and n_.ast is h_.test]
                loops = [lp_ for lp_ in ast.walk(f.node) if isinstance(lp_, ast.For) and any(y is h_ for b_ in lp_.body for y in ast.walk(b_))
                         and any(isinstance(x, ast.Name) and x.id in tvars for x in ast.walk(lp_.target))]
                if not tnodes or not loops:
                    continue
                hdr = [n_ for n_ in g_.live_nodes() if n_.kind == "for" and n_.ast is loops[0]]
                if not hdr:
                    continue
                stores = [n_ for n_ in g_.live_nodes() if n_.kind == "stmt" and isinstance(n_.ast, (ast.Assign, ast.AugAssign)) and any(
                    isinstance(x, ast.Name) and isinstance(x.ctx, ast.Store) and x.id in tvars for x in ast.walk(n_.ast))]
                for sn in stores:
                    if tnodes[0].id in g_.reach_from(sn, avoid=lambda n_: n_ is hdr[0]):
                        late.append((h_, sn))
                        break
            if late and len(late) == len(hits):  # (a further test of the stripped token next to one of the raw token is harmless)
                h_, sn = late[0]
                ctx.bad("C14.4", f, h_, f"the test for {label} looks at the token after `{short(sn.ast, 50)}` has rewritten it: a token that only has the illegal form before "
                        "its modifiers / `name=` prefix are stripped (e.g. `#` alone, `*#`, `doc=#`) is accepted", construct=f"{label}: tested after the token was rewritten")
            else:
                ctx.ok("C14.4", f.qualname, f"{label}: tested on the token as written")
    # the single-variadic rule must be reached by every variadic token, `...` included:
    # the `if variadic:` test that guards it must not be bypassed by a `continue`
    def innermost_loop(target):
        best = None
        for lp_ in ast.walk(f.node):
            if isinstance(lp_, (ast.For, ast.While)) and any(y is target for b in lp_.body + lp_.orelse for y in ast.walk(b)):
                if best is None or any(y is lp_ for y in ast.walk(best)):
                    best = lp_
        return best

    token_loops = [x for x in f.body if isinstance(x, ast.For)]
    conts = [x for x in ast.walk(f.node) if isinstance(x, ast.Continue) and token_loops and innermost_loop(x) is token_loops[0]]
    for c in conts:
        ctx.bad("C14.4", f, c, "a `continue` in the per-token loop skips the shared checks that follow (single multi-axis rule, legality matrix) for some tokens")
    # variadic flag for `...`
    for s in ast.walk(f.node):
        if isinstance(s, ast.If) and norm(s.test) == "'...' in elem":
            sets = {norm(a.targets[0]): a.value.value for a in s.body if isinstance(a, ast.Assign) and isinstance(a.value, ast.Constant)}
            # the flags may be set through a record: `mods = _Mods(variadic=True, ...)` / a module constant bound to one
            for a in s.body:
                if isinstance(a, ast.Assign) and len(a.targets) == 1 and isinstance(a.targets[0], ast.Name):
                    v = a.value
                    if isinstance(v, ast.Name):
                        b_ = m.resolve_name(f, v.id)
                        if b_.kind == "modvar":
                            vals_ = b_.target[0].assigns.get(b_.target[1], [])
                            v = vals_[0] if len(vals_) == 1 else v
                    if isinstance(v, ast.Call) and v.keywords and all(isinstance(k.value, ast.Constant) for k in v.keywords) and not v.args:
                        for k in v.keywords:
                            sets.setdefault(k.arg, k.value.value)
            if "variadic" not in sets or "anonymous" not in sets:
                raise AnalysisError("C14.4: how the `...` token sets the variadic / anonymous flags was not recognised")
            if not (sets.get("variadic") is True and sets.get("anonymous") is True):
                ctx.bad("C14.4", f, s, "`...` is not treated as an anonymous multi-axis specifier (`*_`)")
            else:
                ctx.ok("C14.4", f.qualname, "`...` = variadic + anonymous, then the shared checks")


_RVE_CTX: dict = {}


def _raises_value_error(stmts) -> bool:
    """a `raise ValueError(..)` -- directly or through an error factory of the package (`raise _shape_error(..)`)"""
    from ._exc import raised_class

    m_, f_ = _RVE_CTX.get("m"), _RVE_CTX.get("f")
    for x in stmts:
        if isinstance(x, ast.Raise) and x.exc is not None:
            if isinstance(x.exc, ast.Call) and norm(x.exc.func) == "ValueError":
                return True
            if m_ is not None and raised_class(m_, f_, x.exc) == "ValueError":
                return True
    return False


# ------------------------------------------------------------------------ C14.5
def check_whitespace(ctx):
    m = ctx.model
    gi = m.func("_array_types._MetaAbstractDtype.__getitem__")
    f = m.func("_array_types._make_array_cached")
    strips = [x for x in walk_scope(gi.node) if isinstance(x, ast.Assign) and norm(x.value) == "dim_str.strip()" and norm(x.targets[0]) == "dim_str"]
    if not strips:
        ctx.bad("C14.5", gi, gi.node, "leading/trailing whitespace of the shape specification is no longer stripped", construct="dim_str = dim_str.strip()")
    else:
        ctx.ok("C14.5", gi.qualname, "dim_str = dim_str.strip()")
    splits = [x for x in ast.walk(f.node) if isinstance(x, ast.Call) and isinstance(x.func, ast.Attribute) and x.func.attr == "split" and norm(x.func.value) == "dim_str"]
    if not splits:
        raise AnalysisError("C14.5: split of the dim string not found")
    for sp in splits:
        if sp.args or sp.keywords:
            ctx.bad("C14.5", f, sp, f"the shape specification is split with `{norm(sp)}`: repeated whitespace produces empty axis tokens")
        else:
            ctx.ok("C14.5", f.qualname, "split() without arguments: repeated whitespace is insignificant")


# ------------------------------------------------------------------------ C14.2 (vii)
_STR_ARG_METHODS = {"rfind", "find", "index", "rindex", "count", "startswith", "endswith", "split", "rsplit", "replace", "partition", "rpartition", "join", "removeprefix", "removesuffix", "strip"}


def _str_only_uses(fn_node, name):
    """uses of `name` in fn_node that raise TypeError unless it is a string: an argument of a string method, len(), a subscript, `+` with a literal"""
    out = []
    for x in ast.walk(fn_node):
        if isinstance(x, ast.Call) and isinstance(x.func, ast.Attribute) and x.func.attr in _STR_ARG_METHODS and any(isinstance(a, ast.Name) and a.id == name for a in x.args):
            out.append(x)
        elif isinstance(x, ast.Call) and isinstance(x.func, ast.Name) and x.func.id == "len" and x.args and isinstance(x.args[0], ast.Name) and x.args[0].id == name:
            out.append(x)
        elif isinstance(x, ast.Subscript) and isinstance(x.value, ast.Name) and x.value.id == name and isinstance(x.ctx, ast.Load):
            out.append(x)
        elif isinstance(x, ast.BinOp) and isinstance(x.op, ast.Add):
            a, b = x.left, x.right
            if (isinstance(a, ast.Name) and a.id == name and isinstance(b, (ast.Constant, ast.JoinedStr))) or (isinstance(b, ast.Name) and b.id == name and isinstance(a, (ast.Constant, ast.JoinedStr))):
                out.append(x)
        elif isinstance(x, ast.Call) and isinstance(x.func, ast.Attribute) and isinstance(x.func.value, ast.Name) and x.func.value.id == name and x.func.attr in _STR_ARG_METHODS | {"isidentifier", "lower", "upper", "isdigit"}:
            out.append(x)
    return out


def _check_token_stays_a_string(ctx):
    """While a token of the dim string is processed its variable is re-bound: to `int(token)` for a fixed axis, to the dim object at the
    end.  From there on, a string operation on it (directly, or inside a helper it is handed to -- an error-message builder that
    underlines the token in the specification) raises TypeError: an *illegal* fixed axis such as `*4` then fails with TypeError instead
    of the ValueError the language promises."""
    m = ctx.model
    f = m.func("_array_types._make_array_cached")
    g = NoReturn(m).cfg(f)
    toks = set()
    for lp_ in [x for x in ast.walk(f.node) if isinstance(x, ast.For)]:
        it = lp_.iter
        if isinstance(it, ast.Call) and norm(it.func) == "enumerate" and it.args:
            it = it.args[0]
        if isinstance(it, ast.Call) and isinstance(it.func, ast.Attribute) and it.func.attr == "split":
            for x in ast.walk(lp_.target):
                if isinstance(x, ast.Name):
                    toks.add(x.id)
    toks = {t for t in toks if any(isinstance(a, ast.Assign) and any(isinstance(tg, ast.Name) and tg.id == t for tg in a.targets) and isinstance(a.value, ast.Call)
                                  and norm(a.value.func) == "int" for a in ast.walk(f.node))}
    if not toks:
        ctx.ok("C14.2", f.qualname, "no token variable is re-bound to its integer value")
        return
    NORMAL = ("n", "t", "f", "loop", "done", "ret", "brk", "cont", "caught")
    n_checked = 0
    for tok in sorted(toks):
        def kind_of(v):
            if isinstance(v, ast.Call) and norm(v.func) == "int":
                return "int"
            if isinstance(v, ast.Call) and isinstance(v.func, ast.Name) and v.func.id[:1] in "_ABCDEFGHIJKLMNOPQRSTUVWXYZ" and v.func.id not in ("str",):
                return "obj"
            return "str"

        def transfer(node, st, kind, succ):
            if node.kind == "for" and kind == "loop":
                return ("str",)  # a fresh token
            if node.kind == "stmt" and isinstance(node.ast, ast.Assign) and kind in NORMAL and any(isinstance(t, ast.Name) and t.id == tok for t in node.ast.targets):
                return (kind_of(node.ast.value),)
            return (st,)

        fl = Flow(g, "str", transfer)
        for node in g.live_nodes():
            if node.ast is None or node.kind not in ("stmt", "raise", "return", "test"):
                continue
            states = set(fl.states_at(node))
            if not (states - {"str"}):
                continue
            roots = [node.ast.test] if node.kind == "test" and hasattr(node.ast, "test") else [node.ast]
            if node.kind == "stmt" and isinstance(node.ast, ast.Assign) and any(isinstance(t, ast.Name) and t.id == tok for t in node.ast.targets):
                roots = [node.ast.value]
            for root in roots:
                n_checked += 1
                for u in _str_only_uses(root, tok):
                    ctx.bad("C14.2", f, u, f"`{short(u, 50)}` is a string operation on `{tok}` at a point where it may already hold {' / '.join(sorted(states - {'str'}))} "
                            "(the token was re-bound to its integer value / to the dim object): TypeError instead of ValueError for an illegal axis", construct=f"string operation on re-bound token: {short(u, 50)}")
                for c in [x for x in ast.walk(root) if isinstance(x, ast.Call)]:
                    t = m.resolve_call(f, c)
                    if t.kind != "func" or t.target.module.short.startswith("_typeguard"):
                        continue
                    ps = list(t.target.params)
                    for i, a in enumerate(c.args):
                        if isinstance(a, ast.Name) and a.id == tok and i < len(ps):
                            uses = _str_only_uses(t.target.node, ps[i])
                            if uses:
                                ctx.bad("C14.2", f, c, f"`{short(c, 60)}` hands `{tok}` to {t.target.name}, which applies `{short(uses[0], 40)}` to it, at a point where it may already hold "
                                        f"{' / '.join(sorted(states - {'str'}))}: an illegal fixed axis (`*4`, `_4`, `?4`) then fails with TypeError instead of ValueError",
                                        construct=f"re-bound token handed to a string operation in {t.target.name}")
    if not any(fd.rule == "C14.2" and "re-bound token" in (fd.construct or "") for fd in ctx.findings):
        ctx.ok("C14.2", f.qualname, f"no string operation reaches a token variable after it was re-bound ({n_checked} statements examined)")
