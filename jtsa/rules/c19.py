"""C19 -- disabling checks makes decorated code behave exactly like plain code.

Decided structurally:
  C19.1 guard: in the new-style wrapper one test dominates signature.bind, the push and
        the call of the checking implementation; its pass-through side is exactly
        `return fn(*args, **kwargs)`; as a truth table over its atoms
        {config.jaxtyping_disable, fn.__no_type_check__, wrapper.__no_type_check__} the
        pass-through is taken iff at least one is true; the config attribute is read
        inside the per-call wrapper (not captured at decoration time).
  C19.2 parser: the decision tree of _maybestr2bool evaluated over the abstract input
        classes {True, False, "0", "false" in any case, "1", "true" in any case, other
        string, non-bool non-str} equals the table in the property statement
        (bool -> itself; 0/false -> False; 1/true -> True; everything else ValueError).
  C19.3 wiring: JAXTYPING_DISABLE (default parses to False) -> update(key) -> the attribute
        the wrapper reads; keys in __init__ and update agree; unknown key -> ValueError.
Not decided: that a hooked module's decorators are the only instrumentation (C10).
"""
from __future__ import annotations

import ast
import copy
import itertools

from ..core import AnalysisError, RuleContext, need, norm, short
from ..model import FuncInfo, walk_scope
from ..roles import node_calls, roles_for
from ..typestate import NoReturn

EXPLANATION = __doc__


def run(ctx: RuleContext):
    r = roles_for(ctx.model)
    ctx.sub(check_guard, ctx, r)
    ctx.sub(check_parser, ctx)
    ctx.sub(check_wiring, ctx, r)


def new_style_wrappers(m, r) -> list:
    w = r.wrappers()
    impl_q = {f.qualname for f in w["impl"]}
    out = []
    for f in w["wraps"]:
        for c in m.calls_in(f):
            t = m.resolve_call(f, c)
            if t.kind == "func" and t.target.qualname in impl_q and t.target.name != "modify_annotation":
                out.append((f, t.target))
                break
            if t.kind == "func" and t.target.name == "__call__" and t.target.cls is not None and isinstance(c.func, ast.Name):
                v = closure_view(m, f, c.func.id, t.target)
                if v is not None:
                    out.append((f, v))
                    break
    return out


_VIEWS: dict = {}


def closure_view(m, user: FuncInfo, var: str, call_m: FuncInfo):
    """The checking implementation written as a callable object (`impl = _Impl(fn, param_fn, ...)`,
    `impl(args, kwargs, ...)`) seen as the closure it replaces: `self.X` in `__call__` becomes the
    name that was passed for X where the object was built.  Only when that reading is exact: every
    field is bound once, in `__init__`, to a parameter, never re-bound, and the object is built at one
    place from plain names.  Returns a FuncInfo (not registered in the model) or None."""
    key = (id(m), call_m.qualname, var)
    if key in _VIEWS:
        return _VIEWS[key]
    _VIEWS[key] = None
    cls = call_m.cls
    init = m.lookup_method(cls, "__init__")
    owner = user.parent if isinstance(user.parent, FuncInfo) else None
    if init is None or owner is None:
        return None
    sites = [n for n in walk_scope(owner.node) if isinstance(n, ast.Assign) and len(n.targets) == 1 and isinstance(n.targets[0], ast.Name)
             and n.targets[0].id == var]
    if len(sites) != 1 or not isinstance(sites[0].value, ast.Call):
        return None
    ctor = sites[0].value
    t = m.resolve_call(owner, ctor)
    if t.kind != "class" or t.target is not cls or any(k.arg is None for k in ctor.keywords) or any(isinstance(a, ast.Starred) for a in ctor.args):
        return None
    iparams = [a.arg for a in init.node.args.posonlyargs + init.node.args.args][1:]
    bound = {}
    for i, a in enumerate(ctor.args):
        if i < len(iparams):
            bound[iparams[i]] = a
    for k in ctor.keywords:
        bound[k.arg] = k.value
    if not all(isinstance(v, ast.Name) for v in bound.values()):
        return None
    me_i = init.params[0]
    fields = {}
    for st in init.body:
        if isinstance(st, ast.Expr) and isinstance(st.value, ast.Constant):
            continue
        if isinstance(st, ast.Assign) and len(st.targets) == 1 and isinstance(st.targets[0], ast.Attribute) and isinstance(st.targets[0].value, ast.Name) \
                and st.targets[0].value.id == me_i and isinstance(st.value, ast.Name) and st.value.id in bound and st.targets[0].attr not in fields:
            fields[st.targets[0].attr] = bound[st.value.id].id
        else:
            return None  # __init__ does more than storing its parameters
    # no other method re-binds a field
    for mth in cls.methods.values():
        if mth is init or not mth.params:
            continue
        for n in walk_scope(mth.node):
            if isinstance(n, ast.Attribute) and isinstance(n.ctx, (ast.Store, ast.Del)) and isinstance(n.value, ast.Name) and n.value.id == mth.params[0]:
                return None
    me = call_m.params[0]
    node = copy.deepcopy(call_m.node)

    class Rw(ast.NodeTransformer):
        ok = True

        def visit_Attribute(self, n):
            if isinstance(n.value, ast.Name) and n.value.id == me:
                if n.attr in fields and isinstance(n.ctx, ast.Load):
                    return ast.copy_location(ast.Name(id=fields[n.attr], ctx=ast.Load()), n)
                Rw.ok = False
                return n
            return self.generic_visit(n)

        def visit_Name(self, n):
            if n.id == me:
                Rw.ok = False  # the object itself escapes
            return n

    node = Rw().visit(node)
    if not Rw.ok:
        return None
    a = node.args
    if a.posonlyargs:
        a.posonlyargs = a.posonlyargs[1:]
    else:
        a.args = a.args[1:]
    # locals of __call__ must not shadow the names the fields stand for
    fi = FuncInfo(node, call_m.module, owner, call_m.qualname)
    if set(fields.values()) & (fi.local_names() | set(fi.params)):
        return None
    _VIEWS[key] = fi
    return fi


def is_passthrough_call(e, fname="fn") -> bool:
    return (isinstance(e, ast.Call) and isinstance(e.func, ast.Name) and e.func.id == fname
            and len(e.args) == 1 and isinstance(e.args[0], ast.Starred) and isinstance(e.args[0].value, ast.Name)
            and len(e.keywords) == 1 and e.keywords[0].arg is None and isinstance(e.keywords[0].value, ast.Name))


def _atoms_of(test):
    """Flatten a boolean skeleton; returns list of atom nodes."""
    out = []

    def rec(e):
        if isinstance(e, ast.BoolOp):
            for v in e.values:
                rec(v)
        elif isinstance(e, ast.UnaryOp) and isinstance(e.op, ast.Not):
            rec(e.operand)
        elif _is_bool_call(e):
            rec(e.args[0])  # `bool(x)` in a truth context is x
        else:
            out.append(e)

    rec(test)
    return out


def _is_bool_call(e) -> bool:
    return isinstance(e, ast.Call) and isinstance(e.func, ast.Name) and e.func.id == "bool" and len(e.args) == 1 and not e.keywords


def _eval(test, val):
    if _is_bool_call(test):
        return _eval(test.args[0], val)
    if isinstance(test, ast.BoolOp):
        vs = [_eval(v, val) for v in test.values]
        return all(vs) if isinstance(test.op, ast.And) else any(vs)
    if isinstance(test, ast.UnaryOp) and isinstance(test.op, ast.Not):
        return not _eval(test.operand, val)
    return val[norm(test)]


def check_guard(ctx, r):
    m = ctx.model
    ws = new_style_wrappers(m, r)
    ctx.counters["new_style_wrappers"] = len(ws)
    ctx.floor("C19.1", "new_style_wrappers", 1)
    # the old-style wrapper (`jaxtyped(typechecker=None)`, the form the import hook produces when it is installed with typechecker=None,
    # and `@jaxtyped @typechecker`): every other closure jaxtyped hands back that opens a binding context.  With checking switched off it
    # has to be as transparent as the new-style one: an open context ties manual isinstance checks in the body together and the handler
    # around the body annotates its exceptions (F13)
    seen = {w.qualname for w, _ in ws}
    old = []
    for f in r.wrappers()["wraps"]:
        if f.qualname in seen:
            continue
        for c in m.calls_in(f):
            t = m.resolve_call(f, c)
            if t.kind == "func" and t.target.qualname == r.push.qualname:
                old.append((f, None))
                break
    ctx.counters["old_style_wrappers"] = len(old)
    ctx.floor("C19.1", "old_style_wrappers", 1)
    check_no_decoration_time_switch(ctx, "C19.1")
    _check_wrapper_guards(ctx, r, ws + old)


def check_no_decoration_time_switch(ctx, tag="C19.1"):
    """The switches may only be consulted per call: any read in jaxtyped's own (decoration-time) scope freezes the
    decision for the lifetime of the decorated function (also composed into C07: a function decorated while the switch
    was on runs its body on ill-typed arguments for ever)."""
    m = ctx.model
    jt = m.func("_decorator.jaxtyped")
    for n in walk_scope(jt.node):
        frozen = None
        if isinstance(n, ast.Attribute) and isinstance(n.ctx, ast.Load) and n.attr == "jaxtyping_disable":
            frozen = "config.jaxtyping_disable"
        if isinstance(n, ast.Constant) and n.value == "__no_type_check__":
            frozen = "__no_type_check__"
        if isinstance(n, ast.Attribute) and isinstance(n.ctx, ast.Load) and n.attr == "__no_type_check__":
            frozen = "__no_type_check__"
        if frozen:
            ctx.bad(tag, jt, n, f"`{frozen}` is consulted when the function is decorated, not when it is called: what was decided then (skipping the typechecker, "
                    "capturing the flag) is not undone when the switch is toggled later, so switching back on does not restore checking",
                    construct=f"decoration-time read of {frozen}")
    else:
        ctx.ok(tag, jt.qualname, "neither switch is read in the decorator's own (decoration-time) scope")
    # ... nor when a hooked module is imported / a cell is instrumented: code that was compiled un-instrumented while the switch was
    # on stays un-instrumented (and is cached as such) when the switch is turned off again
    n_fn = 0
    for f in m.all_functions(include_typeguard=False):
        if f.module.short not in ("_import_hook", "_ipython_extension", "_pytest_plugin"):
            continue
        n_fn += 1
        for n in ast.walk(f.node):
            if isinstance(n, ast.Attribute) and isinstance(n.ctx, ast.Load) and n.attr == "jaxtyping_disable":
                ctx.bad(tag, f, n, "`config.jaxtyping_disable` is consulted when a hooked module is imported / instrumented, not when its functions are called: a module "
                        "imported while checking was off is never decorated (and its un-instrumented bytecode is cached under the hook's tag), so switching back on "
                        "does not restore checking", construct="import-time read of config.jaxtyping_disable")
    for ms in ("_import_hook", "_ipython_extension", "_pytest_plugin"):
        mod_ = m.modules.get(ms)
        if mod_ is None:
            continue
        for st in mod_.tree.body:
            if isinstance(st, (ast.FunctionDef, ast.AsyncFunctionDef, ast.ClassDef)):
                continue
            for n in ast.walk(st):
                if isinstance(n, ast.Attribute) and isinstance(n.ctx, ast.Load) and n.attr == "jaxtyping_disable":
                    ctx.bad(tag, (mod_.relpath, mod_.qualname), n, "`config.jaxtyping_disable` is read when the hook module itself is imported: the decision is frozen for the process",
                            construct="module-level read of config.jaxtyping_disable")
    ctx.counters["instrumentation_functions_scanned"] = n_fn
    ctx.floor(tag, "instrumentation_functions_scanned", 10)


def _check_wrapper_guards(ctx, r, ws):
    m = ctx.model
    jt = m.func("_decorator.jaxtyped")
    for w, impl in ws:
        ctx.saw(w)
        if isinstance(w.node, ast.AsyncFunctionDef) or any(isinstance(y_, (ast.Yield, ast.YieldFrom)) for y_ in walk_scope(w.node)):
            kind_ = "a coroutine function" if isinstance(w.node, ast.AsyncFunctionDef) else "a generator function"
            ctx.bad("C19.1", w, w.node, f"the wrapper `{w.name}` is {kind_}: nothing in it -- the disable guard included -- runs when the decorated function is *called*, only when the result "
                    "is first awaited / iterated; a call made while checking was switched off is type-checked if the switch is back on by then (and the other way round), unlike the plain "
                    "function", construct=f"disable guard deferred: wrapper is {kind_}")
            continue
        g = NoReturn(m).cfg(w)
        # nodes that do checking work
        work = []
        for n in g.live_nodes():
            for c in node_calls(n):
                t = m.resolve_call(w, c)
                if (t.kind == "func" and (t.target is impl or t.target.qualname == r.push.qualname)) or (
                        t.kind == "method" and t.name in ("bind", "bind_partial", "apply_defaults")):
                    work.append((n, c))
        need(work, f"{w.qualname}: no bind/push/check call found")
        # candidate guard tests: test nodes one of whose sides is the pass-through return
        guards = []
        for n in g.live_nodes():
            if n.kind != "test":
                continue
            for k, s in n.succ:
                if k in ("t", "f") and s.kind == "return" and is_passthrough_call(s.ast.value):
                    guards.append((n, k, s))
        if not guards:
            ctx.bad("C19.1", w, w.node, "the wrapper has no pass-through `return fn(*args, **kwargs)` guarded by the disable "
                    "switches: checking cannot be switched off", construct="no disable guard")
            continue
        tnode, side, pnode = guards[0]
        other = "f" if side == "t" else "t"
        # every work node must be unreachable once the non-pass-through edge is removed
        reach = set()
        stack = [g.entry]
        while stack:
            n = stack.pop()
            if n.id in reach:
                continue
            reach.add(n.id)
            for k, s in n.succ:
                if n is tnode and k == other:
                    continue
                stack.append(s)
        leaked = [(n, c) for n, c in work if n.id in reach]
        for n, c in leaked:
            ctx.bad("C19.1", w, n.ast, f"`{short(c, 60)}` can run without passing the disable guard: with checking switched off the "
                    "wrapper would still bind / push a context / type-check")
        if not leaked:
            ctx.ok("C19.1", w.qualname, f"the guard `{short(tnode.ast, 80)}` dominates {len(work)} bind/push/check calls")
        # pass-through side must do nothing else (the return is the direct successor)
        # truth table over the atoms
        atoms = _atoms_of(tnode.ast)
        kinds = {}
        for a in atoms:
            kinds[norm(a)] = _classify_atom(ctx, m, w, jt, a)
        for txt, (kind, detail) in kinds.items():
            if kind == "captured":
                ctx.bad("C19.1", w, tnode.ast, f"the switch `{txt}` is a value captured when the function was decorated ({detail}); "
                        "toggling config afterwards has no effect", construct=f"guard atom {txt} captured at decoration time")
        present = {k for k, _ in kinds.values()}
        names = list(kinds)
        mismatch = []
        for vals in itertools.product([False, True], repeat=len(names)):
            val = dict(zip(names, vals))
            taken = _eval(tnode.ast, val) == (side == "t")
            want = any(vals)
            if taken != want:
                mismatch.append(val)
        if mismatch:
            ctx.bad("C19.1", w, tnode.ast, "the pass-through is not taken exactly when at least one disable switch is on; "
                    f"first disagreeing valuation: {mismatch[0]}")
        else:
            ctx.ok("C19.1", w.qualname, f"truth table over {len(names)} atoms ({2 ** len(names)} valuations): pass-through iff any switch is on")
        for req, what in (("config", "config.jaxtyping_disable"), ("fn_ntc", "fn.__no_type_check__ (no_type_check below the decorator)"),
                          ("wrapper_ntc", "the wrapper's own __no_type_check__ (no_type_check above the decorator)")):
            if req not in present and "captured" not in present:
                ctx.bad("C19.1", w, tnode.ast, f"the disable guard does not consult {what}", construct=f"guard lacks atom {req}")
            elif req in present:
                ctx.ok("C19.1", w.qualname, f"guard consults {what} on every call")


def _classify_atom(ctx, m, w: FuncInfo, jt: FuncInfo, a):
    # config.jaxtyping_disable
    if isinstance(a, ast.Attribute) and isinstance(a.value, ast.Name):
        b = m.resolve_name(w, a.value.id)
        if b.kind == "modvar" and b.target[0].short == "_config" and a.attr == "jaxtyping_disable":
            return ("config", "")
    if isinstance(a, ast.Call) and isinstance(a.func, ast.Name) and a.func.id == "getattr" and len(a.args) == 3:
        obj, name, default = a.args
        if isinstance(name, ast.Constant) and name.value == "__no_type_check__" and isinstance(default, ast.Constant) and default.value is False:
            if isinstance(obj, ast.Name) and obj.id == "fn":
                return ("fn_ntc", "")
            return ("wrapper_ntc", norm(obj))
    if isinstance(a, ast.Name):
        b = m.resolve_name(w, a.id)
        if b.kind == "freevar":
            # captured at decoration time?
            for st in walk_scope(jt.node):
                if isinstance(st, ast.Assign) and any(isinstance(t, ast.Name) and t.id == a.id for t in st.targets):
                    if any(isinstance(x, ast.Attribute) and x.attr == "jaxtyping_disable" for x in ast.walk(st.value)):
                        return ("captured", f"`{short(st, 60)}` in jaxtyped")
    raise AnalysisError(f"C19.1: unrecognised atom `{norm(a)}` in the disable guard of {w.qualname}")


# ------------------------------------------------------------------------ C19.2
CLASSES = [
    ("True", {"type": "bool", "value": True}),
    ("False", {"type": "bool", "value": False}),
    ('"0"', {"type": "str", "lower": "0", "mixed": False}),
    ('"false" (any case)', {"type": "str", "lower": "false", "mixed": True}),
    ('"1"', {"type": "str", "lower": "1", "mixed": False}),
    ('"true" (any case)', {"type": "str", "lower": "true", "mixed": True}),
    ("other string", {"type": "str", "lower": "<other>", "mixed": True}),
    ("non-bool non-str (int, None, ...)", {"type": "other"}),
    ("the number 1 (int / float, not a bool)", {"type": "num", "value": 1}),
    ("the number 0 (int / float, not a bool)", {"type": "num", "value": 0}),
]
EXPECT = ["return:param", "return:param", "return:False", "return:False", "return:True", "return:True", "raise:ValueError", "raise:ValueError", "raise:ValueError", "raise:ValueError"]


_CONST_TABLES: dict = {}  # name -> (elements / keys, {key: value} or None): module-level constant containers of the parser's module


def _load_const_tables(mod):
    _CONST_TABLES.clear()
    for name, vals in mod.assigns.items():
        if len(vals) != 1 or vals[0] is None:
            continue
        v = vals[0]
        if isinstance(v, ast.Call) and norm(v.func) in ("frozenset", "set", "tuple", "dict") and len(v.args) == 1:
            v = v.args[0]
        if isinstance(v, (ast.Tuple, ast.List, ast.Set)) and v.elts and all(isinstance(x, ast.Constant) for x in v.elts):
            _CONST_TABLES[name] = ([x.value for x in v.elts], None)
        elif isinstance(v, ast.Dict) and v.keys and all(isinstance(k, ast.Constant) for k in v.keys) and all(isinstance(x, ast.Constant) for x in v.values):
            _CONST_TABLES[name] = ([k.value for k in v.keys], {k.value: x.value for k, x in zip(v.keys, v.values)})


def _atom_truth(e, cls, pname):
    """Truth of one recognised atom for an abstract input class; None if unrecognised."""
    if isinstance(e, ast.Call) and isinstance(e.func, ast.Name) and e.func.id == "isinstance" and len(e.args) == 2 \
            and isinstance(e.args[0], ast.Name) and e.args[0].id == pname:
        t = e.args[1]
        names = [x.id for x in (t.elts if isinstance(t, ast.Tuple) else [t]) if isinstance(x, ast.Name)]
        res = False
        for nm in names:
            if nm == "bool":
                res = res or cls["type"] == "bool"
            elif nm == "str":
                res = res or cls["type"] == "str"
            elif nm == "int":
                res = res or cls["type"] in ("bool", "num")  # bool is an int
            else:
                return None
        return res
    if isinstance(e, ast.Compare) and len(e.ops) == 1 and isinstance(e.ops[0], (ast.In, ast.NotIn, ast.Eq, ast.NotEq)):
        left, right = e.left, e.comparators[0]
        lowered = None
        if isinstance(left, ast.Call) and isinstance(left.func, ast.Attribute) and left.func.attr in ("lower", "casefold") \
                and isinstance(left.func.value, ast.Name) and left.func.value.id == pname and not left.args:
            lowered = True
        elif isinstance(left, ast.Name) and left.id == pname:
            lowered = False
        if lowered is None:
            return None
        if isinstance(right, (ast.Tuple, ast.List, ast.Set)):
            consts = [c.value for c in right.elts if isinstance(c, ast.Constant)]
            if len(consts) != len(right.elts):
                return None
        elif isinstance(right, ast.Constant):
            consts = [right.value]
        elif isinstance(right, ast.Name) and right.id in _CONST_TABLES:
            consts = list(_CONST_TABLES[right.id][0])  # a module-level table of the accepted spellings
        else:
            return None
        if cls["type"] != "str":
            # `.lower()` on a non-str raises; plain `in` on non-str: compare by equality
            if lowered:
                return "raise:AttributeError"
            if cls["type"] in ("bool", "num"):
                # Python compares numbers by value: `1 in (True, False)`, `1.0 == True`
                res = any(type(c) in (bool, int, float) and c == cls["value"] for c in consts)
            else:
                res = False
        else:
            if lowered:
                res = cls["lower"] in consts
            else:
                # case-sensitive comparison: an any-case class matches only if every spelling is listed
                if cls["mixed"]:
                    res = False if cls["lower"] != "<other>" else False
                    if cls["lower"] != "<other>" and all(v in consts for v in (cls["lower"], cls["lower"].upper(), cls["lower"].capitalize())):
                        res = "partial"  # still not all spellings (e.g. 'tRuE')
                        res = False
                else:
                    res = cls["lower"] in consts
        if isinstance(e.ops[0], (ast.NotIn, ast.NotEq)):
            res = not res
        return res
    return None


def _walk_tree(stmts, cls, pname, f):
    """Outcome of executing a loop-free statement list for an abstract input class."""
    for st in stmts:
        if isinstance(st, ast.If):
            v = _eval_test(st.test, cls, pname)
            if isinstance(v, str):
                return v
            out = _walk_tree(st.body if v else st.orelse, cls, pname, f)
            if out is not None:
                return out
        elif isinstance(st, ast.Return):
            v = st.value
            if isinstance(v, ast.Name) and v.id == pname:
                return "return:param"
            if isinstance(v, ast.Constant):
                return f"return:{v.value!r}"
            if isinstance(v, ast.Call) and isinstance(v.func, ast.Name) and v.func.id == "bool" and len(v.args) == 1 \
                    and isinstance(v.args[0], ast.Name) and v.args[0].id == pname and cls["type"] == "bool":
                return "return:param"
            if isinstance(v, ast.Subscript) and isinstance(v.value, ast.Name) and v.value.id in _CONST_TABLES and _CONST_TABLES[v.value.id][1] is not None and cls["type"] == "str":
                # `return _TABLE[value]` / `_TABLE[value.lower()]`
                k = v.slice
                lowered = isinstance(k, ast.Call) and isinstance(k.func, ast.Attribute) and k.func.attr in ("lower", "casefold") and norm(k.func.value) == pname
                if (lowered or (isinstance(k, ast.Name) and k.id == pname and not cls["mixed"])) and cls["lower"] in _CONST_TABLES[v.value.id][1]:
                    return f"return:{_CONST_TABLES[v.value.id][1][cls['lower']]!r}"
                if not lowered and isinstance(k, ast.Name) and k.id == pname and cls["mixed"]:
                    return "raise:KeyError"  # an any-case spelling looked up case-sensitively
            return f"return:{norm(v)}"  # some computed value: compared textually with the expectation
        elif isinstance(st, ast.Raise):
            x = st.exc
            nm = x.func.id if isinstance(x, ast.Call) and isinstance(x.func, ast.Name) else (x.id if isinstance(x, ast.Name) else "?")
            return f"raise:{nm}"
        elif isinstance(st, (ast.Expr, ast.Pass)) and (isinstance(st, ast.Pass) or isinstance(st.value, ast.Constant)):
            continue
        elif isinstance(st, ast.Assign) and len(st.targets) == 1 and isinstance(st.targets[0], ast.Name) and (st.targets[0].id != pname or cls["type"] == "str") \
                and isinstance(st.value, ast.Call) and isinstance(st.value.func, ast.Attribute) and st.value.func.attr in ("lower", "casefold") \
                and isinstance(st.value.func.value, ast.Name) and st.value.func.value.id == pname and not st.value.args and not st.value.keywords:
            # `lowered = value.lower()`: evaluated here (a non-string has no such method), then read through the name
            if cls["type"] != "str":
                return "raise:AttributeError"
            tmp, val = st.targets[0].id, st.value
            rest = stmts[stmts.index(st) + 1:]
            if any(isinstance(x, ast.Name) and x.id == tmp and isinstance(x.ctx, ast.Store) for r_ in rest for x in ast.walk(r_)):
                raise AnalysisError(f"C19.2: `{tmp}` is re-bound after `{short(st, 50)}` in {f.qualname}")

            class _Sub(ast.NodeTransformer):
                def visit_Name(self, n):
                    return copy.deepcopy(val) if n.id == tmp and isinstance(n.ctx, ast.Load) else n

            return _walk_tree([_Sub().visit(copy.deepcopy(r_)) for r_ in rest], cls, pname, f)
        else:
            raise AnalysisError(f"C19.2: unsupported statement `{short(st, 60)}` in {f.qualname} (decision tree expected)")
    return None


def _eval_test(t, cls, pname):
    if isinstance(t, ast.BoolOp):
        res = None
        for v in t.values:
            x = _eval_test(v, cls, pname)
            if isinstance(x, str):
                return x
            if isinstance(t.op, ast.And) and not x:
                return False
            if isinstance(t.op, ast.Or) and x:
                return True
        return isinstance(t.op, ast.And)
    if isinstance(t, ast.UnaryOp) and isinstance(t.op, ast.Not):
        x = _eval_test(t.operand, cls, pname)
        return x if isinstance(x, str) else (not x)
    v = _atom_truth(t, cls, pname)
    if v is None:
        raise AnalysisError(f"C19.2: unrecognised atom `{norm(t)}` in the switch parser")
    return v


def find_parser(m):
    """The switch parser: the function whose result config.update stores into
    `jaxtyping_disable` (pinned name `_maybestr2bool`; found by this use after a move/rename)."""
    cls = m.cls("_config._JaxtypingConfig")
    upd = need(cls.methods.get("update"), "_JaxtypingConfig.update not found")
    named = [f for f in m.all_functions(include_typeguard=False) if f.module.short == "_config" and f.name == "_maybestr2bool"]
    if len(named) == 1:
        return named[0]
    found = []
    for n in walk_scope(upd.node):
        if isinstance(n, ast.Assign) and isinstance(n.value, ast.Call) and any(
                isinstance(t, ast.Attribute) and t.attr == "jaxtyping_disable" for t in n.targets):
            t = m.resolve_call(upd, n.value)
            if t.kind == "func":
                found.append(t.target)
    need(len({id(x) for x in found}) == 1, "config.update: the function that parses the value stored into `jaxtyping_disable` was not found")
    return found[0]


def check_parser(ctx):
    m = ctx.model
    f = find_parser(m)
    ctx.saw(f)
    pname = f.params[0]
    _load_const_tables(f.module)
    n = 0
    for (label, cls), want in zip(CLASSES, EXPECT):
        got = _walk_tree(f.body, cls, pname, f)
        n += 1
        if got is None:
            got = "return:None"
        if got != want:
            ctx.bad("C19.2", f, f.node, f"for the input class {label} the switch parser gives `{got}`, the statement demands `{want}`",
                    construct=f"{label} -> {got}")
        else:
            ctx.ok("C19.2", f.qualname, f"{label} -> {got}")
    ctx.counters["parser_rows"] = n


# ------------------------------------------------------------------------ C19.3
def check_wiring(ctx, r):
    m = ctx.model
    cfgmod = m.module("_config")
    cls = m.cls("_config._JaxtypingConfig")
    lazy = cls.methods.get("__getattr__") or cls.methods.get("__getattribute__")
    if lazy is not None:
        # settings loaded on first read: reading one setting must not (re)load the switch -- an explicit
        # `config.update("jaxtyping_disable", False)` made before that first read would be silently undone
        from ..core import region

        ctx.saw(lazy)
        item_p = lazy.params[1] if len(lazy.params) > 1 else None
        for h_ in region(m, lazy, depth=3):
            for c in m.calls_in(h_):
                if isinstance(c.func, ast.Attribute) and c.func.attr == "update" and c.args and isinstance(c.func.value, ast.Name) and c.func.value.id == h_.params[0]:
                    k = c.args[0]
                    loops = [lp for lp in ast.walk(h_.node) if isinstance(lp, ast.For) and any(y is c for b_ in lp.body for y in ast.walk(b_))
                             and isinstance(k, ast.Name) and any(isinstance(x, ast.Name) and x.id == k.id for x in ast.walk(lp.target))]
                    if loops or (isinstance(k, ast.Constant) and k.value == "jaxtyping_disable" and h_ is not lazy):
                        ctx.bad("C19.3", h_, c, f"reading a setting that is not set yet (`{lazy.name}`) runs `{short(c, 50)}` for "
                                + ("every setting" if loops else "jaxtyping_disable") + ": jaxtyping_disable is re-initialised from the environment, so an earlier "
                                "config.update('jaxtyping_disable', ...) is silently undone the first time any other setting is read (e.g. while an error message is built)",
                                construct=f"{lazy.name}: reloads jaxtyping_disable from the environment")
                    elif not (isinstance(k, ast.Name) and k.id == item_p):
                        raise AnalysisError(f"C19.3: `{short(c, 50)}` inside {lazy.name}: which setting is (re)loaded is not interpreted")
    # the switches are process-wide: `config.update(...)` made on one thread governs calls made on every thread (a worker pool, a
    # data loader).  A per-thread / per-context store (threading.local base, ContextVar fields) would make the toggle invisible there.
    for b_ in cls.node.bases:
        bt = norm(b_)
        if bt.split(".")[-1] in ("local", "_local") or "threading" in bt:
            ctx.bad("C19.4", (cfgmod.relpath, cfgmod.qualname), cls.node, f"the config object is a `{bt}`: config.update('jaxtyping_disable', ...) only affects the thread that "
                    "called it; a decorated function called on another thread (thread pool, data loader) keeps checking / keeps not checking",
                    construct="_JaxtypingConfig derives from threading.local")
        elif bt != "object":
            raise AnalysisError(f"C19.4: _JaxtypingConfig derives from `{bt}`; whether its attributes are process-wide is not known")
    ctxvars = [n_ for n_ in ast.walk(cfgmod.tree) if isinstance(n_, ast.Call) and norm(n_.func).split(".")[-1] in ("ContextVar", "local")]
    if ctxvars:
        ctx.bad("C19.4", (cfgmod.relpath, cfgmod.qualname), ctxvars[0], f"the switches are kept in `{short(ctxvars[0], 50)}`: a toggle is only visible in the thread / context that made it",
                construct="per-thread / per-context switch storage")
    elif not any(fd.rule == "C19.4" for fd in ctx.findings):
        ctx.ok("C19.4", cls.qualname, "the switches are plain attributes of one module-level object: a toggle is visible to every thread")
    # only the config object's own methods write the switch: code elsewhere that flips it temporarily (save, set, restore in a `finally`)
    # overwrites a `config.update("jaxtyping_disable", ..)` made meanwhile on another thread with the stale value it saved
    writers = []
    for f2 in m.all_functions(include_typeguard=False):
        if f2.module.short == "_config":
            continue
        for x in ast.walk(f2.node):
            if isinstance(x, ast.Attribute) and x.attr == "jaxtyping_disable" and isinstance(x.ctx, (ast.Store, ast.Del)):
                writers.append((f2, x))
            if isinstance(x, ast.Call) and isinstance(x.func, ast.Name) and x.func.id == "setattr" and len(x.args) >= 2 and isinstance(x.args[1], ast.Constant) and x.args[1].value == "jaxtyping_disable":
                writers.append((f2, x))
            if isinstance(x, ast.Call) and isinstance(x.func, ast.Attribute) and x.func.attr == "update" and x.args and isinstance(x.args[0], ast.Constant) and x.args[0].value == "jaxtyping_disable" \
                    and isinstance(x.func.value, ast.Name) and m.resolve_name(f2, x.func.value.id).kind == "modvar":
                writers.append((f2, x))
    for f2, x in writers:
        ctx.bad("C19.3", f2, x, f"`{short(x, 50)}` in {f2.qualname} writes the disable switch from inside the package: a value set by the user with config.update meanwhile (another thread) "
                "is overwritten when this code restores what it saved, so the switch the user set does not take effect", construct=f"switch written outside the config object in {f2.name}")
    if not writers:
        ctx.ok("C19.3", cls.qualname, "nothing outside the config module writes jaxtyping_disable")
    init = need(cls.methods.get("__init__"), "_JaxtypingConfig.__init__ not found")
    upd = need(cls.methods.get("update"), "_JaxtypingConfig.update not found")
    ctx.saw(init)
    ctx.saw(upd)
    # config singleton
    vals = cfgmod.assigns.get("config", [])
    if not (len(vals) == 1 and isinstance(vals[0], ast.Call) and isinstance(vals[0].func, ast.Name) and vals[0].func.id == cls.name):
        raise AnalysisError("_config.config is not a single _JaxtypingConfig() instance")
    # update(): simulated for the key classes 'jaxtyping_disable' / an unknown key -- however the
    # dispatch is spelled (if/elif chain, guard clauses with return, match on a lowered copy ...)
    from ..absim import eval_bool, simulate
    from ..typestate import NoReturn

    g = NoReturn(m).cfg(upd)
    p_self, p_item, p_value = upd.params[0], upd.params[1], upd.params[2]
    lowered_seen = {"v": False}
    parser_fn = find_parser(m)

    def stop(n):
        return n.kind in ("return", "raise", "exit", "exit_e", "exit_b", "falloff")

    def event_of(n):
        a_ = n.ast
        if n.kind == "stmt" and isinstance(a_, ast.Assign):
            for tg in a_.targets:
                if isinstance(tg, ast.Attribute) and isinstance(tg.value, ast.Name) and tg.value.id == p_self:
                    v = a_.value
                    t = m.resolve_call(upd, v) if isinstance(v, ast.Call) else None
                    parser = t is not None and t.kind == "func" and t.target is parser_fn
                    uses_value = isinstance(v, ast.Call) and v.args and isinstance(v.args[0], ast.Name) and v.args[0].id == p_value
                    return f"store:{tg.attr}:{'parsed' if parser and uses_value else 'other'}"
        return None

    def run_for(key):
        def atom(e):
            if isinstance(e, ast.Compare) and len(e.ops) == 1 and isinstance(e.ops[0], (ast.Eq, ast.NotEq)) and isinstance(e.comparators[0], ast.Constant):
                left = e.left
                if isinstance(left, ast.Name) and left.id != p_item:
                    # `key = item.lower()` bound once before the tests
                    from . import c05 as _c05

                    ds_ = _c05._assignments_to(upd, left.id)
                    if len(ds_) == 1 and ds_[0][2] is None and ds_[0][1] is not None:
                        left = ds_[0][1]
                lowered = isinstance(left, ast.Call) and isinstance(left.func, ast.Attribute) and left.func.attr == "lower" and norm(left.func.value) == p_item
                if lowered or norm(left) == p_item:
                    if lowered:
                        lowered_seen["v"] = True
                    v = e.comparators[0].value == key
                    return v if isinstance(e.ops[0], ast.Eq) else not v
            raise AnalysisError(f"C19.3: unrecognised key test `{norm(e)}` in config.update")
        return simulate(g, g.entry, stop, lambda n: eval_bool(n.ast, atom), None, event_of)

    outs_unknown = run_for("<some other key>")
    bad_unknown = [o for o in outs_unknown if not (o.end.kind == "raise" and "ValueError" in norm(o.end.ast))]
    if bad_unknown:
        ctx.bad("C19.3", upd, bad_unknown[0].end.ast if bad_unknown[0].end.ast is not None else upd.node, "an unknown config key is not rejected with ValueError")
    else:
        ctx.ok("C19.3", upd.qualname, "unknown key -> ValueError")
    outs = run_for("jaxtyping_disable")
    lowered = lowered_seen["v"]
    good = [o for o in outs if "store:jaxtyping_disable:parsed" in o.events and o.end.kind != "raise"]
    if not outs or len(good) != len(outs):
        o = next((o for o in outs if o not in good), None)
        where = o.end.ast if o is not None and o.end.ast is not None else upd.node
        ctx.bad("C19.3", upd, where, "config.update('jaxtyping_disable', v) does not store _maybestr2bool(v) in the attribute the wrapper reads "
                "(`jaxtyping_disable`)")
    else:
        ctx.ok("C19.3", upd.qualname, "update('jaxtyping_disable', v) -> self.jaxtyping_disable = <switch parser>(v, ..)")
    # the other keys that update() knows must leave the switch alone (`update('jaxtyping_remove_typechecker_stack', v)`
    # storing into jaxtyping_disable would switch checking off as a side effect of an unrelated setting)
    other_keys = sorted({c.comparators[0].value for c in ast.walk(upd.node)
                         if isinstance(c, ast.Compare) and len(c.ops) == 1 and isinstance(c.ops[0], (ast.Eq, ast.NotEq)) and isinstance(c.comparators[0], ast.Constant)
                         and isinstance(c.comparators[0].value, str) and c.comparators[0].value != "jaxtyping_disable"})
    for k_ in other_keys:
        for o in run_for(k_):
            if any(ev.startswith("store:jaxtyping_disable:") for ev in o.events):
                ctx.bad("C19.3", upd, o.end.ast if o.end.ast is not None else upd.node,
                        f"config.update('{k_}', v) stores into jaxtyping_disable: an unrelated setting switches checking on/off",
                        construct=f"update('{k_}') writes jaxtyping_disable")
                break
        else:
            ctx.ok("C19.3", upd.qualname, f"update('{k_}', v) does not touch jaxtyping_disable")
    # __init__: update("jaxtyping_disable", os.environ.get("JAXTYPING_DISABLE", <default>))
    found = False
    for c in ast.walk(init.node):
        if isinstance(c, ast.Call) and isinstance(c.func, ast.Attribute) and c.func.attr == "update" and len(c.args) == 2:
            k, v = c.args
            if isinstance(k, ast.Constant) and isinstance(k.value, str) and k.value.lower() == "jaxtyping_disable":
                found = True
                if not lowered and k.value != "jaxtyping_disable":
                    ctx.bad("C19.3", init, c, "key spelling in __init__ does not match the branch in update")
                # (a value normalised at the boundary -- `os.environ.get(..).lower()` / `.strip()` -- is still the
                # environment's value; whether every spelling is understood is the parser's clause, C19.2)
                while isinstance(v, ast.Call) and isinstance(v.func, ast.Attribute) and v.func.attr in ("lower", "strip", "casefold") and not v.args:
                    v = v.func.value
                ok_env = (isinstance(v, ast.Call) and norm(v.func) in ("os.environ.get", "os.getenv") and v.args
                          and isinstance(v.args[0], ast.Constant) and v.args[0].value == "JAXTYPING_DISABLE")
                if not ok_env:
                    ctx.bad("C19.3", init, c, "the initial value of jaxtyping_disable is not read from the JAXTYPING_DISABLE environment variable")
                else:
                    d = v.args[1] if len(v.args) > 1 else None
                    if not (isinstance(d, ast.Constant) and (d.value is False or (isinstance(d.value, str) and d.value.lower() in ("0", "false")))):
                        ctx.bad("C19.3", init, c, f"the default for JAXTYPING_DISABLE (`{norm(d)}`) does not parse to False: checking would be off (or fail) by default")
                    else:
                        ctx.ok("C19.3", init.qualname, f"JAXTYPING_DISABLE (default {norm(d)}) -> update('jaxtyping_disable', ..)")
    if not found:
        ctx.bad("C19.3", init, init.node, "JAXTYPING_DISABLE is not wired to config.jaxtyping_disable at start-up", construct="no update('jaxtyping_disable', env)")
    # the wrapper's `config` is this singleton
    for w, impl in new_style_wrappers(m, r):
        for n in ast.walk(w.node):
            if isinstance(n, ast.Attribute) and n.attr == "jaxtyping_disable" and isinstance(n.value, ast.Name):
                bnd = m.resolve_name(w, n.value.id)
                if bnd.kind == "modvar" and bnd.target[0].short == "_config" and bnd.target[1] == "config":
                    ctx.ok("C19.3", w.qualname, "the wrapper reads jaxtyping_disable from the _config.config singleton")
                else:
                    ctx.bad("C19.3", w, n, "the wrapper reads jaxtyping_disable from something other than the config singleton")
