"""C13 -- type-check errors are raised iff violated and describe the failure truthfully.

Decided structurally:
  C13.1 freshness of the reported bindings: the argument of every shape_str(...) on an error
        path denotes the *live* top of the context stack: either get_shape_memo() evaluated
        at that point, or the tuple returned by push_shape_memo **and** no function rebinds
        the stack top to new containers in between (set_shape_memo must restore in place,
        and push must return the very tuple it appended).
  C13.2 AnnotationError passes untouched: each try whose body runs the parameter / return
        check has an `except AnnotationError: raise` handler before any handler that
        would catch it.
  C13.3 stage wiring: the handler of the parameter check builds a message about the
        parameters, the handler of the return check one about the return value; both raise
        TypeCheckError and name the function (module + qualname holes).
  C13.4 cause polarity: `from None` on the true side of
        config.jaxtyping_remove_typechecker_stack, `from <exception>` on the false side.
  C13.5 blame in the same context: _get_problem_arg and its callees never push/pop/replace
        the context and never go through `jaxtyped`.
  C13.6 misuse surfaces as AnnotationError: every eval() of a symbolic axis lies in a try whose
        NameError handler raises AnnotationError (a bare NameError would be reported by the
        decorator as an ordinary TypeCheckError).
  C13.10 the blame helper stops probing at the first parameter whose single-parameter re-check fails: the
        re-checks run in the live memo of the failing call, so a probe of a *later* parameter binds axes that were
        not in force when the failure was detected (they would be listed as current values) and may fail for a
        reason of its own (an AnnotationError of a symbolic axis would be absorbed into the TypeCheckError).  Every
        handler of the probe leaves the loop on all of its paths.
  C13.11 a check that fails leaves no binding behind (rollback typestate of the array and the PyTree check site, complete
        restore): otherwise a later error message lists, as current values, bindings taken from a check that failed.
Not decided: that the blamed parameter is the right one (value level).
"""
from __future__ import annotations

import ast

from ..callgraph import CallGraph
from ..cfg import ExcHierarchy
from ..core import AnalysisError, RuleContext, need, norm, short
from ..model import FuncInfo, walk_scope, walk_with_lambdas
from ..roles import roles_for
from . import c05
from .c07 import checker_vars
from .c19 import new_style_wrappers

EXPLANATION = __doc__


def run(ctx: RuleContext):
    m = ctx.model
    r = roles_for(m)
    cg = CallGraph(m)
    ctx.sub(check_freshness, ctx, r, cg)
    ctx.sub(check_annotationerror_passthrough, ctx, r)
    ctx.sub(check_stage_wiring, ctx, r)
    ctx.sub(check_cause_polarity, ctx, r)
    ctx.sub(check_blame_context, ctx, r, cg)
    ctx.sub(check_blame_stops_at_first_failure, ctx, r)
    # C13.11: 'none taken from the check that failed': a check that does not pass (the first alternative of a Union, a PyTree
    # whose later leaf fails) leaves no binding behind, or a later failure would list it as a current value -- the rollback
    # typestate of both check sites (C04.1/C04.2) and a complete restore (C04.4)
    from .c12 import check_failed_checks_leave_nothing

    ctx.reuse("C13.11", check_failed_checks_leave_nothing, ctx, r)
    from .c01 import check_eval_discipline

    ctx.sub(check_eval_discipline, ctx, "C13.6")
    ctx.sub(check_bindings_listed_separately, ctx)
    # C13.9: the parameter that is blamed is found with checkers built from *this* function's signature, not taken
    # from a table keyed by a rendering of it that another function can share
    from ._memo import check_no_lossy_memo

    ctx.sub(check_no_lossy_memo, ctx, "C13.9", r, cg, what="the blamed parameter / the message")
    # C13.7: the '?' leaf label never outlives the leaf check that set it (also when that check raises):
    # a stale label makes a later misuse of '?' pass silently or be reported with bindings of a leaf
    # that is not being checked (flag typestate of C16.1, label flag only)
    from ._flags import run_flag_typestate

    ctx.reuse("C13.7", run_flag_typestate, ctx, "C13.7", only_attr_of=lambda fl: bool(fl.guarded_setters or fl.raising_getters), cg=cg)
    # ... and the flatten-mode flag never outlives the flatten that set it: while it is set every array check
    # answers "fine" without looking at dtype or shape, so a leaked flag turns every later violated annotation
    # of the thread into an accepted call (flag typestate of C08.7)
    ctx.reuse("C13.7", run_flag_typestate, ctx, "C13.7", only_attr_of=lambda fl: not fl.guarded_setters and not fl.raising_getters, cg=cg)
    # C13.12: "an AnnotationError only for misuse of the annotation language": a `{name}` axis that names a parameter the call left at its
    # default (or an absent *args / **kwargs) is not misuse -- the argument table must have the defaults applied (C02.9)
    from .c02 import check_defaults_applied

    ctx.reuse("C13.12", check_defaults_applied, ctx, roles_for(ctx.model), "C13.12")
    # C13.13: "says whether the parameters or the return value failed / names a parameter that really violates": the parameter check and the
    # per-parameter blame checkers are built from the final full signature (C02.3)
    from .c02 import check_signatures_and_dataclass

    ctx.reuse("C13.13", check_signatures_and_dataclass, ctx, roles_for(ctx.model))


# ------------------------------------------------------------------------ C13.1
def set_memo_shape(ctx, r) -> str:
    """'replace' (stack top rebound to a new tuple) or 'inplace'."""
    f = c05.follow_delegate(ctx.model, r.set)
    al = r.local_aliases(f)
    for n in walk_scope(f.node):
        if isinstance(n, ast.Assign):
            for t in n.targets:
                if isinstance(t, ast.Subscript) and r.tl_of_expr(f, t.value, al) is not None:
                    return "replace"
    for n in walk_scope(f.node):
        if isinstance(n, ast.Call) and isinstance(n.func, ast.Attribute) and n.func.attr in ("update", "clear"):
            return "inplace"
        if isinstance(n, ast.For) and any((isinstance(x, ast.Subscript) and r.tl_of_expr(f, x.value, al) is not None)
                                          or (isinstance(x, (ast.Name, ast.Call)) and c05.is_top_expr(r, f, x, al)) for x in ast.walk(n.iter)):
            return "inplace"  # some other in-place scheme; its correctness is judged by the restore rule
    raise AnalysisError("set_shape_memo: neither a replacement of the stack top nor an in-place restore recognised")


def push_returns_appended(r) -> bool:
    """True: every return of the push primitive is the very name that was appended; False: some
    return positively is something else (nothing, a display, a copy); otherwise no verdict."""
    f = c05.follow_delegate(r.m, r.push)
    _, _, appended = c05.locate_stack(r)
    a = appended.args[0] if appended.args else None
    rets = [x for x in walk_scope(f.node) if isinstance(x, ast.Return)]
    if bool(rets) and isinstance(a, ast.Name) and all(isinstance(x.value, ast.Name) and x.value.id == a.id for x in rets) \
            and len(c05._assignments_to(f, a.id)) == 1:
        return True
    def constructs_new(v):
        if v is None or isinstance(v, (ast.Constant, ast.Tuple, ast.Dict, ast.List, ast.Set, ast.ListComp, ast.DictComp, ast.SetComp, ast.GeneratorExp)):
            return True
        if isinstance(v, ast.Call):
            if isinstance(v.func, ast.Attribute) and v.func.attr in ("copy", "deepcopy"):
                return True
            if isinstance(v.func, ast.Name) and v.func.id in ("tuple", "list", "dict", "set", "frozenset"):
                return True
        return False

    if not rets or any(constructs_new(x.value) for x in rets):
        return False
    raise AnalysisError(f"{f.qualname}: cannot tell whether the value returned is the tuple that was put on the stack")


def _push_derived(m, r, cg, f: FuncInfo, name: str, depth=0) -> bool:
    if depth > 4:
        return False
    if name in f.params:
        sites = cg.callers(f)
        if not sites:
            return False
        idx = f.params.index(name)
        for caller, call in sites:
            if isinstance(call, ast.Call) and f.cls is not None and f.params and f.params[0] in ("self", "cls") and idx > 0 \
                    and not (isinstance(call.func, ast.Attribute) and isinstance(m.resolve_expr_static(caller, call.func.value), type(f.cls))):
                idx_ = idx - 1  # bound call: the receiver is not among the arguments
            else:
                idx_ = idx
            if not isinstance(call, ast.Call) or idx_ >= len(call.args) or not isinstance(call.args[idx_], ast.Name):
                return False
            if not _push_derived(m, r, cg, caller, call.args[idx_].id, depth + 1):
                return False
        return True
    defs = c05._assignments_to(f, name)
    if defs:
        return all(idx is None and isinstance(v, ast.Call) and r.role_of_call(f, v) == "push_shape_memo" for _, v, idx in defs)
    # `with C(...) as name:` where C.__enter__ returns the tuple push_shape_memo returned
    for n in walk_scope(f.node):
        if isinstance(n, (ast.With, ast.AsyncWith)):
            for it in n.items:
                if isinstance(it.optional_vars, ast.Name) and it.optional_vars.id == name and isinstance(it.context_expr, ast.Call):
                    t = m.resolve_call(f, it.context_expr)
                    if t.kind == "func" and any("contextmanager" in norm(d) for d in t.target.decorators):
                        # generator-based manager: what it yields is what `as name` is bound to
                        ys = [x.value for x in walk_scope(t.target.node) if isinstance(x, ast.Yield)]
                        if ys and all(isinstance(v, ast.Name) and _push_derived(m, r, cg, t.target, v.id, depth + 1) for v in ys):
                            return True
                        if ys and all(isinstance(v, ast.Call) and r.role_of_call(t.target, v) == "push_shape_memo" for v in ys):
                            return True
                    if t.kind == "class":
                        en = m.lookup_method(t.target, "__enter__")
                        if en is not None:
                            rets = [x.value for x in walk_scope(en.node) if isinstance(x, ast.Return)]
                            if rets and all(isinstance(v, ast.Call) and r.role_of_call(en, v) == "push_shape_memo" for v in rets):
                                return True
                            if rets and all(isinstance(v, ast.Name) and _push_derived(m, r, cg, en, v.id, depth + 1) for v in rets):
                                return True
    return False


def check_freshness(ctx, r, cg):
    m = ctx.model
    shape = set_memo_shape(ctx, r)
    ret_ok = push_returns_appended(r)
    ctx.note(f"set_shape_memo restores by: {shape}; push returns the appended tuple: {ret_ok}")
    sstr = m.func("_storage.shape_str")
    n = 0
    for caller, call in cg.callers(sstr):
        if not isinstance(caller, FuncInfo) or not isinstance(call, ast.Call):
            continue
        n += 1
        ctx.saw(caller)
        a = call.args[0] if call.args else None
        if isinstance(a, ast.Call) and r.role_of_call(caller, a) == "get_shape_memo":
            ctx.ok("C13.1", caller.qualname, "bindings read from the live top of the stack (get_shape_memo() at the point of reporting)")
            continue
        if isinstance(a, ast.Name) and _push_derived(m, r, cg, caller, a.id):
            if shape == "replace":
                ctx.bad("C13.1", caller, call, f"`{a.id}` is the tuple of dicts captured when the context was pushed, but set_shape_memo rebinds the top "
                        "of the stack to new dicts on every rollback: the message then lists bindings made by the check that failed and "
                        "misses bindings made after a rollback (stale alias)")
            elif not ret_ok:
                ctx.bad("C13.1", caller, call, f"`{a.id}` comes from push_shape_memo, which does not return the very tuple it put on the stack")
            else:
                ctx.ok("C13.1", caller.qualname, f"`{a.id}` aliases the live dicts of the context (push returns the appended tuple; rollback restores in place)")
            continue
        if isinstance(a, ast.Name):
            defs = c05._assignments_to(caller, a.id)
            if defs and all(idx is None and isinstance(v, ast.Call) and r.role_of_call(caller, v) == "get_shape_memo" for _, v, idx in defs):
                ctx.ok("C13.1", caller.qualname, f"`{a.id}` holds the live dicts handed out by get_shape_memo() (restored in place, never replaced)"
                       if shape == "inplace" else f"`{a.id}` = get_shape_memo()")
                if shape == "replace":
                    # a rollback between the read and the report would make the tuple stale
                    raise AnalysisError(f"{caller.qualname}: `{a.id}` is read from get_shape_memo() ahead of the report and set_shape_memo replaces the top of the stack")
                continue
            if defs and any(v is not None and (c05._is_copy_of(v, set(caller.local_names()) | set(caller.params)) or "_bak" in a.id) for _, v, _i in defs):
                ctx.bad("C13.1", caller, call, f"the bindings reported (`{norm(a)}`) are a snapshot copy, not the bindings in force when the failure was detected")
                continue
        raise AnalysisError(f"{caller.qualname}: cannot trace where the bindings reported (`{norm(a)}`) come from")
    ctx.counters["shape_str_call_sites"] = n
    ctx.floor("C13.1", "shape_str_call_sites", 3)
    # "none taken from the check that failed": the rollback must reinstate the snapshot
    stack_tl, stack_attr, _ = c05.locate_stack(r)
    c05._check_set(ctx, r, r.set, stack_tl, stack_attr, "C13.1")


# ------------------------------------------------------------------------ C13.2
def _check_tries(m, impl, names):
    out = []
    for t in ast.walk(impl.node):
        if isinstance(t, ast.Try):
            for b in t.body:
                for c in ast.walk(b):
                    if isinstance(c, ast.Call) and isinstance(c.func, ast.Name) and c.func.id in names:
                        out.append((t, c.func.id))
    return out


def check_annotationerror_passthrough(ctx, r):
    m = ctx.model
    jt = m.func("_decorator.jaxtyped")
    cv = checker_vars(m, jt)
    h = ExcHierarchy(m)
    n = 0
    for w, impl in new_style_wrappers(m, r):
        ctx.saw(impl)
        tries = _check_tries(m, impl, set(cv))
        stages = {cv[nm] for _, nm in tries}
        for stage in ("param", "full"):
            if stage not in stages and any(isinstance(c.func, ast.Name) and cv.get(c.func.id) == stage for c in m.calls_in(impl)):
                ctx.ok("C13.2", impl.qualname, f"{stage} check is not wrapped in a try: AnnotationError propagates")
        for t, nm in tries:
            n += 1
            first = None
            for hd in t.handlers:
                rel = h.catches(hd.type, "AnnotationError")
                if rel in ("all", "may"):
                    first = hd
                    break
            if first is None:
                ctx.ok("C13.2", impl.qualname, f"no handler around {nm}(...) catches AnnotationError")
                continue
            names = h.handler_names(first.type)
            passthrough = names == ["AnnotationError"] and len(first.body) == 1 and isinstance(first.body[0], ast.Raise) and first.body[0].exc is None
            if passthrough:
                ctx.ok("C13.2", impl.qualname, f"around {nm}(...): `except AnnotationError: raise` precedes every broader handler")
            else:
                ctx.bad("C13.2", impl, first, f"an AnnotationError raised while running {nm}(...) ({'parameter' if cv[nm] == 'param' else 'return'} check) is caught by "
                        f"`except {norm(first.type) if first.type is not None else ''}` and not re-raised untouched: misuse of the annotation language "
                        "would surface as a TypeCheckError or be swallowed",
                        construct=f"{nm}(...): first catching handler is `except {norm(first.type) if first.type is not None else '<bare>'}`")
    ctx.counters["check_try_blocks"] = n
    ctx.floor("C13.2", "check_try_blocks", 2)


# ------------------------------------------------------------------------ C13.8
def check_bindings_listed_separately(ctx):
    """'lists as current values exactly the bindings in force -- none missing': the axis sizes, the
    multi-axis shapes and the structures live in three tables that may use the same name (`n` and `*n`);
    shape_str must list each table on its own.  Folding two of them into one mapping keyed by name loses
    an entry whenever a name occurs in both."""
    m = ctx.model
    f = m.func("_storage.shape_str")
    ctx.saw(f)
    p0 = f.params[0] if f.params else None
    need(p0, "C13.8: shape_str takes no memos")
    slots = {}  # name -> set of memo slots it derives from
    for st in walk_scope(f.node):
        if isinstance(st, ast.Assign) and isinstance(st.value, ast.Name) and st.value.id == p0 and isinstance(st.targets[0], (ast.Tuple, ast.List)):
            for i, e in enumerate(st.targets[0].elts):
                if isinstance(e, ast.Name) and e.id != "_" and i < 3:
                    slots.setdefault(e.id, set()).add(i)
        if isinstance(st, ast.Assign) and isinstance(st.value, ast.Subscript) and isinstance(st.value.value, ast.Name) and st.value.value.id == p0 \
                and isinstance(st.value.slice, ast.Constant) and isinstance(st.targets[0], ast.Name) and st.value.slice.value in (0, 1, 2):
            slots.setdefault(st.targets[0].id, set()).add(st.value.slice.value)
    direct = any(isinstance(x, ast.Subscript) and isinstance(x.value, ast.Name) and x.value.id == p0 and isinstance(x.slice, ast.Constant) and x.slice.value in (0, 1, 2)
                 for x in walk_scope(f.node))
    need(slots or direct, "C13.8: shape_str does not unpack the memos in a recognised form")

    def of(e):
        out = set()
        for x in ast.walk(e):
            if isinstance(x, ast.Name) and x.id in slots:
                out |= slots[x.id]
            # `memos[0]` read in place
            if isinstance(x, ast.Subscript) and isinstance(x.value, ast.Name) and x.value.id == p0 and isinstance(x.slice, ast.Constant) and x.slice.value in (0, 1, 2):
                out.add(x.slice.value)
        return out

    changed = True
    while changed:
        changed = False
        for st in walk_scope(f.node):
            if isinstance(st, ast.Assign) and len(st.targets) == 1 and isinstance(st.targets[0], ast.Name):
                new = of(st.value)
                if new - slots.get(st.targets[0].id, set()):
                    slots.setdefault(st.targets[0].id, set()).update(new)
                    changed = True
    merged = None
    for x in walk_scope(f.node):
        is_mapping = False
        if isinstance(x, ast.Dict) and any(k is None for k in x.keys):
            is_mapping = True
        elif isinstance(x, ast.DictComp):
            is_mapping = True
        elif isinstance(x, ast.BinOp) and isinstance(x.op, ast.BitOr):
            is_mapping = True
        elif isinstance(x, ast.Call) and isinstance(x.func, ast.Name) and x.func.id in ("dict", "ChainMap", "OrderedDict"):
            is_mapping = True
        elif isinstance(x, ast.Call) and isinstance(x.func, ast.Attribute) and x.func.attr == "update":
            is_mapping = True
        elif isinstance(x, ast.AugAssign) and isinstance(x.op, ast.BitOr):
            is_mapping = True
        if is_mapping and len(of(x) & {0, 1, 2}) >= 2:
            merged = x
            break
    if merged is not None:
        names = {0: "axis sizes", 1: "multi-axis shapes", 2: "structures"}
        which = " and ".join(names[i] for i in sorted(of(merged) & {0, 1, 2}))
        ctx.bad("C13.8", f, merged, f"shape_str folds the {which} into one mapping keyed by name (`{short(merged, 70)}`): a name bound in both tables "
                "(`n` and `*n`) is listed once, so a binding in force is missing from the error message", construct=f"shape_str merges tables: {short(merged, 70)}")
        return
    listed = set()
    for x in walk_scope(f.node):
        if isinstance(x, (ast.For, ast.comprehension)):
            listed |= of(x.iter)
    missing = {0, 1, 2} - listed
    if missing and any(isinstance(x, ast.Call) and m.resolve_call(f, x).kind == "func" for x in walk_scope(f.node)):
        raise AnalysisError("C13.8: shape_str hands the tables to a helper; which of them are listed was not followed")
    if missing:
        names = {0: "axis sizes", 1: "multi-axis shapes", 2: "structures"}
        ctx.bad("C13.8", f, f.node, f"shape_str never iterates the table of {', '.join(names[i] for i in sorted(missing))}: those bindings are missing from every error message",
                construct=f"shape_str: tables not listed {sorted(missing)}")
    else:
        ctx.ok("C13.8", f.qualname, "the three tables (sizes, multi-axis shapes, structures) are each iterated on their own; no mapping merges two of them")


# ------------------------------------------------------------------------ C13.3
def _msg_text(m, scope, e, depth=0, seen=None, within=None):
    """Literal text of a message expression: string constants of f-strings / concatenations /
    conditional expressions, local names followed to their definitions, internal helper calls
    followed to what they return.  Returns (text, opaque, source_text); opaque = part of the text comes
    from a call the rule cannot follow (holes of f-strings are values, not text, and ignored)."""
    seen = seen if seen is not None else set()
    if e is None or depth > 6:
        return "", depth > 6, ""
    if isinstance(e, ast.Constant):
        return (e.value if isinstance(e.value, str) else ""), False, ""
    if isinstance(e, ast.JoinedStr):
        src = " ".join(norm(x.value) for x in e.values if isinstance(x, ast.FormattedValue))
        txt = [x.value for x in e.values if isinstance(x, ast.Constant) and isinstance(x.value, str)]
        opq = False
        for x in e.values:
            if not isinstance(x, ast.FormattedValue):
                continue
            hv = x.value
            if isinstance(hv, ast.Name):
                # a hole filled from a local that holds a piece of message text (`what = "the parameters of"`): its text counts
                defs = c05._assignments_to(scope, hv.id) if isinstance(scope, FuncInfo) else []
                if defs and all(d[1] is not None and isinstance(d[1], (ast.Constant, ast.JoinedStr, ast.BinOp, ast.IfExp)) for d in defs):
                    a_, b_, c_ = _msg_text(m, scope, hv, depth + 1, seen, within)
                    txt.append(a_)
                    opq = opq or b_
            elif isinstance(hv, ast.Attribute) and isinstance(scope, FuncInfo) and scope.cls is not None and scope.params \
                    and isinstance(hv.value, ast.Name) and hv.value.id == scope.params[0] and depth > 0:
                # `{self.what}` in a message-building method: text the object was given elsewhere
                opq = True
        return " ".join(txt), opq, src
    parts = []
    if isinstance(e, ast.BinOp):
        parts = [e.left, e.right]
    elif isinstance(e, ast.IfExp):
        parts = [e.body, e.orelse]
    elif isinstance(e, (ast.Tuple, ast.List)):
        parts = list(e.elts)
    elif isinstance(e, ast.Name):
        key = (getattr(scope, "qualname", "?"), e.id)
        if key in seen:
            return "", False, ""
        seen.add(key)
        defs = c05._assignments_to(scope, e.id) if isinstance(scope, FuncInfo) else []
        aug = [n for n in walk_scope(scope.node) if isinstance(n, ast.AugAssign) and isinstance(n.target, ast.Name) and n.target.id == e.id] if isinstance(scope, FuncInfo) else []
        if within is not None:
            inside = {id(x) for x in ast.walk(within)}
            d_in = [d for d in defs if id(d[0]) in inside]
            if d_in:  # the handler builds its own message: definitions elsewhere belong to other handlers
                defs = d_in
                aug = [n for n in aug if id(n) in inside]
        aug = [n.value for n in aug]
        if not defs and not aug:
            return "", (isinstance(scope, FuncInfo) and e.id not in scope.params), ""
        parts = [d[1] for d in defs if d[1] is not None] + aug
    elif isinstance(e, ast.Call):
        if isinstance(e.func, ast.Attribute) and e.func.attr in ("join", "format"):
            parts = [e.func.value] + list(e.args)
        else:
            t = m.resolve_call(scope, e)
            if t.kind == "func" and t.target.module.short != "_storage":
                txt, opq, src = [], False, [norm(t.target.node)]
                for rt in walk_scope(t.target.node):
                    if isinstance(rt, ast.Return):
                        a_, b_, c_ = _msg_text(m, t.target, rt.value, depth + 1, seen)
                        txt.append(a_)
                        opq = opq or b_
                        src.append(c_)
                return " ".join(txt), opq, " ".join(src)
            if t.kind == "func":
                return "", False, norm(e)  # storage helpers (shape_str): values
            return "", True, norm(e)
    else:
        return "", False, norm(e)
    txt, opq, src = [], False, []
    for p_ in parts:
        a_, b_, c_ = _msg_text(m, scope, p_, depth + 1, seen, within)
        txt.append(a_)
        opq = opq or b_
        src.append(c_)
    return " ".join(txt), opq, " ".join(src)


def _msg_constants(m, handler, impl):
    """Text of the messages raised inside the handler; opacity; source text of the values used."""
    txt, opaque, src = [], False, [norm(handler)]
    for rs in ast.walk(handler):
        if isinstance(rs, ast.Raise) and isinstance(rs.exc, ast.Call):
            for a in rs.exc.args:
                t_, o_, s_ = _msg_text(m, impl, a, within=handler)
                txt.append(t_)
                opaque = opaque or o_
                src.append(s_)
    return " ".join(txt), opaque, " ".join(src)


def check_stage_wiring(ctx, r):
    m = ctx.model
    jt = m.func("_decorator.jaxtyped")
    cv = checker_vars(m, jt)
    h = ExcHierarchy(m)
    for w, impl in new_style_wrappers(m, r):
        for t, nm in _check_tries(m, impl, set(cv)):
            stage = cv[nm]
            for hd in t.handlers:
                names = h.handler_names(hd.type)
                if names == ["AnnotationError"]:
                    continue
                raises = [x for x in ast.walk(hd) if isinstance(x, ast.Raise) and x.exc is not None]
                if not raises:
                    ctx.bad("C13.3", impl, hd, f"the failure handler of the {stage} check raises nothing")
                    continue
                for rs in raises:
                    x = rs.exc
                    if isinstance(x, ast.Name) and x.id not in impl.params:
                        # `err = TypeCheckError(msg); raise err [from ..]`: the raised object is what the local was bound to
                        ds = [d for d in c05._assignments_to(impl, x.id) if id(d[0]) in {id(y) for y in ast.walk(hd)}]
                        if ds and all(d[2] is None and isinstance(d[1], ast.Call) for d in ds) and len({norm(d[1].func) for d in ds}) == 1:
                            x = ds[0][1]
                        else:
                            raise AnalysisError(f"C13.3: `{norm(rs)[:60]}` in the {stage}-check handler raises a local whose class the rule cannot read")
                    cname = x.func.id if isinstance(x, ast.Call) and isinstance(x.func, ast.Name) else None
                    if isinstance(x, ast.Call) and cname != "TypeCheckError":
                        # `raise _make_error(msg, ..)`: a package function that builds the exception -- the class of what it returns
                        t_ = m.resolve_call(impl, x)
                        if t_.kind == "func" and not t_.target.module.short.startswith("_typeguard"):
                            kinds_ = set()
                            for rt in walk_scope(t_.target.node):
                                if isinstance(rt, ast.Return):
                                    v_ = rt.value
                                    if isinstance(v_, ast.Name):
                                        ds_ = c05._assignments_to(t_.target, v_.id)
                                        v_ = ds_[0][1] if len(ds_) == 1 and ds_[0][2] is None else None
                                    kinds_.add(v_.func.id if isinstance(v_, ast.Call) and isinstance(v_.func, ast.Name) else None)
                            if len(kinds_) == 1 and None not in kinds_:
                                cname = kinds_.pop()
                            else:
                                raise AnalysisError(f"C13.3: `{norm(rs)[:60]}` raises what {t_.target.qualname} returns; its class could not be read")
                    if cname != "TypeCheckError":
                        ctx.bad("C13.3", impl, rs, f"a violated annotation ({stage} check) raises `{norm(x)[:40]}`, not jaxtyping.TypeCheckError")
                consts, opaque, region_txt = _msg_constants(m, hd, impl)
                consts = consts.lower()
                want, other = ("parameters of", "return value") if stage == "param" else ("return value", "checking the parameters")
                if want not in consts and opaque:
                    raise AnalysisError(f"C13.3: the message of the {stage}-check handler is built by code the rule cannot follow; the phrase '{want}' was not seen")
                if want not in consts:
                    ctx.bad("C13.3", impl, hd, f"the message raised when the {'parameters' if stage == 'param' else 'return value'} fail does not say so "
                            f"(expected the phrase '{want}')", construct=f"{stage}-check handler message lacks '{want}'")
                elif other in consts:
                    ctx.bad("C13.3", impl, hd, f"the message raised by the {stage}-check handler talks about the other stage ('{other}')",
                            construct=f"{stage}-check handler message mentions '{other}'")
                else:
                    ctx.ok("C13.3", impl.qualname, f"{stage}-check handler raises TypeCheckError with a message about the {'parameters' if stage == 'param' else 'return value'}")
                # names the function: module + qualname holes
                # names the function: somewhere in the handler fn's __qualname__ (or a helper applied to fn) is read
                txt = region_txt
                if "__qualname__" not in txt and not any(isinstance(c, ast.Call) and any(isinstance(a, ast.Name) and a.id == "fn" for a in c.args) for c in ast.walk(hd)):
                    ctx.bad("C13.3", impl, hd, "the error message does not name the function (fn.__qualname__ is never read in the handler)", construct=f"{stage}-check handler never reads the function's name")
    # TypeCheckError is a TypeError; AnnotationError is not
    h2 = ExcHierarchy(m)
    if not h2.is_sub("TypeCheckError", "TypeError"):
        ctx.bad("C13.3", ("jaxtyping/_errors.py", "_errors.<module>"), m.module("_errors").tree, "TypeCheckError is no longer a TypeError", construct="class TypeCheckError")
    else:
        ctx.ok("C13.3", "_errors.TypeCheckError", "is a TypeError")
    if h2.is_sub("AnnotationError", "TypeError"):
        ctx.bad("C13.3", ("jaxtyping/_errors.py", "_errors.<module>"), m.module("_errors").tree, "AnnotationError became a TypeError: typeguard/`is_leaftype` would swallow it", construct="class AnnotationError")
    else:
        ctx.ok("C13.3", "_errors.AnnotationError", "is not a TypeError (cannot be swallowed by `except TypeError`)")


# ------------------------------------------------------------------------ C13.4
def _flag_test(t):
    """(is the remove-stack flag, polarity) for a test expression."""
    pol = True
    while isinstance(t, ast.UnaryOp) and isinstance(t.op, ast.Not):
        pol = not pol
        t = t.operand
    if isinstance(t, ast.Attribute) and t.attr == "jaxtyping_remove_typechecker_stack":
        return True, pol
    return False, pol


def _cause_kind(expr, flag: bool, env, exc_name):
    """What `raise X from <expr>` chains to when the flag has value `flag`:
    'None' | 'exc' | 'implicit' | '?'.  `env`: kinds of the locals assigned so far."""
    if expr is None:
        return "implicit"
    if isinstance(expr, ast.Constant) and expr.value is None:
        return "None"
    if isinstance(expr, ast.Name) and expr.id in exc_name:
        return "exc"
    if isinstance(expr, ast.IfExp):
        is_flag, pol = _flag_test(expr.test)
        if is_flag:
            return _cause_kind(expr.body if flag == pol else expr.orelse, flag, env, exc_name)
        a = _cause_kind(expr.body, flag, env, exc_name)
        b = _cause_kind(expr.orelse, flag, env, exc_name)
        return a if a == b else "?"
    if isinstance(expr, ast.Name):
        return env.get(expr.id, "?")
    return "?"


def _merge_env(a, b):
    return {k: (a[k] if a.get(k) == b.get(k) else "?") for k in set(a) | set(b)}


class _Stop(Exception):
    """the statement list cannot continue (it ended in raise / return / break / continue on this path)"""


def _raises_under_flag(stmts, flag: bool, env, exc_name, out):
    """Abstractly run a statement list with the flag fixed: track, for the locals assigned from
    None / the caught exception / a flag-conditional of them, which of the two they hold, and record
    (raise statement, kind of its cause) for every raise reachable under this flag value.
    Returns the environment after the list, or None when no path falls out of its end."""
    for st in stmts:
        if isinstance(st, ast.Raise):
            if st.exc is not None:
                out.append((st, _cause_kind(st.cause, flag, env, exc_name)))
            return None
        if isinstance(st, (ast.Return, ast.Break, ast.Continue)):
            return None
        if isinstance(st, (ast.Assign, ast.AnnAssign)):
            tgts = st.targets if isinstance(st, ast.Assign) else [st.target]
            if st.value is not None:
                for t in tgts:
                    if isinstance(t, ast.Name):
                        env = dict(env)
                        env[t.id] = _cause_kind(st.value, flag, env, exc_name)
        elif isinstance(st, ast.If):
            is_flag, pol = _flag_test(st.test)
            if is_flag:
                env = _raises_under_flag(st.body if flag == pol else st.orelse, flag, env, exc_name, out)
            else:
                e1 = _raises_under_flag(st.body, flag, dict(env), exc_name, out)
                e2 = _raises_under_flag(st.orelse, flag, dict(env), exc_name, out)
                env = e1 if e2 is None else e2 if e1 is None else _merge_env(e1, e2)
            if env is None:
                return None  # neither side of the `if` falls through: what follows is not reached on this path
        elif isinstance(st, (ast.For, ast.While)):
            e1 = _raises_under_flag(st.body, flag, dict(env), exc_name, out)
            env = _merge_env(env, e1) if e1 is not None else env
            e2 = _raises_under_flag(st.orelse, flag, env, exc_name, out)
            env = e2 if e2 is not None else env
        elif isinstance(st, ast.With):
            env = _raises_under_flag(st.body, flag, env, exc_name, out)
            if env is None:
                return None
        elif isinstance(st, ast.Try):
            e1 = _raises_under_flag(st.body, flag, dict(env), exc_name, out)
            mid = _merge_env(env, e1) if e1 is not None else env
            ends = [_raises_under_flag(st.orelse, flag, dict(e1), exc_name, out) if e1 is not None else None]
            for hh in st.handlers:
                ends.append(_raises_under_flag(hh.body, flag, dict(mid), exc_name, out))
            live = [e_ for e_ in ends if e_ is not None]
            if not live:
                _raises_under_flag(st.finalbody, flag, dict(mid), exc_name, out)
                return None
            env = live[0]
            for e2 in live[1:]:
                env = _merge_env(env, e2)
            e3 = _raises_under_flag(st.finalbody, flag, env, exc_name, out)
            if e3 is None:
                return None
            env = e3
    return env


def check_cause_polarity(ctx, r):
    """For each handler of a checker call that raises the jaxtyping error: with the flag on every
    reachable raise chains `from None`, with it off `from <the caught exception>`.  Decided per
    raise site by following `if flag` statements, `x if flag else y` expressions and locals."""
    m = ctx.model
    jt = m.func("_decorator.jaxtyped")
    cv = checker_vars(m, jt)
    h = ExcHierarchy(m)
    n = 0
    for w, impl in new_style_wrappers(m, r):
        for t, nm in _check_tries(m, impl, set(cv)):
            for hd in t.handlers:
                if h.handler_names(hd.type) == ["AnnotationError"]:
                    continue
                mentions = any(isinstance(x, ast.Attribute) and x.attr == "jaxtyping_remove_typechecker_stack" for x in ast.walk(hd))
                per_flag = {}
                # the caught exception: the name bound by this handler or by a handler nested in it
                # (the argument-blame helper re-raises, and that exception is the one chained)
                exc_names = {x.name for x in ast.walk(hd) if isinstance(x, ast.ExceptHandler) and x.name}
                for flag in (True, False):
                    kinds = []
                    _raises_under_flag(hd.body, flag, {}, exc_names, kinds)
                    per_flag[flag] = kinds
                if not per_flag[True] and not per_flag[False]:
                    continue  # C13.3 reports handlers that raise nothing
                n += 1
                if not mentions:
                    st0 = (per_flag[True] or per_flag[False])[0][0]
                    ctx.bad("C13.4", impl, st0, "the handler of a failed check never consults jaxtyping_remove_typechecker_stack: "
                            f"the error is raised `from {per_flag[True][0][1] if per_flag[True] else '?'}` whatever the flag says")
                    continue
                unknown = [st for fl in per_flag.values() for st, k in fl if k == "?"]
                if unknown:
                    raise AnalysisError(f"C13.4: cannot tell what `{norm(unknown[0])[:80]}` chains to as a function of jaxtyping_remove_typechecker_stack")
                bad = False
                for st, k in per_flag[True]:
                    if k != "None":
                        ctx.bad("C13.4", impl, st, f"cause polarity: with jaxtyping_remove_typechecker_stack on the error is raised `from {k}` (must be `from None`)")
                        bad = True
                for st, k in per_flag[False]:
                    if k != "exc":
                        ctx.bad("C13.4", impl, st, f"cause polarity: with jaxtyping_remove_typechecker_stack off the error is raised `from {k}` (must be the typechecker's exception)")
                        bad = True
                if not bad:
                    ctx.ok("C13.4", impl.qualname, "remove_typechecker_stack: true -> `from None`, false -> `from e` on every raise of the handler")
    ctx.counters["cause_switch_sites"] = n
    ctx.floor("C13.4", "cause_switch_sites", 2)


# ------------------------------------------------------------------------ C13.5
def check_blame_context(ctx, r, cg):
    m = ctx.model
    gp = m.func("_decorator._get_problem_arg")
    ctx.saw(gp)
    pred = cg.reachable([gp], follow_refs=False, dispatch=False)
    banned = {r.push.qualname: "pushes a new context", r.pop.qualname: "pops the context", r.set.qualname: "replaces the context's memos",
              "_decorator.jaxtyped": "goes through jaxtyped (a fresh context)"}
    bad = False
    for q, why in banned.items():
        if q in pred:
            bad = True
            ctx.bad("C13.5", gp, gp.node, f"while localising the failing parameter, {' -> '.join(cg.chain(pred, q))} {why}: the re-check would not "
                    "run in the context in which the failure was detected", construct=f"_get_problem_arg reaches {q}")
    if not bad:
        ctx.ok("C13.5", gp.qualname, f"{len(pred)} functions reachable by direct calls; none pushes, pops or resets the context")
    # it must re-check with the same typechecker and the caller's own args
    # the re-check function: the local bound to the synthetic single-parameter function (whatever its name)
    names = set()
    for st in walk_scope(gp.node):
        if isinstance(st, ast.Assign) and len(st.targets) == 1 and isinstance(st.targets[0], ast.Name) and isinstance(st.value, ast.Call):
            t = m.resolve_call(gp, st.value)
            if t.kind == "func" and t.target.name in ("_make_fn_with_signature", "_apply_typechecker"):
                names.add(st.targets[0].id)
    need(names, "C13.5: the synthetic single-parameter function of _get_problem_arg was not found")
    calls = [c for c in m.calls_in(gp) if isinstance(c.func, ast.Name) and c.func.id in names]
    need(calls, "C13.5: the call of the single-parameter re-check was not found")
    from .c19 import is_passthrough_call

    if calls and all(is_passthrough_call(c, c.func.id) for c in calls):
        ctx.ok("C13.5", gp.qualname, "single-parameter re-check is called with exactly *args, **kwargs")
    else:
        ctx.bad("C13.5", gp, gp.node, "the single-parameter re-check is not called with exactly the original *args, **kwargs", construct="re-check call")


# ------------------------------------------------------------------------ C13.10
def _always_leaves(stmts) -> bool:
    """every path through the list ends in raise / return / break (it never reaches the next iteration)"""
    for st in stmts:
        if isinstance(st, (ast.Raise, ast.Return, ast.Break)):
            return True
        if isinstance(st, ast.Continue):
            return False
        if isinstance(st, ast.If) and st.orelse and _always_leaves(st.body) and _always_leaves(st.orelse):
            return True
        if isinstance(st, (ast.With, ast.AsyncWith)) and _always_leaves(st.body):
            return True
        if isinstance(st, ast.Try):
            if st.finalbody and _always_leaves(st.finalbody):
                return True
            if _always_leaves(st.body + st.orelse) and all(_always_leaves(h.body) for h in st.handlers):
                return True
    return False


def check_blame_stops_at_first_failure(ctx, r):
    m = ctx.model
    gp = m.func("_decorator._get_problem_arg")
    ctx.saw(gp)
    names = set()
    for st in walk_scope(gp.node):
        if isinstance(st, ast.Assign) and len(st.targets) == 1 and isinstance(st.targets[0], ast.Name) and isinstance(st.value, ast.Call):
            t = m.resolve_call(gp, st.value)
            if t.kind == "func" and t.target.name in ("_make_fn_with_signature", "_apply_typechecker"):
                names.add(st.targets[0].id)
    need(names, "C13.10: the synthetic single-parameter function of _get_problem_arg was not found")
    h = ExcHierarchy(m)
    probes = []  # (loop, try)
    def rec(stmts, loop):
        for st in stmts:
            if isinstance(st, (ast.FunctionDef, ast.AsyncFunctionDef, ast.ClassDef)):
                continue
            if isinstance(st, ast.Try) and any(isinstance(c, ast.Call) and isinstance(c.func, ast.Name) and c.func.id in names for b in st.body for c in ast.walk(b)):
                probes.append((loop, st))
            inner = st if isinstance(st, (ast.For, ast.While, ast.AsyncFor)) else loop
            for fld in ("body", "orelse", "finalbody"):
                sub = getattr(st, fld, None)
                if isinstance(sub, list) and sub and isinstance(sub[0], ast.stmt):
                    rec(sub, inner if fld == "body" else loop)
            for hd in getattr(st, "handlers", []) or []:
                rec(hd.body, loop)
    rec(gp.node.body, None)
    need(probes, "C13.10: the try around the single-parameter re-check was not found")
    n = 0
    for loop, t in probes:
        if loop is None:
            raise AnalysisError("C13.10: the single-parameter re-check is not made inside a loop over the parameters; the rule cannot tell when probing stops")
        for hd in t.handlers:
            caught = h.handler_names(hd.type)
            if caught == ["AnnotationError"]:
                continue
            n += 1
            if _always_leaves(hd.body):
                ctx.ok("C13.10", gp.qualname, f"`except {norm(hd.type) if hd.type is not None else ''}` of the re-check leaves the loop: probing stops at the first failing parameter")
            else:
                ctx.bad("C13.10", gp, hd, "after a failing single-parameter re-check the loop goes on to the next parameter: later parameters are checked for the first time in "
                        "the live memo, so axes they bind are reported as current values although they were not in force when the failure was detected, and a later "
                        "probe failing for its own reason (AnnotationError of a symbolic axis) is blamed as a violation", construct="blame probe handler continues the loop")
    ctx.counters["blame_probe_handlers"] = n
    ctx.floor("C13.10", "blame_probe_handlers", 1)
