"""C03 -- dtype categories accept exactly the documented dtypes.

Decides the *table* half (which dtype names each category contains, and how a name is
compared); not how a backend's dtype becomes a name (that depends on run-time names).
  C03.1 tables, by constant folding of every `X = _make_dtype(<expr>, "<name>")`:
        (a) class-name string = variable name = name exported by jaxtyping/__init__.py (the
            runtime list, the TYPE_CHECKING list and _indirection.py: three lists, one set);
        (b) each precision class holds exactly one string, its name lower-cased modulo `_`;
        (c) each family category equals the union of the exported precision classes of that
            family (Float = every Float*/BFloat*, ...);
        (d) the six base families Bool, Key, UInt, Int, Float, Complex are pairwise disjoint;
        (e) Shaped is the any-dtype sentinel.
  C03.2 documented hierarchy: the nested list under `## Dtype` of docs/api/array.md is
        parsed to parent->child edges; child is a subset of parent for every edge, and every
        category described as a disjunction equals the union named (Num, Inexact, Integer,
        Real).  The oracle is the documentation.
  C03.3 comparison: the str arm compares with `==`, the re.Pattern arm calls a match method,
        a miss returns a non-empty message.
  C03.5 no memoisation between an array's dtype and the verdict: no lru_cache/cache-decorated
        function is reachable from the check entry points (a table keyed by dtype objects
        conflates dtypes that compare equal but have different names -- longlong/int64 -- and
        makes the verdict depend on what was checked before).
  C03.4 user categories: __init_subclass__ turns str/Pattern into a 1-tuple, other iterables
        into a tuple, and leaves the sentinel alone.
"""
from __future__ import annotations

import ast
import re

from ..roles import node_calls
from ..core import region, AnalysisError, RuleContext, need, norm, short
from ..model import walk_scope

EXPLANATION = __doc__

UNKNOWN = object()
SENTINEL = "<any-dtype sentinel>"


def fold_module_constants(mod) -> dict:
    """Folds module-level assignments made of constants, earlier names, list/tuple displays, `+`,
    starred elements, simple comprehensions, and calls of module-level helpers whose body is a
    single `return <foldable expression>`.  object() sentinels fold to a marker string."""
    env: dict = {}

    def ev(e, loc=None, depth=0):
        loc = loc or {}
        if isinstance(e, ast.Constant):
            return e.value
        if isinstance(e, ast.Name):
            if e.id in loc:
                return loc[e.id]
            return env.get(e.id, UNKNOWN)
        if isinstance(e, (ast.List, ast.Tuple)):
            out = []
            for x in e.elts:
                if isinstance(x, ast.Starred):
                    v = ev(x.value, loc, depth)
                    if v is UNKNOWN or not isinstance(v, (list, tuple)):
                        return UNKNOWN
                    out.extend(v)
                else:
                    v = ev(x, loc, depth)
                    if v is UNKNOWN:
                        return UNKNOWN
                    out.append(v)
            return out
        if isinstance(e, ast.BinOp) and isinstance(e.op, ast.Add):
            a, b = ev(e.left, loc, depth), ev(e.right, loc, depth)
            if a is UNKNOWN or b is UNKNOWN:
                return UNKNOWN
            if isinstance(a, (list, tuple)) and isinstance(b, (list, tuple)):
                return list(a) + list(b)
            if isinstance(a, str) and isinstance(b, str):
                return a + b
            return UNKNOWN
        if isinstance(e, (ast.ListComp, ast.GeneratorExp)):
            # [elt for a in A for b in a ...] without conditions
            def gen(i, scope):
                if i == len(e.generators):
                    v = ev(e.elt, scope, depth)
                    return UNKNOWN if v is UNKNOWN else [v]
                g_ = e.generators[i]
                if g_.ifs or g_.is_async or not isinstance(g_.target, ast.Name):
                    return UNKNOWN
                it = ev(g_.iter, scope, depth)
                if it is UNKNOWN or not isinstance(it, (list, tuple)):
                    return UNKNOWN
                out = []
                for item in it:
                    sub = gen(i + 1, dict(scope, **{g_.target.id: item}))
                    if sub is UNKNOWN:
                        return UNKNOWN
                    out.extend(sub)
                return out

            return gen(0, dict(loc))
        if isinstance(e, ast.Call) and isinstance(e.func, ast.Name) and ((e.func.id == "object" and not e.args) or e.func.id in mod.classes):
            return ("<object()>", id(e))  # an identity sentinel (bare object() or an instance of a local marker class)
        if isinstance(e, ast.Call) and isinstance(e.func, ast.Name) and e.func.id in ("list", "tuple") and len(e.args) == 1:
            v = ev(e.args[0], loc, depth)
            return list(v) if isinstance(v, (list, tuple)) else UNKNOWN
        if isinstance(e, ast.Call) and isinstance(e.func, ast.Name) and e.func.id in mod.functions and depth < 3 and not e.keywords:
            # a module-level helper that only returns an expression of its parameters
            h = mod.functions[e.func.id].node
            body = [x for x in h.body if not (isinstance(x, ast.Expr) and isinstance(x.value, ast.Constant))]
            a_ = h.args
            if len(body) == 1 and isinstance(body[0], ast.Return) and body[0].value is not None and not a_.kwonlyargs and not a_.kwarg and not h.decorator_list:
                vals = []
                for x in e.args:
                    if isinstance(x, ast.Starred):
                        return UNKNOWN
                    v = ev(x, loc, depth)
                    if v is UNKNOWN:
                        return UNKNOWN
                    vals.append(v)
                names = [p.arg for p in a_.posonlyargs + a_.args]
                scope = {}
                if len(vals) < len(names) - len(a_.defaults):
                    return UNKNOWN
                for nm, v in zip(names, vals):
                    scope[nm] = v
                if len(vals) > len(names):
                    if a_.vararg is None:
                        return UNKNOWN
                    scope[a_.vararg.arg] = list(vals[len(names):])
                elif a_.vararg is not None:
                    scope[a_.vararg.arg] = []
                for nm, d in zip(names[len(names) - len(a_.defaults):], a_.defaults):
                    if nm not in scope:
                        scope[nm] = ev(d, {}, depth + 1)
                return ev(body[0].value, scope, depth + 1)
        return UNKNOWN

    def walk(stmts):
        for st in stmts:
            if isinstance(st, ast.Assign) and len(st.targets) == 1 and isinstance(st.targets[0], ast.Name):
                env[st.targets[0].id] = ev(st.value)
            elif isinstance(st, ast.AugAssign) and isinstance(st.target, ast.Name):
                env[st.target.id] = UNKNOWN
    walk(mod.tree.body)
    return env, ev


def category_tables(ctx):
    m = ctx.model
    mod = m.module("_array_types")
    env, ev = fold_module_constants(mod)
    cats = {}
    for st in mod.tree.body:
        if isinstance(st, ast.Assign) and isinstance(st.value, ast.Call) and isinstance(st.value.func, ast.Name) and st.value.func.id == "_make_dtype" \
                and len(st.targets) == 1 and isinstance(st.targets[0], ast.Name):
            var = st.targets[0].id
            need(len(st.value.args) == 2, f"_make_dtype call for {var} has an unexpected arity")
            # evaluate in the environment *at that point*: re-fold up to this statement
            val = ev(st.value.args[0])
            nm = ev(st.value.args[1])
            cats[var] = (val, nm, st)
    return mod, env, cats


def _as_set(val, any_marker):
    if isinstance(val, tuple) and val and val[0] == "<object()>":
        return SENTINEL
    if isinstance(val, str):
        return {val}
    if isinstance(val, (list, tuple)):
        if all(isinstance(x, str) for x in val):
            return set(val)
    return None


def run(ctx: RuleContext):
    ctx.sub(check_tables, ctx)
    ctx.sub(check_names_exported, ctx, "C03.1")
    ctx.sub(check_docs_hierarchy, ctx)
    ctx.sub(check_no_prefix_regex_for_strings, ctx)
    ctx.sub(check_comparison, ctx)
    ctx.sub(check_init_subclass, ctx)
    ctx.sub(check_name_extraction_shape, ctx)
    ctx.sub(check_no_memo_between_dtype_and_verdict, ctx)
    ctx.sub(check_last_dotted_component, ctx)
    ctx.sub(check_extraction_sources, ctx)
    ctx.sub(check_struct_dtype_everywhere, ctx)
    ctx.sub(check_dtype_verdict_not_remembered, ctx)
    # C03.10: "exactly the documented dtypes": the tables decided by C03.1 / C03.2 are what a category holds for good -- nothing re-binds a
    # category's dtypes after the class was defined (C20.9)
    from .c20 import check_categories_are_bound_once

    ctx.reuse("C03.10", check_categories_are_bound_once, ctx, "C03.10")


FAMILY_RE = {
    "Float": re.compile(r"^(B?Float)\d"),
    "UInt": re.compile(r"^UInt\d"),
    "Int": re.compile(r"^Int\d"),
    "Complex": re.compile(r"^Complex\d"),
}


def check_tables(ctx):
    mod, env, cats = category_tables(ctx)
    where = (mod.relpath, mod.qualname)
    ctx.counters["dtype_categories"] = len(cats)
    ctx.floor("C03.1", "dtype_categories", 30)
    sets = {}
    for var, (val, nm, st) in sorted(cats.items()):
        s = _as_set(val, None)
        if s is None:
            raise AnalysisError(f"C03.1: the dtype table of {var} does not fold to a set of strings (`{short(st, 80)}`)")
        sets[var] = s
    # (b) precision classes
    prec = {v for v in sets if any(rx.match(v) for rx in FAMILY_RE.values())}
    for v in sorted(prec):
        s = sets[v]
        want = v.lower()
        if s == SENTINEL or len(s) != 1:
            ctx.bad("C03.1", where, cats[v][2], f"precision class {v} does not hold exactly one dtype name ({s})")
            continue
        (only,) = tuple(s)
        if only.replace("_", "") != want:
            ctx.bad("C03.1", where, cats[v][2], f"precision class {v} holds the dtype name '{only}', which is not its own name (expected the name that lower-cases to '{want}')")
        else:
            ctx.ok("C03.1", v, f"precision class = {{'{only}'}}")
    # (c) families = union of their precision classes
    for fam, rx in FAMILY_RE.items():
        if fam not in sets:
            ctx.bad("C03.1", where, mod.tree, f"family category {fam} is not defined", construct=f"no {fam} = _make_dtype(...)")
            continue
        members = [v for v in prec if rx.match(v) and (fam != "Int" or not v.startswith("UInt"))]
        union = set()
        for v in members:
            if sets[v] != SENTINEL:
                union |= sets[v]
        if sets[fam] == SENTINEL or sets[fam] != union:
            got = sets[fam]
            missing = sorted(union - got) if got != SENTINEL else []
            extra = sorted(got - union) if got != SENTINEL else []
            ctx.bad("C03.1", where, cats[fam][2], f"{fam} is not the union of its precision classes {sorted(members)}: missing {missing}, extra {extra}",
                    construct=f"{fam}: missing {missing} extra {extra}")
        else:
            ctx.ok("C03.1", fam, f"= union of {len(members)} precision classes ({len(union)} dtype names)")
    # (d) base families disjoint
    base = ["Bool", "Key", "UInt", "Int", "Float", "Complex"]
    for i, a in enumerate(base):
        for b in base[i + 1:]:
            if a in sets and b in sets and sets[a] != SENTINEL and sets[b] != SENTINEL:
                inter = sets[a] & sets[b]
                if inter:
                    ctx.bad("C03.1", where, cats[a][2], f"base families {a} and {b} overlap on {sorted(inter)}", construct=f"{a} & {b} = {sorted(inter)}")
    missing_base = [b for b in base if b not in sets]
    if missing_base:
        ctx.bad("C03.1", where, mod.tree, f"base families {missing_base} are not defined", construct=f"missing {missing_base}")
    else:
        ctx.ok("C03.1", "base families", "Bool, Key, UInt, Int, Float, Complex pairwise disjoint")
    for b, want in (("Bool", {"bool", "bool_"}), ("Key", {"prng_key"})):
        if b in sets and sets[b] != want:
            ctx.bad("C03.1", where, cats[b][2], f"{b} holds {sorted(sets[b]) if sets[b] != SENTINEL else sets[b]}, documented: {sorted(want)}")
    # (e) Shaped
    if sets.get("Shaped") != SENTINEL:
        ctx.bad("C03.1", where, cats["Shaped"][2] if "Shaped" in cats else mod.tree, "Shaped is not the any-dtype sentinel: it would reject some dtypes")
    else:
        ctx.ok("C03.1", "Shaped", "is the any-dtype sentinel")
    for v, s in sets.items():
        if s == SENTINEL and v != "Shaped":
            ctx.bad("C03.1", where, cats[v][2], f"{v} is the any-dtype sentinel: it accepts every dtype")
    ctx._c03_sets = sets
    return sets


def export_lists(ctx):
    m = ctx.model
    init = m.module("jaxtyping")
    ind = m.module("_indirection")
    runtime, typecheck = set(), set()
    for st in ast.walk(init.tree):
        if isinstance(st, ast.ImportFrom) and st.level == 1:
            if st.module == "_array_types":
                runtime |= {a.asname or a.name for a in st.names}
            elif st.module == "_indirection":
                typecheck |= {a.asname or a.name for a in st.names}
    indirection = set()
    for st in ast.walk(ind.tree):
        if isinstance(st, ast.ImportFrom):
            indirection |= {a.asname or a.name for a in st.names}
    return runtime, typecheck, indirection


def check_names_exported(ctx, tag):
    mod, env, cats = category_tables(ctx)
    where = (mod.relpath, mod.qualname)
    runtime, typecheck, indirection = export_lists(ctx)
    n = 0
    for var, (val, nm, st) in sorted(cats.items()):
        n += 1
        if nm != var:
            ctx.bad(tag, where, st, f"the category bound to `{var}` is created with the class name {nm!r}: pickling by reference (module + qualname) and error "
                    "messages resolve to a different class")
            continue
        probs = []
        if var not in runtime:
            probs.append("the runtime import list of jaxtyping/__init__.py")
        if var not in typecheck:
            probs.append("the TYPE_CHECKING import list of jaxtyping/__init__.py")
        if var not in indirection:
            probs.append("jaxtyping/_indirection.py")
        if probs:
            ctx.bad(tag, where, st, f"category {var} is missing from " + " and ".join(probs) + ": `jaxtyping." + var + "` cannot be resolved (by-reference pickling, static typing)",
                    construct=f"{var}: missing from {len(probs)} export list(s)")
        else:
            ctx.ok(tag, var, "name string = variable = exported in all three lists")
    ctx.counters["exported_categories"] = n
    ctx.floor(tag, "exported_categories", 30)
    # _make_dtype gives the class its name/qualname/module
    md = ctx.model.func("_array_types._make_dtype")
    ctx.saw(md)
    assigned = {norm(t): a.value for a in walk_scope(md.node) if isinstance(a, ast.Assign) for t in a.targets}
    for attr in ("__name__", "__qualname__"):
        k = [t for t in assigned if t.endswith("." + attr)]
        if not k or not (isinstance(assigned[k[0]], ast.Name) and assigned[k[0]].id == md.params[1]):
            ctx.bad(tag, md, md.node, f"_make_dtype does not set {attr} to the given name", construct=f"_make_dtype: {attr}")
    mods = [a.value for a in walk_scope(md.node) if isinstance(a, ast.Assign) for t in a.targets if norm(t).endswith(".__module__")]
    def _can_be_jaxtyping(v):
        return (isinstance(v, ast.Constant) and v.value == "jaxtyping") or (isinstance(v, ast.IfExp) and (_can_be_jaxtyping(v.body) or _can_be_jaxtyping(v.orelse)))

    if not any(_can_be_jaxtyping(v) for v in mods):
        ctx.bad(tag, md, md.node, "_make_dtype does not set __module__ to 'jaxtyping'", construct="_make_dtype: __module__")
    else:
        ctx.ok(tag, md.qualname, "sets __name__, __qualname__ and __module__='jaxtyping': categories pickle by reference")


# ------------------------------------------------------------------------ C03.2
WORD_FAMILY = [("unsigned", "UInt"), ("intger", "Int"), ("integer", "Int"), ("floating", "Float"), ("complex", "Complex")]


def parse_dtype_doc(text: str):
    """Returns (edges, described): edges = list of (parent, child); described = {cat: description}."""
    lines = text.splitlines()
    try:
        start = next(i for i, l in enumerate(lines) if l.strip() == "## Dtype")
    except StopIteration:
        raise AnalysisError("docs/api/array.md: section '## Dtype' not found")
    items = []
    for l in lines[start + 1:]:
        if l.startswith("## "):
            break
        mm = re.match(r"^(\s*)- (.*)$", l)
        if mm:
            indent = len(mm.group(1))
            body = mm.group(2)
            names = re.findall(r"`([A-Za-z0-9_]+)`", body)
            desc = body.split(":")[0]
            items.append((indent, desc, names))
    edges, described = [], {}
    stack = []  # (indent, category)
    for indent, desc, names in items:
        while stack and stack[-1][0] >= indent:
            stack.pop()
        parent = stack[-1][1] if stack else None
        if desc.lower().startswith("of particular precision"):
            for nme in names:
                if parent:
                    edges.append((parent, nme))
            continue
        if not names:
            continue
        cat = names[0]
        described[cat] = desc
        if parent:
            edges.append((parent, cat))
        stack.append((indent, cat))
    return edges, described


def check_docs_hierarchy(ctx):
    m = ctx.model
    sets = getattr(ctx, "_c03_sets", None) or check_tables_silent(ctx)
    doc = m.docs.get("docs/api/array.md")
    need(doc, "docs/api/array.md not found")
    edges, described = parse_dtype_doc(doc)
    ctx.counters["documented_edges"] = len(edges)
    ctx.floor("C03.2", "documented_edges", 25)
    where = ("docs/api/array.md", "## Dtype")
    for parent, child in edges:
        if child not in sets:
            ctx.bad("C03.2", where, f"{parent} > {child}", f"documented category `{child}` does not exist in jaxtyping/_array_types.py", construct=f"documented {child}")
            continue
        if parent not in sets:
            ctx.bad("C03.2", where, f"{parent} > {child}", f"documented category `{parent}` does not exist", construct=f"documented {parent}")
            continue
        ps, cs = sets[parent], sets[child]
        if ps == SENTINEL:
            ctx.ok("C03.2", f"{parent} > {child}", "parent accepts any dtype")
            continue
        if cs == SENTINEL or not cs <= ps:
            miss = sorted(cs - ps) if cs != SENTINEL else ["<any>"]
            ctx.bad("C03.2", where, f"{parent} > {child}", f"the documentation lists `{child}` beneath `{parent}`, but {parent} does not accept {miss}",
                    construct=f"{child} not within {parent}: {miss}")
        else:
            ctx.ok("C03.2", f"{parent} > {child}", f"{len(cs)} names, all in parent")
    n_disj = 0
    for cat, desc in described.items():
        d = desc.lower()
        fams = []
        rest = d
        for w, fam in WORD_FAMILY:
            if w in rest:
                if fam == "Int" and w in ("integer", "intger"):
                    # "unsigned integer" was already consumed; look for a remaining bare "integer"
                    tmp = rest.replace("unsigned integer", "").replace("unsigned intger", "")
                    if "integer" in tmp or "intger" in tmp:
                        fams.append("Int")
                    continue
                fams.append(fam)
        fams = sorted(set(fams))
        if len(fams) >= 2 and cat in sets and cat not in ("Shaped",):
            n_disj += 1
            union = set()
            for fam in fams:
                if fam in sets and sets[fam] != SENTINEL:
                    union |= sets[fam]
            if sets[cat] != union:
                got = sets[cat]
                ctx.bad("C03.2", where, f"{cat}: {desc}", f"`{cat}` is documented as \"{desc}\" (= {' | '.join(fams)}) but holds missing {sorted(union - got) if got != SENTINEL else '-'} / "
                        f"extra {sorted(got - union) if got != SENTINEL else '<any>'}", construct=f"{cat} != {' | '.join(fams)}")
            else:
                ctx.ok("C03.2", cat, f"= {' | '.join(fams)} as documented ({len(union)} names)")
    ctx.counters["documented_disjunctions"] = n_disj
    ctx.floor("C03.2", "documented_disjunctions", 4)
    # every exported category is documented (or is a float8 / low-precision class beneath a documented family)
    undocumented = sorted(c for c in sets if c not in described and not any(ch == c for _, ch in edges))
    ctx.note(f"categories not mentioned in the documented hierarchy: {undocumented}")


def check_tables_silent(ctx):
    mod, env, cats = category_tables(ctx)
    return {v: _as_set(val, None) for v, (val, nm, st) in cats.items()}


def _dtype_name_vars(f) -> set:
    """locals that hold something derived from `obj.dtype` (the extracted dtype name under whatever name it has)"""
    assigns = [st for st in walk_scope(f.node) if isinstance(st, ast.Assign)]
    derived = {"dtype"}
    changed = True
    while changed:
        changed = False
        for st in assigns:
            val_names = {n.id for n in ast.walk(st.value) if isinstance(n, ast.Name)}
            from_obj = any(isinstance(n, ast.Attribute) and norm(n).startswith("obj.dtype") for n in ast.walk(st.value))
            if from_obj or (val_names & derived):
                for t in st.targets:
                    for x in ast.walk(t):
                        if isinstance(x, ast.Name) and x.id not in derived and x.id != "_":
                            derived.add(x.id)
                            changed = True
    return derived


# ------------------------------------------------------------------------ C03.3
def check_comparison(ctx):
    m = ctx.model
    f = m.func("_array_types._MetaAbstractArray.__instancecheck_str__")
    ctx.saw(f)
    dnames = _dtype_name_vars(f)
    loops = [n for n in walk_scope(f.node) if isinstance(n, ast.For) and isinstance(n.iter, ast.Attribute) and n.iter.attr == "dtypes"]
    any_call = None
    if not loops:
        # second spelling: `any(<predicate>(d) for d in cls.dtypes)` with a local predicate
        for c_ in [x for x in walk_scope(f.node) if isinstance(x, ast.Call) and isinstance(x.func, ast.Name) and x.func.id == "any" and len(x.args) == 1
                   and isinstance(x.args[0], (ast.GeneratorExp, ast.ListComp))]:
            ge = c_.args[0]
            if len(ge.generators) == 1 and isinstance(ge.generators[0].iter, ast.Attribute) and ge.generators[0].iter.attr == "dtypes" and not ge.generators[0].ifs \
                    and isinstance(ge.elt, ast.Call) and len(ge.elt.args) == 1 and isinstance(ge.elt.args[0], ast.Name) and isinstance(ge.generators[0].target, ast.Name) \
                    and ge.elt.args[0].id == ge.generators[0].target.id:
                t_ = m.resolve_call(f, ge.elt)
                if t_.kind == "func" and t_.target.params:
                    any_call = (c_, t_.target)
        if any_call is not None:
            return _check_comparison_any(ctx, m, f, any_call[0], any_call[1])
    _check_equality_only_for_strings(ctx, m, f)
    # the category an annotation accepts is its *own* `dtypes` (for a nested annotation: the intersection with the inner one); a table read
    # through the category class (`cls.dtype.<table>`) is the outer category's and ignores the intersection
    cls_p0 = f.params[0]
    for x in walk_scope(f.node):
        if isinstance(x, ast.Attribute) and isinstance(x.value, ast.Attribute) and x.value.attr == "dtype" and norm(x.value.value) == cls_p0 and not x.attr.startswith("__"):
            ctx.bad("C03.3", f, x, f"the dtype stage reads `{norm(x)}`: a table of the category class the annotation was written with, not the annotation's own `dtypes` -- a nested annotation "
                    "(`Inexact[Float32[A, 'n'], 'b']`) is narrowed to the intersection, which this table does not know", construct=f"dtype table of the outer category: {norm(x)}")
    if not loops:
        _check_names_compiled_to_regex(ctx, m, f)
    need(len(loops) == 1, "__instancecheck_str__: loop over cls.dtypes not found")
    lp = loops[0]
    var = lp.target.id
    arms = {}
    for st in ast.walk(lp):
        if isinstance(st, ast.If) and isinstance(st.test, ast.Compare) and norm(st.test.left) in (f"type({var})",) and isinstance(st.test.ops[0], (ast.Is, ast.Eq)):
            arms[norm(st.test.comparators[0])] = st
        elif isinstance(st, ast.If) and isinstance(st.test, ast.Call) and norm(st.test.func) == "isinstance" and norm(st.test.args[0]) == var:
            arms[norm(st.test.args[1])] = st
    if "str" not in arms:
        raise AnalysisError("C03.3: str arm of the dtype comparison not found")
    s_arm = arms["str"]
    cmp = [c for x in s_arm.body for c in ast.walk(x) if isinstance(c, ast.Compare)]
    ok = any(len(c.ops) == 1 and isinstance(c.ops[0], ast.Eq) and any({norm(c.left), norm(c.comparators[0])} == {dn_, var} for dn_ in dnames) for c in cmp)
    if not ok:
        got = [norm(c) for c in cmp] or [norm(x) for x in s_arm.body]
        ctx.bad("C03.3", f, s_arm.body[0], f"a string dtype specifier is not compared by equality with the array's dtype name (found `{'; '.join(got)}`): "
                "'float3' would match 'float32', or 'int8' would match 'uint8'")
    else:
        ctx.ok("C03.3", f.qualname, "str specifier: dtype == cls_dtype (exact match)")
    p_arm = arms.get("re.Pattern")
    if p_arm is None:
        ctx.bad("C03.3", f, lp, "regex dtype specifiers are no longer handled", construct="no re.Pattern arm")
    else:
        calls = [c for x in p_arm.body for c in ast.walk(x) if isinstance(c, ast.Call) and isinstance(c.func, ast.Attribute) and norm(c.func.value) == var]
        if any(c.func.attr in ("match", "fullmatch", "search") and len(c.args) == 1 and norm(c.args[0]) in dnames for c in calls):
            ctx.ok("C03.3", f.qualname, f"regex specifier: {norm(calls[0])}")
        else:
            ctx.bad("C03.3", f, p_arm.body[0], "a regex dtype specifier is not matched against the dtype name")
    # what happens after the loop, walked on the CFG for both values of the accumulator ("some specifier
    # matched"): a miss must end in a non-empty message before the shape stage, a hit must not
    from ..absim import eval_bool, simulate
    from ..roles import roles_for
    from ..typestate import NoReturn

    r = roles_for(m)
    g = NoReturn(m).cfg(f)
    hdr = next((n for n in g.live_nodes() if n.kind == "for" and n.ast is lp), None)
    need(hdr is not None, "C03.3: the dtype loop is not in the CFG")
    in_loop = {x.id for st in lp.body for a_ in ast.walk(st) if isinstance(a_, ast.Assign) for t in a_.targets for x in ast.walk(t) if isinstance(x, ast.Name)}
    inits = [st for st in walk_scope(f.node) if isinstance(st, ast.Assign) and len(st.targets) == 1 and isinstance(st.targets[0], ast.Name)
             and st.targets[0].id in in_loop and isinstance(st.value, ast.Constant) and isinstance(st.value.value, bool)
             and not any(st is y for b_ in lp.body for y in ast.walk(b_))]
    accs = {st.targets[0].id for st in inits}
    need(len(accs) == 1, f"C03.3: the 'some specifier matched' accumulator of the dtype loop was not recognised (candidates {sorted(accs)})")
    acc = accs.pop()
    if any(st.value.value is not False for st in inits):
        ctx.bad("C03.3", f, lp, f"{acc} is not initialised to False before the loop", construct="in_dtypes init")
    after = [s_ for k, s_ in hdr.succ if k == "done"]
    need(after, "C03.3: the dtype loop has no exit")

    def stage_end(n):
        if n.kind in ("return", "raise", "exit", "exit_e", "exit_b", "falloff"):
            return True
        return any(r.role_of_call(f, c) == "get_shape_memo" or (isinstance(c.func, ast.Attribute) and c.func.attr == "_check_shape") for c in node_calls(n))

    def unknown(e):
        return None

    for val, label in (("false", "miss"), ("true", "hit")):
        outs = simulate(g, after[0], stage_end, lambda n: eval_bool(n.ast, unknown), None, None, env0={acc: val})
        need(outs, "C03.3: nothing follows the dtype loop")
        for o in outs:
            rv = o.end.ast.value if o.end.kind == "return" else None
            rejecting = o.end.kind == "return" and (isinstance(rv, ast.JoinedStr) or (
                isinstance(rv, ast.Constant) and isinstance(rv.value, str) and rv.value != "") or (
                isinstance(rv, ast.Name) and o.env.get(rv.id) == "nonempty"))
            if o.end.kind == "return" and isinstance(rv, ast.Name) and o.env.get(rv.id) not in ("empty", "nonempty"):
                raise AnalysisError(f"C03.3: cannot tell what `{norm(o.end.ast)}` returns after the dtype loop")
            if val == "false" and not rejecting:
                ctx.bad("C03.3", f, o.end.ast if o.end.ast is not None else lp, "a dtype mismatch does not return a non-empty message (the check would accept)")
                break
            if val == "true" and rejecting:
                ctx.bad("C03.3", f, o.end.ast, "a dtype that matches one of the category's specifiers is rejected all the same")
                break
        else:
            ctx.ok("C03.3", f.qualname, "dtype miss returns a non-empty message (reject)" if val == "false" else "dtype hit goes on to the shape stage")
    # the sentinel guard: for the any-dtype category the loop is never reached
    def sentinel_atom(e):
        t = norm(e)
        if isinstance(e, ast.Compare) and len(e.ops) == 1 and isinstance(e.ops[0], (ast.Is, ast.IsNot)) and "_any_dtype" in t and "dtypes" in t:
            return isinstance(e.ops[0], ast.Is)
        return None

    outs = simulate(g, g.entry, lambda n: n is hdr or n.kind in ("return", "raise", "exit", "exit_e", "exit_b", "falloff"),
                    lambda n: eval_bool(n.ast, sentinel_atom), None, None)
    if any(o.end is hdr for o in outs):
        ctx.bad("C03.3", f, lp, "the dtype loop is not guarded by the any-dtype sentinel test", construct="sentinel guard")
    else:
        ctx.ok("C03.3", f.qualname, "dtype test skipped only for the any-dtype sentinel")


def _check_equality_only_for_strings(ctx, m, f):
    """An entry of `cls.dtypes` is a name *or a compiled regex*: `dtype == entry` is only meaningful under the test that the entry is a
    string.  A fast path that compares the one entry of a single-entry category by equality (`(d,) = cls.dtypes; if dtype != d`) makes a
    category that consists of one regex reject every array."""
    cls_p = f.params[0]
    elems = set()
    for n in walk_scope(f.node):
        if isinstance(n, ast.For) and norm(n.iter) == f"{cls_p}.dtypes" and isinstance(n.target, ast.Name):
            elems.add(n.target.id)
        if isinstance(n, ast.Assign) and norm(n.value) == f"{cls_p}.dtypes" and isinstance(n.targets[0], (ast.Tuple, ast.List)):
            elems |= {e.id for e in n.targets[0].elts if isinstance(e, ast.Name)}
        if isinstance(n, ast.Assign) and isinstance(n.value, ast.Subscript) and norm(n.value.value) == f"{cls_p}.dtypes" and isinstance(n.targets[0], ast.Name):
            elems.add(n.targets[0].id)
    parents = {}
    for p_ in ast.walk(f.node):
        for c_ in ast.iter_child_nodes(p_):
            parents[id(c_)] = p_
    n_cmp = 0
    for c in walk_scope(f.node):
        if not (isinstance(c, ast.Compare) and len(c.ops) == 1 and isinstance(c.ops[0], (ast.Eq, ast.NotEq))):
            continue
        sides = [c.left, c.comparators[0]]
        ent = next((x for x in sides if (isinstance(x, ast.Name) and x.id in elems) or (isinstance(x, ast.Subscript) and norm(x.value) == f"{cls_p}.dtypes")), None)
        other = next((x for x in sides if x is not ent), None)
        if ent is None or not (isinstance(other, ast.Name) and other.id == "dtype"):
            continue
        n_cmp += 1
        guarded = False
        q = c
        while id(q) in parents:
            par = parents[id(q)]
            if isinstance(par, ast.If) and any(q is y for y in par.body):
                t_ = norm(par.test)
                if t_ in (f"type({norm(ent)}) is str", f"isinstance({norm(ent)}, str)", f"type({norm(ent)}) == str"):
                    guarded = True
            if isinstance(par, ast.If) and any(q is y for y in par.orelse):
                t_ = norm(par.test)
                if t_ in (f"type({norm(ent)}) is not str", f"not isinstance({norm(ent)}, str)", f"type({norm(ent)}) != str"):
                    guarded = True
            if isinstance(par, ast.BoolOp) and isinstance(par.op, ast.And) and any(norm(v_) in (f"type({norm(ent)}) is str", f"isinstance({norm(ent)}, str)") for v_ in par.values):
                guarded = True
            if isinstance(par, ast.IfExp) and q is par.body and norm(par.test) in (f"type({norm(ent)}) is str", f"isinstance({norm(ent)}, str)"):
                guarded = True
            q = par
        if not guarded:
            ctx.bad("C03.3", f, c, f"`{norm(c)}` compares the dtype name with an entry of `{cls_p}.dtypes` by equality without knowing that the entry is a string: an entry may be a "
                    "compiled regex (a user category `dtypes = re.compile(..)`), which never equals a name, so such a category rejects every array",
                    construct=f"unguarded equality with a dtypes entry: {norm(c)}")
    return n_cmp


def _check_names_compiled_to_regex(ctx, m, f):
    """No loop over `cls.dtypes` any more: if the check matches the dtype name against patterns kept in another attribute of the annotation,
    and that attribute is computed by `re.compile` of an alternation of the *plain names* without an end anchor, then `.match` / `.search`
    turned name equality into "starts with / contains a name of the category" ('float8_e4m3fn' accepts 'float8_e4m3fnuz').  A positive
    witness only: anything else falls through to the no-verdict of the caller."""
    cls_p = f.params[0]
    attrs = set()
    for lp_ in [n for n in walk_scope(f.node) if isinstance(n, ast.For) and isinstance(n.iter, ast.Attribute) and norm(n.iter.value) == cls_p and isinstance(n.target, ast.Name)]:
        for c in ast.walk(lp_):
            if isinstance(c, ast.Call) and isinstance(c.func, ast.Attribute) and c.func.attr in ("match", "search") and norm(c.func.value) == lp_.target.id:
                attrs.add((lp_.iter.attr, c.func.attr, lp_))
    for c in walk_scope(f.node):
        if isinstance(c, ast.Call) and isinstance(c.func, ast.Attribute) and c.func.attr in ("match", "search") and isinstance(c.func.value, ast.Attribute) and norm(c.func.value.value) == cls_p:
            attrs.add((c.func.value.attr, c.func.attr, c))
    for attr, how, where in sorted(attrs, key=lambda t: t[0]):
        for g_ in m.all_functions(include_typeguard=False):
            if g_.module.short != "_array_types":
                continue
            for rc in ast.walk(g_.node):
                if not (isinstance(rc, ast.Call) and norm(rc.func) in ("re.compile",) and rc.args):
                    continue
                pat = rc.args[0]
                joins = [j for j in ast.walk(pat) if isinstance(j, ast.Call) and isinstance(j.func, ast.Attribute) and j.func.attr == "join" and isinstance(j.func.value, ast.Constant) and j.func.value.value == "|"]
                if not joins:
                    continue
                lits = "".join(x.value for x in ast.walk(pat) if isinstance(x, ast.Constant) and isinstance(x.value, str))
                anchored = "$" in lits or "\\Z" in lits or "\\z" in lits
                # does the compiled alternation reach the attribute? (the function's result, or the attribute's own value, in _make_array's namespace)
                reaches = any(isinstance(k, ast.keyword) and k.arg == attr for k in ast.walk(m.func("_array_types._make_array").node)) or \
                    any(isinstance(t_, ast.Attribute) and t_.attr == attr and isinstance(t_.ctx, ast.Store) for t_ in ast.walk(g_.node))
                if reaches and not anchored:
                    ctx.bad("C03.3", f, where, f"the dtype name is matched with `.{how}` against `{cls_p}.{attr}`, which {g_.qualname} compiles from an alternation of the plain dtype names "
                            f"(`{short(rc, 50)}`) without an end anchor: equality became \"starts with a name of the category\" ('float8_e4m3fn' accepts 'float8_e4m3fnuz', "
                            "a user category 'q8' accepts 'q8_k')", construct=f"dtype names compiled to an unanchored alternation ({attr})")


def _check_comparison_any(ctx, m, f, call, pred):
    """`if not any(pred(d) for d in cls.dtypes): return <message>`: the predicate's arms, then the two
    outcomes of the any() walked on the CFG."""
    from ..absim import eval_bool, simulate
    from ..roles import roles_for
    from ..typestate import NoReturn

    var = pred.params[0]
    arms = {}
    for st in ast.walk(pred.node):
        if isinstance(st, ast.If) and isinstance(st.test, ast.Compare) and norm(st.test.left) == f"type({var})" and isinstance(st.test.ops[0], (ast.Is, ast.Eq)):
            arms[norm(st.test.comparators[0])] = st
        elif isinstance(st, ast.If) and isinstance(st.test, ast.Call) and norm(st.test.func) == "isinstance" and norm(st.test.args[0]) == var:
            arms[norm(st.test.args[1])] = st
    if "str" not in arms:
        raise AnalysisError("C03.3: str arm of the dtype comparison not found")
    s_arm = arms["str"]
    cmp = [c for x in s_arm.body for c in ast.walk(x) if isinstance(c, ast.Compare)]
    if any(len(c.ops) == 1 and isinstance(c.ops[0], ast.Eq) and {norm(c.left), norm(c.comparators[0])} == {"dtype", var} for c in cmp):
        ctx.ok("C03.3", pred.qualname, "str specifier: dtype == cls_dtype (exact match)")
    else:
        got = [norm(c) for c in cmp] or [norm(x) for x in s_arm.body]
        ctx.bad("C03.3", pred, s_arm.body[0], f"a string dtype specifier is not compared by equality with the array's dtype name (found `{'; '.join(got)}`): "
                "'float3' would match 'float32', or 'int8' would match 'uint8'")
    p_arm = arms.get("re.Pattern")
    if p_arm is None:
        ctx.bad("C03.3", pred, pred.node, "regex dtype specifiers are no longer handled", construct="no re.Pattern arm")
    else:
        calls = [c for x in p_arm.body for c in ast.walk(x) if isinstance(c, ast.Call) and isinstance(c.func, ast.Attribute) and norm(c.func.value) == var]
        if any(c.func.attr in ("match", "fullmatch", "search") and [norm(a) for a in c.args] == ["dtype"] for c in calls):
            ctx.ok("C03.3", pred.qualname, f"regex specifier: {norm(calls[0])}")
        else:
            ctx.bad("C03.3", pred, p_arm.body[0], "a regex dtype specifier is not matched against the dtype name")
    r = roles_for(m)
    g = NoReturn(m).cfg(f)
    tnodes = [n for n in g.live_nodes() if n.kind == "test" and any(x is call for x in ast.walk(n.ast))]
    need(len(tnodes) == 1, "C03.3: the test of `any(...)` over the dtypes is not a branch condition")

    def stage_end(n):
        if n.kind in ("return", "raise", "exit", "exit_e", "exit_b", "falloff"):
            return True
        return n is not tnodes[0] and any(r.role_of_call(f, c) == "get_shape_memo" or (isinstance(c.func, ast.Attribute) and c.func.attr == "_check_shape") for c in node_calls(n))

    for hit in (False, True):
        def atom(e, hit=hit):
            return hit if e is call else None
        outs = simulate(g, tnodes[0], stage_end, lambda n: eval_bool(n.ast, atom), None, None)
        for o in outs:
            rv = o.end.ast.value if o.end.kind == "return" else None
            rejecting = o.end.kind == "return" and (isinstance(rv, ast.JoinedStr) or (isinstance(rv, ast.Constant) and isinstance(rv.value, str) and rv.value != "") or (
                isinstance(rv, ast.Name) and o.env.get(rv.id) == "nonempty"))
            if not hit and not rejecting:
                ctx.bad("C03.3", f, o.end.ast if o.end.ast is not None else call, "a dtype mismatch does not return a non-empty message (the check would accept)")
                break
            if hit and rejecting:
                ctx.bad("C03.3", f, o.end.ast, "a dtype that matches one of the category's specifiers is rejected all the same")
                break
        else:
            ctx.ok("C03.3", f.qualname, "dtype hit goes on to the shape stage" if hit else "dtype miss returns a non-empty message (reject)")

    def sentinel_atom(e):
        t = norm(e)
        if isinstance(e, ast.Compare) and len(e.ops) == 1 and isinstance(e.ops[0], (ast.Is, ast.IsNot)) and "_any_dtype" in t and "dtypes" in t:
            return isinstance(e.ops[0], ast.Is)
        return None

    outs = simulate(g, g.entry, lambda n: n is tnodes[0] or n.kind in ("return", "raise", "exit", "exit_e", "exit_b", "falloff"),
                    lambda n: eval_bool(n.ast, sentinel_atom), None, None)
    if any(o.end is tnodes[0] for o in outs):
        ctx.bad("C03.3", f, call, "the dtype test is not guarded by the any-dtype sentinel test", construct="sentinel guard")
    else:
        ctx.ok("C03.3", f.qualname, "dtype test skipped only for the any-dtype sentinel")


# ------------------------------------------------------------------------ C03.4
def check_init_subclass(ctx):
    """Normalisation of a user category's `dtypes`, walked on the CFG for the abstract classes
    {str, re.Pattern, other iterable, any-dtype sentinel}: str/Pattern -> 1-tuple, other -> tuple(..),
    sentinel -> left alone; the result is stored back on the class."""
    from ..absim import eval_bool, simulate
    from ..typestate import NoReturn

    m = ctx.model
    c = m.cls("_array_types.AbstractDtype")
    f = need(c.methods.get("__init_subclass__"), "AbstractDtype.__init_subclass__ not found")
    ctx.saw(f)
    g = NoReturn(m).cfg(f)
    recv = f.params[0]
    # the variable(s) holding the declared dtypes: anything assigned from `<recv>.dtypes`
    src = set()
    for a in walk_scope(f.node):
        if isinstance(a, ast.Assign) and norm(a.value) == f"{recv}.dtypes":
            src |= {norm(t) for t in a.targets}
        if isinstance(a, ast.AnnAssign) and a.value is not None and norm(a.value) == f"{recv}.dtypes":
            src.add(norm(a.target))
    need(src, "C03.4: __init_subclass__ does not read the declared `dtypes`")

    def stop(n):
        return n.kind in ("return", "raise", "exit", "exit_e", "exit_b", "falloff")

    def event_of(n):
        a = n.ast
        if n.kind == "stmt" and isinstance(a, ast.Assign):
            return "set:" + "|".join(norm(t) for t in a.targets) + "=" + norm(a.value)
        if n.kind == "stmt" and isinstance(a, ast.AnnAssign) and a.value is not None:
            return "set:" + norm(a.target) + "=" + norm(a.value)
        return None

    bad = []
    for cls_ in ("str", "pattern", "other", "sentinel"):
        def atom(e, cls_=cls_):
            t = norm(e)
            if isinstance(e, ast.Call) and norm(e.func) == "isinstance" and norm(e.args[0]) in src:
                names = {norm(x) for x in (e.args[1].elts if isinstance(e.args[1], ast.Tuple) else [e.args[1]])}
                return (cls_ == "str" and "str" in names) or (cls_ == "pattern" and "re.Pattern" in names)
            if isinstance(e, ast.Compare) and len(e.ops) == 1 and isinstance(e.ops[0], (ast.Is, ast.IsNot)) and norm(e.left) in src and norm(e.comparators[0]) == "_any_dtype":
                v = cls_ == "sentinel"
                return v if isinstance(e.ops[0], ast.Is) else not v
            raise AnalysisError(f"C03.4: unrecognised condition `{t}` in __init_subclass__")
        outs = simulate(g, g.entry, stop, lambda n: eval_bool(n.ast, atom), None, event_of)
        for o in outs:
            env = {}
            stored = None
            for ev in o.events:
                lhs, rhs = ev[4:].split("=", 1)
                for tg in lhs.split("|"):
                    if tg == f"{recv}.dtypes":
                        stored = env.get(rhs, rhs)
                    else:
                        # substitute known locals once (value of the local at this point)
                        env[tg] = env.get(rhs, rhs) if rhs in env else rhs
            def shape(v):
                for s_ in src:
                    if v == f"({s_},)":
                        return "1-tuple"
                    if v == f"tuple({s_})":
                        return "tuple"
                    if v == s_ or v == f"{recv}.dtypes":
                        return "same"
                return v
            got = shape(stored) if stored is not None else "not stored"
            # resolve one more level: the stored name may alias the source through `x = src`
            want = {"str": "1-tuple", "pattern": "1-tuple", "other": "tuple", "sentinel": "same"}[cls_]
            if got != want:
                bad.append((cls_, got, want))
    if bad:
        for cls_, got, want in bad:
            what = {"str": "a single string", "pattern": "a single compiled regex", "other": "a list/tuple of specifiers", "sentinel": "the any-dtype sentinel"}[cls_]
            ctx.bad("C03.4", f, f.node, f"user category declared with {what}: `dtypes` ends up as `{got}` (expected {want}"
                    + ("; a string would be iterated character by character)" if cls_ == "str" else ")"), construct=f"__init_subclass__: {cls_} -> {got}")
    else:
        ctx.ok("C03.4", f.qualname, "str / re.Pattern -> 1-tuple; other iterables -> tuple(...); the any-dtype sentinel is left alone; stored back on the class")


# -------------------------------------------------------- extraction (shape only)
def check_name_extraction_shape(ctx):
    """The extraction ladder is value-level; only its shape is recorded: the dtype name that
    reaches the comparison is derived from obj.dtype and nothing else."""
    m = ctx.model
    f = m.func("_array_types._MetaAbstractArray.__instancecheck_str__")
    # names that hold something derived from obj.dtype (fixpoint over the assignments of the function:
    # robust against the extraction ladder living in a helper that was inlined back, renamed temporaries ...)
    assigns = [st for st in walk_scope(f.node) if isinstance(st, ast.Assign)]
    derived = set()
    changed = True
    while changed:
        changed = False
        for st in assigns:
            val_names = {n.id for n in ast.walk(st.value) if isinstance(n, ast.Name)}
            from_obj = any(isinstance(n, ast.Attribute) and norm(n).startswith("obj.dtype") for n in ast.walk(st.value))
            if from_obj or (val_names & derived):
                for t in st.targets:
                    for x in ast.walk(t):
                        if isinstance(x, ast.Name) and x.id not in derived:
                            derived.add(x.id)
                            changed = True
    # "is it a name already?" is asked with isinstance: a dtype that is a *subclass* of str (np.str_, a `class DType(str, Enum)` member of a
    # duck-typed array) is a name; an exact-type test sends it through repr() and no category entry equals `"<DType.float32: 'float32'>"`
    for t_ in walk_scope(f.node):
        if isinstance(t_, ast.Compare) and len(t_.ops) == 1 and isinstance(t_.ops[0], (ast.Is, ast.IsNot, ast.Eq, ast.NotEq)) and isinstance(t_.left, ast.Call) \
                and isinstance(t_.left.func, ast.Name) and t_.left.func.id == "type" and len(t_.left.args) == 1 and isinstance(t_.left.args[0], ast.Name) \
                and t_.left.args[0].id in (derived | {"dtype"}) and isinstance(t_.comparators[0], ast.Name) and t_.comparators[0].id == "str":
            ctx.bad("C03.3", f, t_, f"`{norm(t_)}` asks whether the extracted dtype is a name by its exact type: a `str` subclass (np.str_, a str-Enum member) is treated as \"not a name\" and "
                    "rendered with repr(), so an array carrying it is rejected by every category although the same name as a plain str (or carried by NumPy) is accepted",
                    construct=f"exact-type test on the dtype name: {norm(t_)}")
    defs = [st for st in assigns if any(isinstance(x, ast.Name) and x.id == "dtype" for t in st.targets for x in ast.walk(t))]
    ctx.counters["dtype_name_definitions"] = len(defs)
    for st in defs:
        val_names = {n.id for n in ast.walk(st.value) if isinstance(n, ast.Name)}
        from_obj = any(isinstance(n, ast.Attribute) and norm(n).startswith("obj.dtype") for n in ast.walk(st.value))
        helper_of_obj = isinstance(st.value, ast.Call) and m.resolve_call(f, st.value).kind == "func" and any(isinstance(a, ast.Name) and a.id == "obj" for a in st.value.args)
        if helper_of_obj:
            h = m.resolve_call(f, st.value).target
            hp = h.params[0] if h.params else "obj"
            if any(isinstance(n, ast.Attribute) and n.attr == "dtype" and isinstance(n.value, ast.Name) and n.value.id == hp for n in ast.walk(h.node)):
                ctx.ok("C03.3", f.qualname, f"dtype name derived from obj.dtype in the helper {h.name}")
            else:
                raise AnalysisError(f"C03.3: the dtype name comes from helper `{h.name}`, in which no read of `.dtype` was recognised")
        elif from_obj or (val_names & (derived | {"dtype"})):
            ctx.ok("C03.3", f.qualname, f"dtype name derived from obj.dtype: `{short(st, 70)}`")
        elif isinstance(st.value, ast.Constant):
            ctx.ok("C03.3", f.qualname, f"a constant dtype name: `{short(st, 70)}`")
        else:
            ctx.bad("C03.3", f, st, "the dtype name compared with the category is not derived from obj.dtype")


def check_extraction_sources(ctx):
    """C03.7 (precondition, no verdict of its own): which attributes of the array's dtype the name is read
    from is value-level knowledge about the backends (numpy: `.type.__name__`; tensorflow:
    `.as_numpy_dtype.__name__`; everything else: the dtype itself / its str / repr).  A name read from some
    other attribute (`.name`, `.kind`, ...) agrees with the categories for some dtypes and not for others
    (`datetime64[ns]`, `float32_ref`, `longlong`): that cannot be judged statically, so the check gives no
    verdict instead of passing."""
    m = ctx.model
    f = m.func("_array_types._MetaAbstractArray.__instancecheck_str__")
    known = {"type.__name__", "as_numpy_dtype.__name__", "type", "as_numpy_dtype", ""}
    aliases = {"obj.dtype"}
    for fn_ in region(m, f):
        for st in walk_scope(fn_.node):
            if isinstance(st, ast.Assign) and norm(st.value) in aliases:
                for t in st.targets:
                    if isinstance(t, ast.Name):
                        aliases.add(t.id)
    unknown = []
    n = 0
    for fn_ in region(m, f):
        for x in ast.walk(fn_.node):
            if isinstance(x, ast.Attribute) and isinstance(x.ctx, ast.Load):
                txt = norm(x)
                for al in aliases:
                    if txt.startswith(al + "."):
                        n += 1
                        rest = txt[len(al) + 1:]
                        if rest not in known and not any(k.startswith(rest + ".") for k in known):
                            unknown.append(x)
    ctx.counters["dtype_attribute_reads"] = n
    if unknown:
        raise AnalysisError(f"C03.7: the dtype name is (also) read from `{norm(unknown[0])}`, which is not one of the sources the rule knows "
                            "(.type.__name__, .as_numpy_dtype.__name__, str/repr of the dtype): whether every backend's dtypes still get their documented name is value-level")
    ctx.ok("C03.7", f.qualname, f"{n} reads of the array's dtype, all through .type.__name__ / .as_numpy_dtype.__name__ / the dtype itself")


def check_struct_dtype_everywhere(ctx, tag="C03.8"):
    """A structured NumPy dtype is named by `str(dtype)`, not by `dtype.type.__name__` (which is "void" for all of them):
    wherever the name is taken from `.type.__name__`, the struct special case (`_dtype_is_numpy_struct_array(dtype)` ->
    `str(dtype)`) must follow in the same branch -- whatever carries the dtype (an ndarray, a duck-typed wrapper, a
    `np.void` scalar).  A branch that takes `.type.__name__` without it calls every struct dtype "void": the dtype's own
    category rejects it and a category listing "void" accepts every struct."""
    m = ctx.model
    f = m.func("_array_types._MetaAbstractArray.__instancecheck_str__")
    n = 0
    for fn_ in region(m, f):
        blocks = []
        for x in ast.walk(fn_.node):
            for fld in ("body", "orelse", "finalbody"):
                b = getattr(x, fld, None)
                if isinstance(b, list) and b and isinstance(b[0], ast.stmt):
                    blocks.append((b, x, fld))
        for b, owner, fld in blocks:
            for i, st in enumerate(b):
                if isinstance(st, ast.Assign) and len(st.targets) == 1 and isinstance(st.targets[0], ast.Name) and norm(st.value).endswith(".type.__name__") and "dtype" in norm(st.value):
                    n += 1
                    var = st.targets[0].id
                    follow = b[i + 1:]
                    ok = any(isinstance(y, ast.If) and any(isinstance(c, ast.Call) and m.is_call_to(fn_, c, "_array_types._dtype_is_numpy_struct_array") for c in ast.walk(y.test))
                             and any(isinstance(a, ast.Assign) and any(isinstance(t, ast.Name) and t.id == var for t in a.targets) and "str(" in norm(a.value) for a in ast.walk(y))
                             for y in follow)
                    # ... or precedes it as a guard that leaves: `if <struct>(dtype): name = str(dtype); break / return / continue`
                    ok = ok or any(isinstance(y, ast.If) and any(isinstance(c, ast.Call) and m.is_call_to(fn_, c, "_array_types._dtype_is_numpy_struct_array") for c in ast.walk(y.test))
                                   and any((isinstance(a, ast.Assign) and any(isinstance(t, ast.Name) and t.id == var for t in a.targets) and "str(" in norm(a.value))
                                           or (isinstance(a, ast.Return) and a.value is not None and "str(" in norm(a.value)) for a in ast.walk(y))
                                   and y.body and isinstance(y.body[-1], (ast.Break, ast.Return, ast.Continue)) for y in b[:i])
                    # ... or this is the other side of the struct test itself: `if <struct>(dtype): name = str(dtype) else: name = ...type.__name__`
                    if not ok and isinstance(owner, ast.If):
                        def _is_struct(e):
                            return isinstance(e, ast.Call) and m.is_call_to(fn_, e, "_array_types._dtype_is_numpy_struct_array")
                        def _names_by_str(stmts):
                            return any(isinstance(a, ast.Assign) and any(isinstance(t, ast.Name) and t.id == var for t in a.targets) and "str(" in norm(a.value) for a in stmts)
                        if fld == "orelse" and _is_struct(owner.test) and _names_by_str(owner.body):
                            ok = True
                        elif fld == "body" and isinstance(owner.test, ast.UnaryOp) and isinstance(owner.test.op, ast.Not) and _is_struct(owner.test.operand) and _names_by_str(owner.orelse):
                            ok = True
                    if ok:
                        ctx.ok(tag, fn_.qualname, f"`{short(st, 50)}` is followed by the structured-dtype special case")
                    else:
                        ctx.bad(tag, fn_, st, f"`{short(st, 60)}` names the dtype by its scalar type without the structured-dtype special case in this branch: a structured dtype "
                                "carried by this kind of value is called \"void\"", construct=f"{short(st, 60)} without struct special case")
    ctx.counters["scalar_type_name_reads"] = n
    ctx.floor(tag, "scalar_type_name_reads", 1)


def check_last_dotted_component(ctx):
    """C03.6: a duck / torch-style dtype is named by the *last* dotted component of its repr
    (`torch.float32`, `mlx.core.float32` -> `float32`).  A split that keeps everything after the *first*
    dot (`split(".", 1)[-1]`, `partition(".")[2]`) gives `core.float32` for a dotted module path: every
    category but Shaped then rejects arrays of that backend."""
    m = ctx.model
    f = m.func("_array_types._MetaAbstractArray.__instancecheck_str__")
    n = 0
    for fn_ in region(m, f):
        for x in ast.walk(fn_.node):
            sel = None
            call = None
            if isinstance(x, ast.Subscript) and isinstance(x.value, ast.Call) and isinstance(x.value.func, ast.Attribute):
                call = x.value
                sl = x.slice
                if isinstance(sl, ast.UnaryOp) and isinstance(sl.op, ast.USub) and isinstance(sl.operand, ast.Constant):
                    sel = -sl.operand.value
                elif isinstance(sl, ast.Constant) and isinstance(sl.value, int):
                    sel = sl.value
            elif isinstance(x, ast.Assign) and isinstance(x.value, ast.Call) and isinstance(x.value.func, ast.Attribute) and isinstance(x.targets[0], (ast.Tuple, ast.List)):
                call = x.value
                elts = x.targets[0].elts
                if elts and isinstance(elts[0], ast.Starred) and len(elts) == 2:
                    sel = -1
                elif len(elts) == 2 and isinstance(elts[1], ast.Name) and not any(isinstance(e, ast.Starred) for e in elts):
                    sel = 1
                elif len(elts) == 3 and not any(isinstance(e, ast.Starred) for e in elts):
                    sel = 2
            if call is None or sel is None:
                continue
            meth = call.func.attr
            if meth not in ("split", "rsplit", "partition", "rpartition"):
                continue
            if not (call.args and isinstance(call.args[0], ast.Constant) and call.args[0].value == "."):
                continue
            if "dtype" not in norm(call.func.value):
                continue
            n += 1
            maxsplit = call.args[1].value if len(call.args) > 1 and isinstance(call.args[1], ast.Constant) else None
            takes_last = (meth == "rsplit" and sel in (-1, 1) and maxsplit == 1) or (meth in ("split", "rsplit") and maxsplit is None and sel == -1) \
                or (meth == "rpartition" and sel in (-1, 2))
            takes_rest_after_first = (meth == "split" and maxsplit == 1 and sel in (-1, 1)) or (meth == "partition" and sel in (-1, 2))
            if takes_last:
                ctx.ok("C03.6", fn_.qualname, f"`{short(x, 60)}`: the last dotted component of the dtype repr")
            elif takes_rest_after_first:
                ctx.bad("C03.6", fn_, x, f"`{short(x, 70)}` keeps everything after the *first* dot of the dtype repr: a backend whose dtypes live in a dotted module "
                        "path (`mlx.core.float32`) is named `core.float32` and rejected by every category; the name is the last dotted component")
            else:
                raise AnalysisError(f"C03.6: which component of the dotted dtype repr `{short(x, 60)}` selects was not recognised")
    ctx.counters["dotted_repr_selections"] = n


def check_no_memo_between_dtype_and_verdict(ctx):
    from ..callgraph import CallGraph
    from ..roles import roles_for
    from .c06 import check_no_memo_tables

    r = roles_for(ctx.model)
    check_no_memo_tables(ctx, r, CallGraph(ctx.model), "C03.5")


def check_no_prefix_regex_for_strings(ctx):
    """If string specifiers are turned into regular expressions (re.escape), the resulting
    pattern must be applied with fullmatch: `.match` / `.search` accept any dtype name that merely
    starts with / contains a specifier ('float8_e4m3fn' would accept 'float8_e4m3fnuz')."""
    from ..callgraph import CallGraph

    m = ctx.model
    cg = CallGraph(m)
    root = m.func("_array_types._MetaAbstractArray.__instancecheck_str__")
    pred = cg.reachable([root], follow_refs=False, dispatch=False)
    fs = [m.functions[q] for q in pred if q in m.functions and m.functions[q].module.short == "_array_types"]
    escapes = [(f, c) for f in fs for c in m.calls_in(f) if norm(c.func) == "re.escape"]
    if not escapes:
        ctx.ok("C03.3", root.qualname, "string specifiers are never converted into regular expressions")
        return
    for f in fs:
        for c in m.calls_in(f):
            if isinstance(c.func, ast.Attribute) and c.func.attr in ("match", "search") and not (isinstance(c.func.value, ast.Name) and c.func.value.id == "cls_dtype"):
                ctx.bad("C03.3", f, c, f"string dtype specifiers are compiled into a regular expression (re.escape in {escapes[0][0].name}) which is then applied with "
                        f"`.{c.func.attr}`: a dtype name that merely starts with a specifier is accepted ('float8_e4m3fn' accepts 'float8_e4m3fnuz', 'int8' accepts 'int8x'); "
                        "string specifiers must match exactly (== / fullmatch)")


# ------------------------------------------------------------------------ C03.9
def check_dtype_verdict_not_remembered(ctx):
    from . import c05

    """C03.9: whether an array's dtype is in the category is decided from that array's dtype on every check.  A dtype name or a
    verdict derived from it that the check stores on the annotation class / a module-level object ("last dtype seen" slots, per-class
    verdict caches filled at check time) is a second source of the answer: written by two statements, it can be read half-updated by
    another thread, and it outlives the array it was computed for."""
    m = ctx.model
    f = m.func("_array_types._MetaAbstractArray.__instancecheck_str__")
    ctx.saw(f)
    obj = f.params[1] if len(f.params) > 1 else "obj"
    cls = f.params[0]
    tainted = set()
    changed = True
    def is_tainted(e):
        for x in ast.walk(e):
            if isinstance(x, ast.Attribute) and x.attr == "dtype" and norm(x.value) == obj:
                return True
            if isinstance(x, ast.Name) and x.id in tainted:
                return True
        return False
    while changed:
        changed = False
        for st in walk_scope(f.node):
            if isinstance(st, ast.Assign) and is_tainted(st.value):
                for t in st.targets:
                    for x in ast.walk(t):
                        if isinstance(x, ast.Name) and isinstance(x.ctx, ast.Store) and x.id not in tainted:
                            tainted.add(x.id)
                            changed = True
            # a verdict variable set under a test of a tainted value (`in_dtypes = True` inside `if cls_dtype == dtype:`)
            if isinstance(st, (ast.If, ast.For, ast.While)) and is_tainted(st.test if not isinstance(st, ast.For) else st.iter):
                for sub in ast.walk(st):
                    if isinstance(sub, ast.Assign):
                        for t in sub.targets:
                            if isinstance(t, ast.Name) and t.id not in tainted:
                                tainted.add(t.id)
                                changed = True
    ctx.counters["dtype_derived_locals"] = len(tainted)
    ctx.floor("C03.9", "dtype_derived_locals", 2)
    n = 0
    for st in walk_scope(f.node):
        tgts = st.targets if isinstance(st, ast.Assign) else [st.target] if isinstance(st, (ast.AugAssign, ast.AnnAssign)) else []
        val = getattr(st, "value", None)
        for t in tgts:
            if not isinstance(t, (ast.Attribute, ast.Subscript)) or val is None:
                continue
            root = t
            while isinstance(root, (ast.Attribute, ast.Subscript)):
                root = root.value
            if not isinstance(root, ast.Name):
                continue
            shared = root.id == cls or m.resolve_name(f, root.id).kind == "modvar"
            if shared and isinstance(t, ast.Subscript) and isinstance(t.value, ast.Name):
                # a memo of the pure verdict function, keyed by *both* of its determinants -- the dtype name and the category (the class or its
                # dtypes tuple, as objects) -- can only ever answer what the loop would have answered: not a second source.  (Keys through
                # id() / str() / repr() / hash() are lossy: C20.7 / C13.9.)
                key = t.slice
                if isinstance(key, ast.Name):
                    ds_ = c05._assignments_to(f, key.id)
                    if len(ds_) == 1 and ds_[0][1] is not None and ds_[0][2] is None:
                        key = ds_[0][1]
                lossy = any(isinstance(x, ast.Call) and norm(x.func) in ("id", "str", "repr", "hash") for x in ast.walk(key))
                names_cat = any(isinstance(x, ast.Name) and x.id == cls for x in ast.walk(key))
                names_dtype = any(isinstance(x, ast.Name) and x.id in tainted for x in ast.walk(key))
                if names_cat and names_dtype and not lossy:
                    ctx.ok("C03.9", f.qualname, f"`{short(st, 50)}`: a memo keyed by the category and the dtype name themselves (a pure function of its key)")
                    continue
            if shared and (is_tainted(val) or (isinstance(t, ast.Subscript) and is_tainted(t.slice))):
                n += 1
                ctx.bad("C03.9", f, st, f"`{short(st, 60)}` remembers a dtype name / dtype verdict of the array being checked on "
                        f"{'the annotation class' if root.id == cls else 'the module-level `' + root.id + '`'}: the next check may be answered from it instead of from its own array's dtype "
                        "(a slot written by two statements can be read half-updated by another thread; a verdict for one dtype is handed to another)",
                        construct=f"dtype verdict remembered in {norm(t)}")
    if not n:
        ctx.ok("C03.9", f.qualname, f"none of the {len(tainted)} dtype-derived locals ({', '.join(sorted(tainted))}) is stored on the annotation class or a module-level object")
