"""C04 -- a failed or raising check binds nothing.

Decided structurally at every function that hands the live memo dicts of the current
context to a callee (role: names unpacked from get_shape_memo() passed on as arguments;
today the array check and the PyTree check):
  C04.1 rollback typestate on the CFG (incl. Exception and BaseException edges):
        clean --mutating call--> dirty --set_shape_memo(snapshots)--> restored.
        Both raising exits must not be dirty; a normal return that rejects (or whose
        verdict is not proven accepting by the branch facts on the path) must not be
        dirty; an accepting return must not have been restored.
  C04.2 the snapshots are fresh copies of the matching live memo, defined on nodes that
        dominate the mutating call; all four memos are snapshotted.
  C04.3 the order (single, variadic, pytree, arguments) agrees at get/unpack/restore
        sites and across internal calls (role of argument = role of parameter).
  C04.4 set_shape_memo writes the *top* of the stack, only when a context exists.
Not decided: idempotence of a passing check (value level; follows from C01.5).
"""
from __future__ import annotations

import ast

from ..cfg import Flow
from ..core import AnalysisError, RuleContext, need, norm, short
from ..model import walk_with_lambdas, dotted_of, FuncInfo, walk_scope
from ..roles import node_calls, node_eval_asts, roles_for
from ..typestate import NoReturn
from . import c05

EXPLANATION = __doc__

ROLE_WORDS = (("single", "single"), ("variadic", "variadic"), ("pytree", "pytree"), ("arg", "arguments"))
CANON = ["single", "variadic", "pytree", "arguments"]


def memo_role(name: str):
    n = name.lower()
    if "memo" not in n and n not in ("arguments",):
        return None
    for w, r in ROLE_WORDS:
        if w in n:
            return r
    return None


def run(ctx: RuleContext):
    m = ctx.model
    r = roles_for(m)
    sites = find_sites(ctx, r)
    ctx.counters["rollback_sites"] = len(sites)
    ctx.sub(ctx.floor, "C04.1", "rollback_sites", 2)
    for site in sites:
        ctx.sub(check_site, ctx, r, site)
    stack_tl, stack_attr, _ = c05.locate_stack(r)
    ctx.sub(c05._check_set, ctx, r, r.set, stack_tl, stack_attr, "C04.4", t3="C04.3", t4="C04.4")
    ctx.sub(check_slot_agreement, ctx, r)


class Site:
    def __init__(self, fn, unpack_stmt, live, tuple_var=None):
        self.fn = fn
        self.unpack = unpack_stmt
        self.live = live  # list of 4 names (None where a slot has no name of its own)
        self.tuple_var = tuple_var  # name of the variable holding the whole 4-tuple, if any


def _live_from_tuple_var(f, tv):
    """Names bound to slots of the tuple variable tv: `a, b, c, d = tv` / `x = tv[i]`."""
    live = [None, None, None, None]
    for n in walk_scope(f.node):
        if isinstance(n, ast.Assign) and isinstance(n.value, ast.Name) and n.value.id == tv and isinstance(n.targets[0], (ast.Tuple, ast.List)) and len(n.targets[0].elts) == 4:
            for i, e in enumerate(n.targets[0].elts):
                if isinstance(e, ast.Name) and e.id != "_":
                    live[i] = e.id
        if isinstance(n, ast.Assign) and isinstance(n.value, ast.Subscript) and isinstance(n.value.value, ast.Name) and n.value.value.id == tv \
                and isinstance(n.value.slice, ast.Constant) and isinstance(n.value.slice.value, int) and isinstance(n.targets[0], ast.Name):
            live[n.value.slice.value] = n.targets[0].id
    return live


def find_sites(ctx, r):
    m = ctx.model
    sites = []
    for f in m.all_functions(include_typeguard=False):
        if f.module.short == "_storage":
            continue
        for n in walk_scope(f.node):
            if isinstance(n, ast.Assign) and isinstance(n.value, ast.Call) and r.role_of_call(f, n.value) == "get_shape_memo":
                t = n.targets[0]
                if isinstance(t, (ast.Tuple, ast.List)) and len(t.elts) == 4 and all(isinstance(e, ast.Name) for e in t.elts):
                    live = [e.id if e.id != "_" else None for e in t.elts]
                    if _mutators(f, [x for x in live if x], r):
                        sites.append(Site(f, n, live))
                elif isinstance(t, ast.Name):
                    live = _live_from_tuple_var(f, t.id)
                    names = [x for x in live if x] + [t.id]
                    if _mutators(f, names, r):
                        sites.append(Site(f, n, live, tuple_var=t.id))
    return sites


def _is_copy_call(c: ast.Call, live) -> bool:
    return c05._is_copy_of(c, set(live))


PURE_BUILTINS = {"dict", "tuple", "list", "len", "zip", "map", "isinstance", "repr", "str", "sorted", "set", "frozenset", "bool", "id",
                 "enumerate", "iter", "type", "print", "any", "all", "copy.copy", "copy.deepcopy"}
READ_METHODS = {"copy", "get", "items", "keys", "values", "__contains__", "__getitem__", "__len__"}


def param_write_summary(m, h, pname: str, depth: int = 0) -> str:
    """Does function h write the object(s) it receives in parameter `pname` (a memo dict or a
    tuple of memo dicts)?  'writes' | 'pure' | 'unknown'."""
    if depth > 3:
        return "unknown"
    derived = {pname}
    changed = True
    while changed:
        changed = False
        for n in walk_scope(h.node):
            srcs, tgts = [], []
            if isinstance(n, ast.Assign):
                srcs, tgts = [n.value], n.targets
            elif isinstance(n, (ast.For, ast.comprehension)):
                srcs, tgts = [n.iter], [n.target]
            for sv in srcs:
                base = sv
                if isinstance(base, ast.Subscript):
                    base = base.value
                roots = set()
                if isinstance(base, ast.Name):
                    roots.add(base.id)
                elif isinstance(base, ast.Call) and isinstance(base.func, ast.Name) and base.func.id in ("zip", "enumerate", "reversed", "iter"):
                    roots |= {a.id for a in base.args if isinstance(a, ast.Name)}
                if roots & derived:
                    for t in tgts:
                        for x in ast.walk(t):
                            if isinstance(x, ast.Name) and x.id not in derived:
                                derived.add(x.id)
                                changed = True
    verdict = "pure"
    for n in walk_with_lambdas(h.node):
        if isinstance(n, ast.Subscript) and isinstance(n.ctx, (ast.Store, ast.Del)) and isinstance(n.value, ast.Name) and n.value.id in derived:
            return "writes"
        if isinstance(n, ast.Call):
            fnc = n.func
            if isinstance(fnc, ast.Attribute) and isinstance(fnc.value, ast.Name) and fnc.value.id in derived:
                if fnc.attr in MUTATOR_METHODS:
                    return "writes"
                if fnc.attr not in READ_METHODS:
                    verdict = "unknown"
                continue
            passed = [(i, a.id) for i, a in enumerate(n.args) if isinstance(a, ast.Name) and a.id in derived]
            passed_kw = [(k.arg, k.value.id) for k in n.keywords if isinstance(k.value, ast.Name) and k.value.id in derived]
            starred = any(isinstance(a, ast.Starred) and isinstance(a.value, ast.Name) and a.value.id in derived for a in n.args)
            if not passed and not passed_kw and not starred:
                continue
            d = dotted_of(fnc)
            if d in PURE_BUILTINS:
                continue
            t = m.resolve_call(h, n)
            if t.kind == "func" and not starred:
                callee = t.target
                ps = list(callee.params)
                off = 1 if (callee.cls is not None and ps and isinstance(fnc, ast.Attribute) and not _static(callee)) else 0
                for i, _nm in passed:
                    if i + off < len(ps):
                        sub = param_write_summary(m, callee, ps[i + off], depth + 1)
                        if sub == "writes":
                            return "writes"
                        if sub == "unknown":
                            verdict = "unknown"
                    else:
                        verdict = "unknown"
                for kw, _nm in passed_kw:
                    if kw in ps:
                        sub = param_write_summary(m, callee, kw, depth + 1)
                        if sub == "writes":
                            return "writes"
                        if sub == "unknown":
                            verdict = "unknown"
                    else:
                        verdict = "unknown"
            else:
                verdict = "unknown"
    return verdict


def _static(fn) -> bool:
    return any(isinstance(d, ast.Name) and d.id == "staticmethod" for d in fn.decorators)


MUTATOR_METHODS = {"append", "insert", "pop", "remove", "clear", "extend", "update", "setdefault", "add", "discard", "popitem",
                   "__setitem__", "__delitem__"}


_CG_CACHE: dict = {}


def _cg(m):
    from ..callgraph import CallGraph

    g = _CG_CACHE.get(id(m))
    if g is None or g.m is not m:
        _CG_CACHE.clear()
        g = _CG_CACHE[id(m)] = CallGraph(m)
    return g


def _runs_leaf_checks(r, f, call) -> bool:
    """Does this call run a *local* type-checking predicate of f (a nested def, or a local aliasing one)
    that goes through a typechecker into `isinstance` and so into the array / PyTree __instancecheck__?"""
    m = r.m
    if not isinstance(call.func, ast.Name):
        return False
    cands = []
    seen = set()
    work = [call.func.id]
    while work:
        nm = work.pop()
        if nm in seen:
            continue
        seen.add(nm)
        if nm in f.nested:
            cands.append(f.nested[nm])
        for n_ in walk_scope(f.node):
            if isinstance(n_, (ast.FunctionDef,)) and n_.name == nm and id(n_) in m.func_of_node:
                cands.append(m.func_of_node[id(n_)])
            if isinstance(n_, ast.Assign) and isinstance(n_.value, ast.Name) and any(isinstance(t, ast.Name) and t.id == nm for t in n_.targets):
                work.append(n_.value.id)
    if not cands:
        return False
    # definite only: the predicate (or a local function it calls) is, or calls, a function wrapped by a
    # typechecker decorator (`@typechecked def accepts_leaftype(x: <leaf type>)`); a mere call-out to an
    # unknown callable is not taken for a leaf check
    def is_typechecked(g_):
        return any("typechecked" in norm(d) or "typechecker" in norm(d) or "beartype" in norm(d) for d in g_.decorators)

    seen_f = set()
    work_f = list(cands)
    while work_f:
        g_ = work_f.pop()
        if g_.qualname in seen_f:
            continue
        seen_f.add(g_.qualname)
        if is_typechecked(g_):
            return True
        for c_ in m.calls_in(g_):
            t_ = m.resolve_call(g_, c_)
            if t_.kind == "func" and (t_.target.parent is f or t_.target.parent is g_):
                work_f.append(t_.target)
    return False


def _mutators(f, live, r, assumed=None):
    """Calls in f that receive a live memo (other than copies and the restore call), plus direct
    stores into a live memo.  A call of an internal helper counts when the helper (transitively)
    writes what it receives; helpers that provably only read are not mutators; callees whose
    effect cannot be determined are mutators too but are also appended to `assumed`."""
    out = []
    for n in walk_scope(f.node):
        if isinstance(n, ast.Call):
            if _is_copy_call(n, live):
                continue
            role = r.role_of_call(f, n)
            if role in ("set_shape_memo", "get_shape_memo", "shape_str"):
                continue
            if len(n.args) == 1 and isinstance(n.args[0], ast.Name) and n.args[0].id in live and _helper_copies_each(r.m, f, n):
                continue  # a helper that only snapshots the memos
            def _nm(a):
                # a live memo named directly, or as a slot of the live tuple (`memos[2]`)
                if isinstance(a, ast.Name):
                    return a.id
                if isinstance(a, ast.Subscript) and isinstance(a.value, ast.Name) and isinstance(a.slice, ast.Constant) and isinstance(a.slice.value, int):
                    return a.value.id
                return None

            names = [_nm(a) for a in n.args if _nm(a)] + [_nm(k.value) for k in n.keywords if _nm(k.value)]
            if not any(x in live for x in names) and _runs_leaf_checks(r, f, n):
                # a local predicate / internal function that runs leaf type checks (typeguard -> isinstance ->
                # array __instancecheck__): it binds axes in the current context although no memo is handed to it
                out.append(n)
                continue
            if any(x in live for x in names):
                t = r.m.resolve_call(f, n)
                if dotted_of(n.func) in PURE_BUILTINS:
                    continue
                if t.kind == "class":
                    init = r.m.lookup_method(t.target, "__init__")
                    if init is not None:
                        t = type(t)("func", init, "__init__")
                        t.is_ctor = True
                if t.kind == "func":
                    callee = t.target
                    ps = list(callee.params)
                    off = 1 if (getattr(t, "is_ctor", False) or (callee.cls is not None and ps and isinstance(n.func, ast.Attribute) and not _static(callee))) else 0
                    verdicts = []
                    for i, a in enumerate(n.args):
                        if _nm(a) in live:
                            verdicts.append(param_write_summary(r.m, callee, ps[i + off]) if i + off < len(ps) else "unknown")
                    for k in n.keywords:
                        if _nm(k.value) in live:
                            verdicts.append(param_write_summary(r.m, callee, k.arg) if k.arg in ps else "unknown")
                    if "writes" in verdicts:
                        out.append(n)
                    elif "unknown" in verdicts:
                        out.append(n)
                        if assumed is not None:
                            assumed.append(n)
                    continue
                out.append(n)
                if assumed is not None:
                    assumed.append(n)
            elif isinstance(n.func, ast.Attribute) and isinstance(n.func.value, ast.Name) and n.func.value.id in live:
                if n.func.attr in r.MUTATORS:
                    out.append(n)
        elif isinstance(n, ast.Subscript) and isinstance(n.ctx, (ast.Store, ast.Del)):
            if isinstance(n.value, ast.Name) and n.value.id in live:
                out.append(n)
    return out


RESULT_OK_FIELDS = {"ok", "passed", "success", "matched", "accepted", "matches", "is_ok"}
RESULT_MSG_FIELDS = {"message", "msg", "error", "reason", "failure", "why"}


def _result_fact(test, truth, resvars):
    """Translate a branch outcome into (var, 'accept'|'reject') if the test is about a
    result variable of the mutating call; None if unrelated; raise if unrecognised."""
    t = test
    neg = False
    while isinstance(t, ast.UnaryOp) and isinstance(t.op, ast.Not):
        neg = not neg
        t = t.operand
    mentioned = {n.id for n in ast.walk(test) if isinstance(n, ast.Name)} & set(resvars)
    if not mentioned:
        return None
    val = truth != neg
    # a small result record: `res.ok` / `res.passed` (truthy = accept), `res.message` / `res.error` (truthy = reject)
    if isinstance(t, ast.Attribute) and isinstance(t.value, ast.Name) and t.value.id in resvars:
        if t.attr in RESULT_OK_FIELDS:
            return (t.value.id, "accept" if val else "reject")
        if t.attr in RESULT_MSG_FIELDS:
            return (t.value.id, "reject" if val else "accept")
        return None
    if isinstance(t, ast.Compare) and len(t.ops) == 1 and isinstance(t.left, ast.Attribute) and isinstance(t.left.value, ast.Name) and t.left.value.id in resvars \
            and t.left.attr in RESULT_MSG_FIELDS and isinstance(t.comparators[0], ast.Constant) and t.comparators[0].value == "" and isinstance(t.ops[0], (ast.Eq, ast.NotEq)):
        eq = isinstance(t.ops[0], ast.Eq)
        return (t.left.value.id, "accept" if (val == eq) else "reject")
    if isinstance(t, ast.Name) and t.id in resvars:
        kind = resvars[t.id]
        # bool convention: truthy = accept.  str convention: truthy (non-empty) = reject
        return (t.id, ("accept" if val else "reject") if kind == "bool" else ("reject" if val else "accept"))
    if isinstance(t, ast.Compare) and len(t.ops) == 1 and isinstance(t.left, ast.Name) and t.left.id in resvars:
        c = t.comparators[0]
        op = t.ops[0]
        if isinstance(c, ast.Constant):
            if c.value == "" and isinstance(op, (ast.Eq, ast.NotEq)):
                eq = isinstance(op, ast.Eq)
                return (t.left.id, "accept" if (val == eq) else "reject")
            if c.value in (True, False) and isinstance(op, (ast.Is, ast.IsNot, ast.Eq, ast.NotEq)):
                pos = isinstance(op, (ast.Is, ast.Eq))
                is_true = (val == pos) == bool(c.value)
                return (t.left.id, "accept" if is_true else "reject")
    if (isinstance(t, ast.Compare) and len(t.ops) == 1 and isinstance(t.left, ast.Call) and isinstance(t.left.func, ast.Name)
            and t.left.func.id == "len" and isinstance(t.left.args[0], ast.Name) and t.left.args[0].id in resvars
            and isinstance(t.comparators[0], ast.Constant) and t.comparators[0].value == 0):
        op = t.ops[0]
        if isinstance(op, (ast.Eq, ast.NotEq)):
            eq = isinstance(op, ast.Eq)
            return (t.left.args[0].id, "accept" if (val == eq) else "reject")
        if isinstance(op, ast.Gt):
            return (t.left.args[0].id, "reject" if val else "accept")
    # a test of the result in a form we do not interpret: no fact is learnt (the verdict of
    # a later `return <result>` stays 'unknown', which is judged conservatively)
    return None


def _verdict_of_return(ret: ast.Return, facts: dict, resvars, convention):
    """'accept' | 'reject' | 'unknown' for a return statement under path facts."""
    v = ret.value
    if v is None:
        return "reject" if convention == "bool" else "unknown"
    if isinstance(v, ast.Constant):
        if convention == "bool":
            return "accept" if v.value else "reject"
        return "accept" if v.value == "" else "reject"
    if isinstance(v, ast.JoinedStr):
        return "reject"
    if isinstance(v, ast.Name) and v.id in resvars:
        return facts.get(v.id, "unknown")
    if isinstance(v, ast.Attribute) and isinstance(v.value, ast.Name) and v.value.id in resvars and v.attr in RESULT_OK_FIELDS | RESULT_MSG_FIELDS:
        return facts.get(v.value.id, "unknown")  # `return res.message` / `return res.ok`: the verdict the record carries
    return "unknown"


NORMAL_KINDS = ("n", "t", "f", "loop", "done", "ret", "brk", "cont", "caught", "fall")


def _contains_restore(m, r, h, depth=0, seen=None) -> bool:
    """Does the region of h (h and internal callees, bounded) contain a call with the restore role?"""
    seen = seen if seen is not None else set()
    if h.qualname in seen or depth > 3:
        return False
    seen.add(h.qualname)
    for c_ in f_calls(h):
        if r.role_of_call(h, c_) == "set_shape_memo":
            return True
        t = m.resolve_call(h, c_)
        if t.kind == "func" and not _is_storage_primitive(r, t.target) and _contains_restore(m, r, t.target, depth + 1, seen):
            return True
    return False


def _is_storage_primitive(r, fn) -> bool:
    """The role functions themselves (push/pop/get/set and what they delegate to) are not 'helpers that
    restore': calls of them are recognised by role."""
    prim = getattr(r, "_prim_cache", None)
    if prim is None:
        prim = set()
        for role in ("push", "pop", "get", "set"):
            try:
                f0 = getattr(r, role)
            except AnalysisError:
                continue
            prim.add(f0.qualname)
            prim.add(c05.follow_delegate(r.m, f0).qualname)
        r._prim_cache = prim
    return fn.qualname in prim


def restore_summary(m, r, h, depth=0) -> str:
    """'always': every normal return of helper h has passed a restore; 'never': its region contains
    no restore; 'sometimes' otherwise."""
    if not _contains_restore(m, r, h):
        return "never"
    if depth > 2:
        return "sometimes"
    g = NoReturn(m).cfg(h)
    rnodes = set()
    for n in g.live_nodes():
        for c_ in node_calls(n):
            if r.role_of_call(h, c_) == "set_shape_memo":
                rnodes.add(n.id)
            else:
                t = m.resolve_call(h, c_)
                if t.kind == "func" and t.target is not h and not _is_storage_primitive(r, t.target) and restore_summary(m, r, t.target, depth + 1) == "always":
                    rnodes.add(n.id)

    def transfer(node, st, kind, succ):
        if node.id in rnodes and kind in NORMAL_KINDS:
            return (True,)
        return (st,)

    fl = Flow(g, False, transfer)
    outs = set(fl.states_at(g.exit))
    if outs == {True}:
        return "always"
    return "sometimes"


def cm_restore_summary(m, r, f, expr):
    """For the context expression of a `with`: does leaving the block restore the bindings?
    Returns None when the manager has nothing to do with the restore role, else a dict
    {'exc': True|False|None, 'normal': True|False|None, 'fn': <function holding the restore>}."""
    # generator-based: @contextmanager def h(...): ... yield ... 
    if isinstance(expr, ast.Call):
        t = m.resolve_call(f, expr)
        if t.kind == "func" and any(isinstance(n, (ast.Yield, ast.YieldFrom)) for n in walk_scope(t.target.node)) \
                and any("contextmanager" in norm(d) for d in t.target.decorators):
            h = t.target
            if not _contains_restore(m, r, h):
                return None
            g = NoReturn(m).cfg(h)
            ynodes = {n.id for n in g.live_nodes() if n.ast is not None and n.kind in ("stmt",) and any(isinstance(x, ast.Yield) for x in ast.walk(n.ast))}
            if len(ynodes) != 1:
                return {"exc": None, "normal": None, "fn": h}
            rnodes = {n.id for n in g.live_nodes() if any(r.role_of_call(h, c_) == "set_shape_memo" for c_ in node_calls(n))}

            raises = {"pre": False, "normal": False, "exc": False}

            def transfer(node, st, kind, succ):
                phase, restored = st
                if node.id in ynodes:
                    phase = "normal" if kind in NORMAL_KINDS else "exc"
                    return ((phase, False),)
                if kind not in NORMAL_KINDS and node.kind not in ("unwind", "dispatch", "finally"):
                    raises[phase] = True
                if node.id in rnodes:
                    restored = True
                return ((phase, restored),)

            fl = Flow(g, ("pre", False), transfer)
            res = {"exc": set(), "normal": set()}
            for ex in (g.exit, g.exit_e, g.exit_b):
                for phase, restored in fl.states_at(ex):
                    if phase in res:
                        res[phase].add(restored)
            pre_restores = any(n.id in rnodes for n in g.live_nodes()) and any(
                st[0] == "pre" and st[1] for ex in (g.exit, g.exit_e, g.exit_b) for st in fl.states_at(ex))
            out = {"fn": h}
            for k in ("exc", "normal"):
                out[k] = True if res[k] == {True} else False if res[k] in ({False}, set()) else None
            if pre_restores:
                out["exc"] = out["normal"] = None
            out["normal_raises"] = raises["normal"]
            return out
    # class-based: object of an evident internal class with __enter__/__exit__
    ic = m.instance_class(f, expr)
    if ic is not None:
        ex_ = m.lookup_method(ic, "__exit__")
        en_ = m.lookup_method(ic, "__enter__")
        if ex_ is None or en_ is None:
            return None
        if not _contains_restore(m, r, ex_) and not _contains_restore(m, r, en_):
            return None
        if _contains_restore(m, r, en_) or len(ex_.params) < 2:
            return {"exc": None, "normal": None, "fn": ex_}
        etype = ex_.params[1]
        g = NoReturn(m).cfg(ex_)
        rnodes = set()
        for n in g.live_nodes():
            for c_ in node_calls(n):
                if r.role_of_call(ex_, c_) == "set_shape_memo":
                    rnodes.add(n.id)
                else:
                    t = m.resolve_call(ex_, c_)
                    if t.kind == "func" and not _is_storage_primitive(r, t.target) and restore_summary(m, r, t.target) == "always":
                        rnodes.add(n.id)
                    elif t.kind == "func" and not _is_storage_primitive(r, t.target) and restore_summary(m, r, t.target) == "sometimes":
                        return {"exc": None, "normal": None, "fn": ex_}

        def case_of(test, truth):
            t = test
            pol = truth
            while isinstance(t, ast.UnaryOp) and isinstance(t.op, ast.Not):
                pol = not pol
                t = t.operand
            if isinstance(t, ast.Name) and t.id == etype:
                return "exc" if pol else "normal"
            if isinstance(t, ast.Compare) and len(t.ops) == 1 and isinstance(t.left, ast.Name) and t.left.id == etype \
                    and isinstance(t.comparators[0], ast.Constant) and t.comparators[0].value is None:
                if isinstance(t.ops[0], ast.IsNot):
                    return "exc" if pol else "normal"
                if isinstance(t.ops[0], ast.Is):
                    return "normal" if pol else "exc"
            return None

        raises = {"?": False, "normal": False, "exc": False}

        def transfer(node, st, kind, succ):
            case, restored = st
            if node.kind in ("test", "while") and kind in ("t", "f"):
                c2 = case_of(node.ast, kind == "t")
                if c2 is not None:
                    if case != "?" and case != c2:
                        return ()
                    case = c2
            if kind not in NORMAL_KINDS and node.kind not in ("unwind", "dispatch", "finally"):
                raises[case] = True
            if node.id in rnodes and kind in NORMAL_KINDS:
                restored = True
            return ((case, restored),)

        fl = Flow(g, ("?", False), transfer)
        res = {"exc": set(), "normal": set()}
        for case, restored in fl.states_at(g.exit):
            for k in (("exc", "normal") if case == "?" else (case,)):
                res[k].add(restored)
        out = {"fn": ex_}
        for k in ("exc", "normal"):
            out[k] = True if res[k] == {True} else False if res[k] in ({False}, set()) else None
        out["normal_raises"] = raises["normal"] or raises["?"]
        return out
    return None


def _flag_link(v, resvars):
    """`flag = check == ""` / `flag = not check` / `flag = ok`: (result variable, verdict that makes the flag true), else None"""
    if isinstance(v, ast.Constant):
        return None
    try:
        return _result_fact(v, True, resvars)
    except AnalysisError:
        return None


def _rollback_typestate(m, r, f, g, muts, restore_calls):
    """clean -> dirty (a call that writes the live memos) -> restored (set_shape_memo(<snapshots>)).
    Returns the findings as (args, kwargs) for ctx.bad, the number of product states, and which
    CFG nodes mutate."""
    found = []

    def _found(*a, **kw):
        found.append((a, kw))

    # result variables and their convention
    resvars = {}
    convention = "bool"
    for n in walk_scope(f.node):
        if isinstance(n, ast.Return) and isinstance(n.value, (ast.JoinedStr,)):
            convention = "str"
        if isinstance(n, ast.Return) and isinstance(n.value, ast.Constant) and isinstance(n.value.value, str):
            convention = "str"
    mut_ids = {id(c) for c in muts}
    for n in walk_scope(f.node):
        if isinstance(n, ast.Assign) and id(n.value) in mut_ids:
            for t in n.targets:
                if isinstance(t, ast.Name):
                    resvars[t.id] = convention

    # plain boolean flags (`armed = True` ... `armed = False` ... `if armed: restore`): locals that only ever hold a
    # bool constant; their value is tracked along the path so that the infeasible side of a test on them is pruned
    flagvars = {}
    for n in walk_scope(f.node):
        if isinstance(n, ast.Assign):
            for t in n.targets:
                for x in ast.walk(t):
                    if isinstance(x, ast.Name):
                        ok_ = len(n.targets) == 1 and isinstance(t, ast.Name) and ((isinstance(n.value, ast.Constant) and isinstance(n.value.value, bool))
                                                                                       or _flag_link(n.value, resvars) is not None)
                        flagvars[x.id] = flagvars.get(x.id, True) and ok_
        elif isinstance(n, (ast.AugAssign, ast.AnnAssign, ast.For, ast.With, ast.NamedExpr, ast.comprehension, ast.ExceptHandler)):
            for x in ast.walk(n.target if hasattr(n, "target") else n):
                if isinstance(x, ast.Name) and isinstance(getattr(x, "ctx", None), ast.Store):
                    flagvars[x.id] = False
    flagvars = {k for k, v in flagvars.items() if v and k not in resvars and k not in f.params}

    # per node classification
    node_mut, node_restore = {}, {}
    helper_restores = {}  # id(call) -> 'always' | 'sometimes'
    for c_ in f_calls(f):
        t_ = m.resolve_call(f, c_)
        if t_.kind == "func" and not _is_storage_primitive(r, t_.target) and t_.target is not f and r.role_of_call(f, c_) != "set_shape_memo":
            sm = restore_summary(m, r, t_.target)
            if sm != "never":
                helper_restores[id(c_)] = sm
    unmodelled = [c_ for c_ in f_calls(f) if helper_restores.get(id(c_)) == "sometimes"]
    # a local function / lambda of f that restores and is handed to something else (ExitStack.callback,
    # atexit-style registration, functools.partial ...) runs at a point the typestate does not see
    for nf in f.nested.values():
        if _contains_restore(m, r, nf):
            called = [c_ for c_ in f_calls(f) if isinstance(c_.func, ast.Name) and c_.func.id == nf.name]
            referenced = [x for x in walk_scope(f.node) if isinstance(x, ast.Name) and x.id == nf.name and isinstance(x.ctx, ast.Load)
                          and not any(x is c_.func for c_ in called)]
            if referenced:
                unmodelled.append(nf.node)
    for lam in [x for x in walk_scope(f.node) if isinstance(x, ast.Lambda)]:
        if any(isinstance(c_, ast.Call) and r.role_of_call(f, c_) == "set_shape_memo" for c_ in ast.walk(lam)):
            unmodelled.append(lam)
    for c_ in f_calls(f):
        # functools.partial(set_shape_memo, ...) and friends: the restore primitive passed as a value
        if any(isinstance(a_, ast.Name) and r.role_of_call(f, ast.Call(func=a_, args=[], keywords=[])) == "set_shape_memo" for a_ in c_.args):
            unmodelled.append(c_)
    cm_cache = {}
    quiet_exit = set()
    for n in g.live_nodes():
        asts = node_eval_asts(n)
        has_m = has_r = False
        for a in asts:
            for x in ast.walk(a):
                if id(x) in mut_ids:
                    has_m = True
                if isinstance(x, ast.Call) and any(x is c for c in restore_calls):
                    has_r = True
                if isinstance(x, ast.Call) and helper_restores.get(id(x)) == "always":
                    has_r = True
        if n.kind == "with_exit":
            key = id(n.ast)
            if key not in cm_cache:
                cm_cache[key] = cm_restore_summary(m, r, f, n.ast)
            sm = cm_cache[key]
            if sm is not None:
                cont = n.info.get("cont")
                if not (isinstance(cont, tuple) and cont and cont[0] == "exc") and sm.get("normal_raises") is False:
                    quiet_exit.add(n.id)  # this manager's exit code cannot raise when the block ended normally
                which = "exc" if (isinstance(cont, tuple) and cont and cont[0] == "exc") else "normal"
                if sm[which] is True:
                    has_r = True
                    has_m = False
                elif sm[which] is None:
                    unmodelled.append(n.ast)
        if n.kind == "with_enter":
            # evaluating the context expression (a constructor / generator call) is not a restore
            has_r = False
        node_mut[n.id], node_restore[n.id] = has_m, has_r

    NORMAL = ("n", "t", "f", "loop", "done", "ret", "brk", "cont", "caught")
    reads_result_only = set()
    for n in g.live_nodes():
        if n.kind not in ("test", "return", "stmt") or n.ast is None:
            continue
        asts_ = node_eval_asts(n)
        risky = [x for a_ in asts_ for x in ast.walk(a_) if isinstance(x, (ast.Call, ast.Subscript, ast.BinOp, ast.Await, ast.Yield, ast.YieldFrom, ast.FormattedValue,
                                                                            ast.ListComp, ast.SetComp, ast.DictComp, ast.GeneratorExp, ast.Starred))]
        attrs = [x for a_ in asts_ for x in ast.walk(a_) if isinstance(x, ast.Attribute)]
        if not risky and attrs and all(isinstance(x.value, ast.Name) and x.value.id in resvars and x.attr in RESULT_OK_FIELDS | RESULT_MSG_FIELDS for x in attrs):
            reads_result_only.add(n.id)

    def transfer(node, st, kind, succ):
        phase, facts = st
        fd = dict(facts)
        if node.id in quiet_exit and kind not in NORMAL:
            return ()
        if kind not in NORMAL and node.id in reads_result_only:
            return ()  # `if not res.ok:` -- reading a field of the check's own result record is not a modelled fault
        # assignments invalidate facts about the assigned variable (on the normal edge:
        # when the statement raises, the assignment did not happen)
        if node.kind == "stmt" and isinstance(node.ast, ast.Assign) and kind in NORMAL:
            for t in node.ast.targets:
                for x in ast.walk(t):
                    if isinstance(x, ast.Name) and x.id in fd:
                        del fd[x.id]
            v = node.ast.value
            lk = _flag_link(v, resvars)
            if lk is not None:
                for t in node.ast.targets:
                    if isinstance(t, ast.Name) and t.id in flagvars:
                        var_, verdict_ = lk
                        if fd.get(var_) in ("accept", "reject"):
                            fd[t.id] = "T" if fd[var_] == verdict_ else "F"
                        else:
                            fd[t.id] = f"link:{var_}:{verdict_}"  # the flag is true exactly when the check's result is `verdict_`
            if isinstance(v, ast.Constant):
                for t in node.ast.targets:
                    if isinstance(t, ast.Name) and t.id in flagvars:
                        fd[t.id] = "T" if v.value else "F"
                    if isinstance(t, ast.Name) and t.id in resvars:
                        if resvars[t.id] == "bool":
                            fd[t.id] = "accept" if v.value else "reject"
                        else:
                            fd[t.id] = "accept" if v.value == "" else "reject"
        if node.kind == "return" and kind in NORMAL:
            # the verdict is fixed when the return statement is evaluated; the phase is judged where the function is
            # actually left (a `finally` / `with` exit after the return may still restore)
            fd["__ret"] = f"{_verdict_of_return(node.ast, fd, resvars, convention)}@{node.id}"
        if node_mut[node.id]:
            phase = "dirty"  # also on the exceptional edges out of the mutating call
        if node_restore[node.id]:
            # post-state also on exceptional edges: set_shape_memo is verified trivial (C04.4)
            phase = "restored"
        if node.kind in ("test", "while") and kind in ("t", "f"):
            t_ = node.ast
            neg_ = False
            while isinstance(t_, ast.UnaryOp) and isinstance(t_.op, ast.Not):
                neg_ = not neg_
                t_ = t_.operand
            if isinstance(t_, ast.Name) and t_.id in flagvars and str(fd.get(t_.id, "")).startswith("link:"):
                _, var_, verdict_ = fd[t_.id].split(":")
                flag_true = (kind == "t") != neg_
                derived = verdict_ if flag_true else ("reject" if verdict_ == "accept" else "accept")
                if fd.get(var_) in ("accept", "reject") and fd[var_] != derived:
                    return ()
                fd[var_] = derived
                fd[t_.id] = "T" if flag_true else "F"
            elif isinstance(t_, ast.Name) and t_.id in flagvars and t_.id in fd:
                if ((fd[t_.id] == "T") != neg_) != (kind == "t"):
                    return ()  # the flag is known on this path: the other side is infeasible
            fact = _result_fact(node.ast, kind == "t", resvars)
            if fact is None and any(isinstance(x, ast.Name) and x.id in resvars for x in ast.walk(node.ast)):
                fd["__opaque"] = "1"  # the result was tested in a form the rule does not interpret: later verdicts are not 'either'
            if fact is not None:
                var, verdict = fact
                if var in fd and fd[var] != verdict:
                    return ()  # infeasible: contradicts an earlier test of the same result
                fd[var] = verdict
        return ((phase, tuple(sorted(fd.items()))),)

    fl = Flow(g, ("clean", ()), transfer)
    ok = True
    # raising exits
    for ex, label in ((g.exit_e, "an Exception"), (g.exit_b, "a BaseException (e.g. KeyboardInterrupt raised by user code run during the check)")):
        for stt in fl.states_at(ex):
            if stt[0] == "dirty":
                ok = False
                handler = _uncaught_handler_desc(fl, ex, stt)
                _found("C04.1", f, handler[0],
                        f"the check can be left by {label} with the bindings made so far still in the "
                        "context: no set_shape_memo(<snapshots>) on this path",
                        path=fl.witness(ex, stt), construct=handler[1])
                break
    # normal exits: the verdict recorded at the return statement against the phase at the exit
    seen_ret = set()
    for stt in fl.states_at(g.exit):
        phase, facts = stt
        rv = dict(facts).get("__ret")
        if rv is None:
            continue
        verdict, nid = rv.rsplit("@", 1)
        n = g.nodes[int(nid)]
        if (n.id, phase, verdict) in seen_ret:
            continue
        seen_ret.add((n.id, phase, verdict))
        if True:
            if phase == "dirty" and verdict == "unknown" and dict(facts).get("__opaque"):
                raise AnalysisError(f"{f.qualname}: `{short(n.ast, 50)}` is reached with the bindings of the check in place; whether it hands back an accepting or a "
                                    "rejecting verdict could not be determined (the result of the check is carried in a form the rule does not interpret)")
            if phase == "dirty" and verdict != "accept":
                ok = False
                _found("C04.1", f, n.ast,
                        f"a return that does not accept (verdict on this path: {verdict}) is reached with the "
                        "bindings of the failed check still in place (no restore)",
                        path=fl.witness(g.exit, stt))
            if phase == "restored" and verdict == "accept":
                ok = False
                _found("C04.1", f, n.ast, "an accepting return is reached after the bindings were rolled back: "
                        "a passing check would bind nothing", path=fl.witness(g.exit, stt))
    # fall off the end (implicit `return None`: a rejecting verdict)
    for k, p in g.falloff.pred:
        if g.falloff.id not in g.reachable:
            break
        for stt in fl.states_at(g.falloff):
            if stt[0] == "dirty":
                _found("C04.1", f, p.ast if p.ast is not None else f.node,
                        "the function can fall off its end (returning None) with bindings of the check in place")
                ok = False
    if found and unmodelled:
        raise AnalysisError(f"{f.qualname}: the restore is (also) reached through `{short(unmodelled[0], 60)}`, whose effect on each exit the rule "
                            "cannot summarise; paths that look unrestored may be restored there")
    _rollback_typestate.carriers = [(k, v) for k, v in cm_cache.items() if v is not None] + [("helper", c_) for c_ in f_calls(f) if helper_restores.get(id(c_)) == "always"]
    return found, fl.steps, node_mut


def check_site(ctx: RuleContext, r, site: Site):
    m = ctx.model
    f = site.fn
    ctx.saw(f)
    live = [x for x in site.live if x] + ([site.tuple_var] if site.tuple_var else [])
    assumed: list = []
    muts = _mutators(f, live, r, assumed)
    definite = [c for c in muts if not any(c is x for x in assumed)]
    g = NoReturn(m).cfg(f)
    st = g.stats()
    ctx.count("cfg_nodes", st["nodes"])
    ctx.count("cfg_edges", st["edges"])
    restore_calls = [c for c in f_calls(f) if r.role_of_call(f, c) == "set_shape_memo"]
    ctx.count("restore_call_sites", len(restore_calls))
    found, steps, node_mut = _rollback_typestate(m, r, f, g, definite, restore_calls)
    if assumed:
        found_all, steps, node_mut_all = _rollback_typestate(m, r, f, g, muts, restore_calls)
        if len(found_all) > len(found):
            # the extra paths are dirty only because a callee whose effect on the memos could not be
            # determined was assumed to write them: no verdict rather than an alarm
            for args, kw in found:
                ctx.bad(*args, **kw)
            raise AnalysisError(f"{f.qualname}: cannot determine whether `{short(assumed[0], 60)}` writes the live memos it receives "
                                f"({len(found_all) - len(found)} path(s) would violate the rollback rule if it does)")
        node_mut = node_mut_all
    for args, kw in found:
        ctx.bad(*args, **kw)
    if not found:
        ctx.ok("C04.1", f.qualname,
               f"rollback typestate holds on {steps} product states: raising exits clean, rejecting returns restored, accepting returns keep bindings")
    # ---- C04.2 snapshots
    dom = g.dominators()
    mut_nodes = [n for n in g.live_nodes() if node_mut[n.id]]
    need(mut_nodes, f"{f.qualname}: mutating call not found in CFG")
    carriers = getattr(_rollback_typestate, "carriers", [])
    if not restore_calls and carriers and not ctx.findings:
        _verify_carried_snapshots(ctx, m, r, f, site, g, dom, mut_nodes, carriers)
        return
    need(restore_calls, f"{f.qualname}: hands live memos to a callee but never calls set_shape_memo (C04.1 reports the paths)") if not ctx.findings else None
    slots = site.live
    for rc in restore_calls:
        if len(rc.args) == 1 and isinstance(rc.args[0], ast.Starred) and isinstance(rc.args[0].value, ast.Name) and not rc.keywords:
            _check_starred_snapshot(ctx, m, f, site, rc, rc.args[0].value.id, g, dom, mut_nodes)
            continue
        if len(rc.args) == 1 and isinstance(rc.args[0], ast.Name) and not rc.keywords and len(_own_params(r.set)) == 1:
            # the restore function takes the snapshot tuple as a whole
            _check_starred_snapshot(ctx, m, f, site, rc, rc.args[0].id, g, dom, mut_nodes)
            continue
        if len(rc.args) != 4 or rc.keywords:
            raise AnalysisError(f"{f.qualname}: set_shape_memo call with unrecognised arguments: {norm(rc)}")
        for i, a in enumerate(rc.args):
            if not isinstance(a, ast.Name):
                raise AnalysisError(f"{f.qualname}: restore argument {i} is not a name: {norm(a)}")
            if a.id in live:
                ctx.bad("C04.2", f, rc, f"restore argument {i} is the live memo `{a.id}` itself, not a snapshot: the rollback restores nothing")
                continue
            defs = c05._assignments_to(f, a.id)
            if not defs:
                raise AnalysisError(f"{f.qualname}: snapshot `{a.id}` has no definition")
            for stn, val, idx in defs:
                if idx is not None and site.tuple_var is not None and _copies_each_in_order(val, site.tuple_var):
                    # `a_bak, b_bak, c_bak, d_bak = [memo.copy() for memo in memos]`: element idx is a fresh copy of slot idx
                    if idx != i:
                        ctx.bad("C04.3", f, rc, f"restore argument {i} is a snapshot of slot {idx}: the memos would be restored into the wrong slots")
                        continue
                    snodes = g.nodes_of_stmt(stn)
                    need(snodes, f"{f.qualname}: snapshot statement not in CFG")
                    if all(any(sn.id in dom[mn.id] for sn in snodes) for mn in mut_nodes):
                        ctx.ok("C04.2", f.qualname, f"slot {i}: `{a.id}` is a fresh copy of element {idx} of `{site.tuple_var}` taken before the mutating call")
                    else:
                        ctx.bad("C04.2", f, stn, f"snapshot `{a.id}` is not taken on every path before the mutating call (it does not dominate it)")
                    continue
                if idx is not None or not c05._is_copy_of(val, set(live)):
                    if isinstance(val, ast.Name) and val.id in live:
                        ctx.bad("C04.2", f, stn, f"snapshot `{a.id}` is an alias of the live memo, not a copy: it changes together with it")
                    else:
                        ctx.bad("C04.2", f, stn, f"snapshot `{a.id}` is not a fresh copy of a live memo")
                    continue
                src = _copied_name(val)
                if src not in slots or slots.index(src) != i:
                    ctx.bad("C04.3", f, rc, f"restore argument {i} is a snapshot of slot {slots.index(src) if src in slots else '?'} (`{src}`): "
                            "the memos would be restored into the wrong slots")
                    continue
                # dominance: the snapshot node dominates every mutating node
                snodes = g.nodes_of_stmt(stn)
                need(snodes, f"{f.qualname}: snapshot statement not in CFG")
                for mn in mut_nodes:
                    if not any(sn.id in dom[mn.id] for sn in snodes):
                        ctx.bad("C04.2", f, stn, f"snapshot `{a.id}` is not taken on every path before the mutating call "
                                f"`{short(mn.ast, 60)}` (it does not dominate it)")
                        break
                else:
                    ctx.ok("C04.2", f.qualname, f"slot {i}: `{a.id}` is a fresh copy of `{src}` taken before the mutating call")


def _own_params(fn) -> list:
    ps = list(fn.params)
    if fn.cls is not None and ps and ps[0] in ("self", "cls"):
        ps = ps[1:]
    return ps


def _verify_carried_snapshots(ctx, m, r, f, site, g, dom, mut_nodes, carriers):
    """The snapshots are held by an object / a context manager (`snap = _Snapshot(memos)` ...
    `snap.restore()` / `with snap:`): the restore call inside the holder must pass, slot by slot,
    attributes (or locals) that were bound to fresh copies of the memos the holder was given, and
    the holder must be created before the first mutating call, from the live memos."""
    holders = []  # (function holding the restore call, how the holder is created in f)
    checked = 0
    for key, val in carriers:
        if key == "helper":
            t = m.resolve_call(f, val)
            h_ = t.target
            # a plain function `restore(backup)` that unpacks its parameter and hands the four parts, in
            # order, to the restore primitive: the argument at the call site is the snapshot tuple
            if h_.cls is None and len(h_.params) == 1 and len(val.args) == 1 and isinstance(val.args[0], ast.Name) and not val.keywords:
                p_ = h_.params[0]
                rcs = [c_ for c_ in f_calls(h_) if r.role_of_call(h_, c_) == "set_shape_memo"]
                names = None
                for n in walk_scope(h_.node):
                    if isinstance(n, ast.Assign) and isinstance(n.value, ast.Name) and n.value.id == p_ and isinstance(n.targets[0], (ast.Tuple, ast.List)) and len(n.targets[0].elts) == 4:
                        names = [e.id if isinstance(e, ast.Name) else None for e in n.targets[0].elts]
                ok_fwd = len(rcs) == 1 and not rcs[0].keywords and (
                    (names and [getattr(a, "id", None) for a in rcs[0].args] == names) or
                    (len(rcs[0].args) == 1 and isinstance(rcs[0].args[0], ast.Starred) and norm(rcs[0].args[0].value) == p_) or
                    (len(rcs[0].args) == 1 and isinstance(rcs[0].args[0], ast.Name) and rcs[0].args[0].id == p_))
                if ok_fwd:
                    _check_starred_snapshot(ctx, m, f, site, val, val.args[0].id, g, dom, mut_nodes)
                    checked += 1
                    continue
                if len(rcs) == 1 and names and sorted(x for x in (getattr(a, "id", None) for a in rcs[0].args) if x) == sorted(names):
                    ctx.bad("C04.3", h_, rcs[0], f"`{h_.name}` hands the parts of the snapshot to the restore in a different order than it unpacked them: the memos would be restored into the wrong slots")
                    checked += 1
                    continue
            holders.append(h_)
        else:
            holders.append(val["fn"])
    for h in holders:
        # the function that actually calls the restore primitive (h itself or a method it calls)
        stack, seen, sites_ = [h], set(), []
        while stack:
            x = stack.pop()
            if x.qualname in seen:
                continue
            seen.add(x.qualname)
            for c_ in f_calls(x):
                if r.role_of_call(x, c_) == "set_shape_memo":
                    sites_.append((x, c_))
                else:
                    t = m.resolve_call(x, c_)
                    if t.kind == "func" and not _is_storage_primitive(r, t.target):
                        stack.append(t.target)
        for x, rc in sites_:
            if x.cls is None or not x.params:
                raise AnalysisError(f"{x.qualname}: restore call inside a helper whose snapshots the rule cannot trace ({norm(rc)})")
            me = x.params[0]
            attrs = []
            for a in rc.args:
                if isinstance(a, ast.Attribute) and isinstance(a.value, ast.Name) and a.value.id == me:
                    attrs.append(a.attr)
            if len(attrs) != 4 or len(rc.args) != 4 or rc.keywords:
                raise AnalysisError(f"{x.qualname}: restore call with unrecognised arguments: {norm(rc)}")
            init = m.lookup_method(x.cls, "__init__")
            need(init is not None and len(init.params) >= 2, f"{x.cls.qualname}: no __init__ taking the memos")
            p = init.params[1]
            unpack = [None] * 4
            if len(init.params) == 5:
                unpack = init.params[1:5]
            for n in walk_scope(init.node):
                if isinstance(n, ast.Assign) and isinstance(n.value, ast.Name) and n.value.id == p and isinstance(n.targets[0], ast.Tuple) and len(n.targets[0].elts) == 4:
                    unpack = [e.id if isinstance(e, ast.Name) else None for e in n.targets[0].elts]
            for i, attr in enumerate(attrs):
                vals = m.instance_attr_values(x.cls, attr)
                if len(vals) != 1 or vals[0][0] is not init or vals[0][1] is None:
                    raise AnalysisError(f"{x.cls.qualname}.{attr}: not bound exactly once in __init__")
                v = vals[0][1]
                if not (unpack[i] and c05._is_copy_of(v, {unpack[i]})):
                    others = {u for u in unpack if u}
                    if c05._is_copy_of(v, others):
                        ctx.bad("C04.3", x, rc, f"restore argument {i} (`self.{attr}`) is a snapshot of `{_copied_name(v)}`: the memos would be restored into the wrong slots")
                    elif isinstance(v, ast.Name) and v.id in others:
                        ctx.bad("C04.2", init, vals[0][0].node, f"`self.{attr}` is the live memo `{v.id}` itself, not a copy: the rollback restores nothing")
                    else:
                        raise AnalysisError(f"{x.cls.qualname}.{attr} = {short(v, 50)}: not recognised as a fresh copy of slot {i}")
                    continue
                ctx.ok("C04.2", x.qualname, f"slot {i}: `self.{attr}` is a fresh copy of `{unpack[i]}` taken by {x.cls.name}.__init__")
            # the holder is created from the live memos before the first mutating call
            ctor_nodes = []
            for n in g.live_nodes():
                for c_ in node_calls(n):
                    t = m.resolve_call(f, c_)
                    if t.kind == "class" and t.target is x.cls:
                        ok_args = (len(c_.args) == 1 and isinstance(c_.args[0], ast.Name) and c_.args[0].id == site.tuple_var) or (
                            len(c_.args) == 4 and [getattr(a, "id", None) for a in c_.args] == site.live) or (
                            len(c_.args) == 1 and isinstance(c_.args[0], ast.Call) and r.role_of_call(f, c_.args[0]) == "get_shape_memo")
                        if not ok_args:
                            raise AnalysisError(f"{f.qualname}: `{short(c_, 60)}` is not given the live memos in a recognised form")
                        ctor_nodes.append(n)
            need(ctor_nodes, f"{f.qualname}: creation of the snapshot holder {x.cls.name} not found")
            for mn in mut_nodes:
                if not any(cn.id in dom[mn.id] for cn in ctor_nodes):
                    ctx.bad("C04.2", f, ctor_nodes[0].ast, f"the snapshot holder is not created on every path before the mutating call `{short(mn.ast, 60)}`")
                    break
            else:
                ctx.ok("C04.2", f.qualname, f"{x.cls.name}(<live memos>) is created before the mutating call")
            checked += 1
    need(checked, f"{f.qualname}: no restore call found behind the helper / context manager that carries the rollback")


def _copies_each_in_order(e, tv) -> bool:
    """`tuple([x.copy() for x in tv])`, `tuple(x.copy() for x in tv)`, `[dict(x) for x in tv]`, `tuple(map(dict, tv))`"""
    inner = e
    if isinstance(e, ast.Call) and norm(e.func) in ("tuple", "list") and len(e.args) == 1:
        inner = e.args[0]
    elif isinstance(e, ast.GeneratorExp) or (isinstance(e, ast.Call) and norm(e.func) == "map"):
        return False  # lazy: nothing is copied until it is consumed -- see _lazy_snapshot
    if isinstance(inner, (ast.ListComp, ast.GeneratorExp)) and len(inner.generators) == 1 and not inner.generators[0].ifs \
            and isinstance(inner.generators[0].iter, ast.Name) and inner.generators[0].iter.id == tv and isinstance(inner.generators[0].target, ast.Name):
        return c05._is_copy_of(inner.elt, {inner.generators[0].target.id})
    if isinstance(inner, ast.Call) and norm(inner.func) == "map" and len(inner.args) == 2 and norm(inner.args[0]) in ("dict", "copy.copy") and norm(inner.args[1]) == tv:
        return True
    return False


def _helper_copies_each(m, f, call) -> bool:
    """A helper `H(memos)` that returns a 4-tuple of copies of the elements of its argument, in order."""
    t = m.resolve_call(f, call)
    if t.kind != "func" or not t.target.params:
        return False
    h = t.target
    p = h.params[0]
    rets = [x.value for x in walk_scope(h.node) if isinstance(x, ast.Return)]
    if len(rets) != 1:
        return False
    rv = rets[0]
    if _copies_each_in_order(rv, p):
        return True
    names = [None] * 4
    for n in walk_scope(h.node):
        if isinstance(n, ast.Assign) and isinstance(n.value, ast.Name) and n.value.id == p and isinstance(n.targets[0], ast.Tuple) and len(n.targets[0].elts) == 4:
            names = [e.id if isinstance(e, ast.Name) else None for e in n.targets[0].elts]
    if isinstance(rv, ast.Tuple) and len(rv.elts) == 4 and all(names):
        elts = []
        for e in rv.elts:
            if isinstance(e, ast.Name):  # `x_bak = x.copy()` ... `return x_bak, ...`
                d = c05._assignments_to(h, e.id)
                e = d[0][1] if len(d) == 1 and d[0][2] is None else e
            elts.append(e)
        return all(c05._is_copy_of(e, {names[i]}) and _copied_name(e) == names[i] for i, e in enumerate(elts))
    return False


def _check_starred_snapshot(ctx, m, f, site, rc, bname, g, dom, mut_nodes):
    defs = c05._assignments_to(f, bname)
    if len(defs) != 1 or defs[0][2] is not None:
        raise AnalysisError(f"{f.qualname}: snapshot tuple `{bname}` has {len(defs)} definitions")
    stn, val, _ = defs[0]
    if isinstance(val, ast.Name) and val.id == site.tuple_var:
        ctx.bad("C04.2", f, stn, f"`{bname}` is the live memo tuple itself, not a snapshot: the rollback restores nothing")
        return
    if isinstance(val, ast.Tuple) and len(val.elts) == 4 and any(isinstance(e, ast.Name) and e.id not in [x for x in site.live if x] for e in val.elts):
        # `x_bak = x.copy()` ... `baks = (x_bak, y_bak, ..)`: elements named before they are bundled
        elts_ = []
        for e in val.elts:
            if isinstance(e, ast.Name) and e.id not in [x for x in site.live if x]:
                ds_ = c05._assignments_to(f, e.id)
                if len(ds_) == 1 and ds_[0][2] is None and ds_[0][1] is not None:
                    e = ds_[0][1]
            elts_.append(e)
        val = ast.copy_location(ast.Tuple(elts=elts_, ctx=ast.Load()), val)
    if isinstance(val, ast.Tuple) and len(val.elts) == 4:
        for i, e in enumerate(val.elts):
            if isinstance(e, ast.Name) and e.id in [x for x in site.live if x]:
                ctx.bad("C04.2", f, stn, f"slot {i} of the snapshot tuple `{bname}` is the live memo `{e.id}` itself, not a copy: the rollback restores nothing for it")
                return
    if site.tuple_var is not None:
        inner = val.args[0] if isinstance(val, ast.Call) and norm(val.func) in ("tuple", "list") and len(val.args) == 1 else val
        shallow = (isinstance(inner, ast.Name) and inner.id == site.tuple_var) or (
            isinstance(inner, (ast.ListComp, ast.GeneratorExp)) and len(inner.generators) == 1 and not inner.generators[0].ifs
            and isinstance(inner.generators[0].iter, ast.Name) and inner.generators[0].iter.id == site.tuple_var
            and isinstance(inner.generators[0].target, ast.Name) and isinstance(inner.elt, ast.Name) and inner.elt.id == inner.generators[0].target.id)
        if shallow:
            ctx.bad("C04.2", f, stn, f"the snapshot `{bname} = {short(val, 50)}` holds the live memos themselves (a new tuple of the same dicts), not copies: the rollback restores nothing")
            return
    if site.tuple_var is not None and isinstance(val, ast.Tuple) and len(val.elts) == 4:
        # `(tv[0].copy(), tv[1].copy(), tv[2].copy(), tv[3].copy())`: a copy of each slot of the live tuple
        idxs = []
        for e in val.elts:
            inner_ = None
            if isinstance(e, ast.Call) and isinstance(e.func, ast.Attribute) and e.func.attr == "copy" and not e.args:
                inner_ = e.func.value
            elif isinstance(e, ast.Call) and norm(e.func) in ("dict", "copy.copy") and len(e.args) == 1:
                inner_ = e.args[0]
            if isinstance(inner_, ast.Subscript) and isinstance(inner_.value, ast.Name) and inner_.value.id == site.tuple_var and isinstance(inner_.slice, ast.Constant):
                idxs.append(inner_.slice.value)
            else:
                idxs.append(None)
        if None not in idxs:
            if idxs == [0, 1, 2, 3]:
                ctx.ok("C04.2", f.qualname, f"snapshot tuple `{bname}` = a copy of each slot of `{site.tuple_var}`, in order")
                return
            ctx.bad("C04.3", f, stn, f"the snapshot tuple `{bname}` copies the slots of `{site.tuple_var}` in the order {idxs}, not (single, variadic, pytree, arguments)")
            return
    if isinstance(val, ast.GeneratorExp) or (isinstance(val, ast.Call) and norm(val.func) in ("map", "zip", "iter")):
        # a bare generator expression / map object: the `.copy()` calls run when it is unpacked -- at the restore, after the check has already
        # written into the live memos -- so the "snapshot" equals the state it is supposed to undo
        ctx.bad("C04.2", f, stn, f"the snapshot `{bname} = {short(val, 50)}` is lazy (a generator / map object): the copies are only taken when it is consumed by the restore, "
                "after the failed check has written into the live memos, so the rollback restores the mutated state", construct=f"lazy snapshot {bname}")
        return
    ok = site.tuple_var is not None and _copies_each_in_order(val, site.tuple_var)
    if not ok and site.tuple_var is not None and isinstance(val, ast.Call) and [norm(a) for a in val.args] == [site.tuple_var]:
        ok = _helper_copies_each(m, f, val)
    if not ok and isinstance(val, ast.Tuple) and len(val.elts) == 4:
        ok = all(site.live[i] is not None and c05._is_copy_of(e, {site.live[i]}) and _copied_name(e) == site.live[i] for i, e in enumerate(val.elts))
        if not ok and all(c05._is_copy_of(e, set(x for x in site.live if x)) for e in val.elts):
            ctx.bad("C04.3", f, stn, f"the snapshot tuple `{bname}` copies the live memos in a different order than (single, variadic, pytree, arguments)")
            return
    if not ok:
        raise AnalysisError(f"{f.qualname}: snapshot tuple `{bname} = {short(val, 60)}` is not recognised as 'a copy of each live memo, in order'")
    snodes = g.nodes_of_stmt(stn)
    need(snodes, f"{f.qualname}: snapshot statement not in CFG")
    for mn in mut_nodes:
        if not any(sn.id in dom[mn.id] for sn in snodes):
            ctx.bad("C04.2", f, stn, f"the snapshot `{bname}` is not taken on every path before the mutating call `{short(mn.ast, 60)}`")
            return
    ctx.ok("C04.2", f.qualname, f"`{bname}` holds a fresh copy of each of the four live memos, in order, taken before the mutating call")


def _copied_name(val):
    if isinstance(val, ast.Call):
        if isinstance(val.func, ast.Attribute) and isinstance(val.func.value, ast.Name):
            return val.func.value.id
        if val.args and isinstance(val.args[0], ast.Name):
            return val.args[0].id
    if isinstance(val, ast.Dict):
        return val.values[0].id
    return None


def _uncaught_handler_desc(fl, ex, stt):
    """Name the construct responsible: the try statement whose handlers let the
    exception class through (or the mutating statement if there is no try)."""
    key = (ex.id, stt)
    last_stmt = None
    while key is not None:
        p = fl.pred.get(key)
        if p is None:
            break
        n = fl.cfg.nodes[p[0]]
        if n.kind == "dispatch":
            tr = n.ast
            hs = ", ".join("except " + (norm(h.type) if h.type is not None else "<bare>") for h in tr.handlers)
            return (tr, f"try: {short(tr.body[0], 80)} ... handlers [{hs}] do not roll back for class '{n.info.get('kind')}'")
        if n.ast is not None and last_stmt is None and n.kind not in ("unwind", "finally", "handler"):
            last_stmt = n.ast
        key = (p[0], p[1])
    return (last_stmt, f"unprotected: {short(last_stmt, 120)}")


def f_calls(f):
    return [n for n in walk_scope(f.node) if isinstance(n, ast.Call)]


def _is_memo_tuple_name(f, r, name) -> bool:
    """a local / parameter that holds the 4-tuple of memos: bound from get_shape_memo() / push_shape_memo(), or called `memos`"""
    if name == "memos":
        return True
    for d in c05._assignments_to(f, name):
        if d[2] is None and isinstance(d[1], ast.Call) and r.role_of_call(f, d[1]) in ("get_shape_memo", "push_shape_memo"):
            return True
    return False


# ------------------------------------------------------------------------ C04.3
def check_slot_agreement(ctx: RuleContext, r):
    m = ctx.model
    n_sites = 0
    for f in m.all_functions(include_typeguard=False):
        for n in walk_scope(f.node):
            # unpack sites of a memo 4-tuple
            if isinstance(n, ast.Assign) and isinstance(n.targets[0], (ast.Tuple, ast.List)) and len(n.targets[0].elts) == 4:
                v = n.value
                src_is_memos = (isinstance(v, ast.Call) and r.role_of_call(f, v) in ("get_shape_memo", "push_shape_memo")) or (
                    isinstance(v, ast.Name) and v.id == "memos") or (
                    isinstance(v, ast.Subscript) and r.tl_of_expr(f, v.value, r.local_aliases(f)) is not None)
                if src_is_memos:
                    n_sites += 1
                    roles = [memo_role(e.id) if isinstance(e, ast.Name) else None for e in n.targets[0].elts]
                    bad = [i for i, ro in enumerate(roles) if ro is not None and ro != CANON[i]]
                    if bad:
                        ctx.bad("C04.3", f, n, "the four memos are unpacked in a different order than "
                                "(single, variadic, pytree, arguments)")
                    else:
                        ctx.ok("C04.3", f.qualname, f"unpack order agrees: {[e.id if isinstance(e, ast.Name) else '_' for e in n.targets[0].elts]}")
            # internal calls passing memo-named arguments
            if isinstance(n, ast.Call):
                t = m.resolve_call(f, n)
                if t.kind != "func":
                    continue
                callee = t.target
                params = list(callee.params)
                if callee.cls is not None and params and t.recv is not None:
                    params = params[1:]  # bound method: self/cls supplied by the receiver
                for i, a in enumerate(n.args):
                    if isinstance(a, ast.Subscript) and isinstance(a.value, ast.Name) and isinstance(a.slice, ast.Constant) and isinstance(a.slice.value, int) \
                            and 0 <= a.slice.value < 4 and i < len(params) and memo_role(params[i]) is not None and _is_memo_tuple_name(f, r, a.value.id):
                        # a slot of the memo tuple passed by position (`memos[2]` for `pytree_memo`)
                        n_sites += 1
                        ra, rp = CANON[a.slice.value], memo_role(params[i])
                        if ra != rp:
                            ctx.bad("C04.3", f, n, f"`{norm(a)}` (the {ra} memo) is passed for parameter `{params[i]}` ({rp} memo) of {callee.qualname}")
                        else:
                            ctx.ok("C04.3", f.qualname, f"`{norm(a)}` -> {callee.name}.{params[i]}: same slot ({ra})")
                        continue
                    if isinstance(a, ast.Name) and i < len(params):
                        ra = memo_role(a.id)
                        rp = memo_role(params[i])
                        if ra is not None and rp is not None:
                            n_sites += 1
                            if ra != rp:
                                ctx.bad("C04.3", f, n, f"argument `{a.id}` ({ra} memo) is passed for parameter `{params[i]}` ({rp} memo) of {callee.qualname}")
                            else:
                                ctx.ok("C04.3", f.qualname, f"`{a.id}` -> {callee.name}.{params[i]}: same slot ({ra})")
                for k in n.keywords:
                    if k.arg and isinstance(k.value, ast.Name):
                        ra, rp = memo_role(k.value.id), memo_role(k.arg)
                        if ra and rp and ra != rp:
                            ctx.bad("C04.3", f, n, f"argument `{k.value.id}` ({ra} memo) is passed for keyword `{k.arg}` ({rp} memo)")
    ctx.counters["slot_agreement_sites"] = n_sites
    ctx.floor("C04.3", "slot_agreement_sites", 10)
