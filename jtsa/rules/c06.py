"""C06 -- threads never see each other's bindings or transient check state.

A confinement argument, valid for every interleaving without running one:
  C06.1 every module-level storage object written by check-time code is created by
        `threading.local()` (three expected), created exactly once at import time.
  C06.2 from the check entry points (every __instancecheck__, the wrappers returned by
        jaxtyped, the context manager, print_bindings, the blame helper) over the resolved
        call graph (with reference edges and dispatch pseudo-edges into every
        __instancecheck__), every reachable store is rooted in a local/fresh object, a
        parameter/closure object of the activation, or a threading.local attribute.
        Stores rooted in module-level names, class objects, `global` names or objects of
        other modules are violations (one named suppression: the vendored typeguard's
        weak cache keyed by the per-check fresh function object).
  C06.3 a function that writes through a parameter is never handed a module-level
        (shared) object at a resolved call site reachable from the entry points.
  C06.4 no memoising decorator (lru_cache / cache) on a function reachable from the check
        entry points (a hidden process-wide table written at check time).
Not decided: thread-safety of typeguard/beartype/jax themselves.
"""
from __future__ import annotations

import ast

from ..callgraph import CallGraph
from ..core import AnalysisError, RuleContext, need, norm, short
from ..effects import Effects
from ..model import FuncInfo, walk_scope
from ..roles import roles_for
from ..suppressions import SHARED_WRITE_SUPPRESSIONS

EXPLANATION = __doc__


def entry_points(ctx: RuleContext, r) -> list:
    m = ctx.model
    eps = list(r.instancecheck_methods())
    w = r.wrappers()
    eps += w["wraps"] + [f for f in w["impl"] if f.name != "modify_annotation"]
    # the context-manager form: its __enter__ / __exit__ wherever they are defined (the class itself or a base
    # class it shares with the wrappers' scope object)
    cc = m.cls("_decorator._JaxtypingContext")
    for nm in ("__enter__", "__exit__"):
        meth = m.lookup_method(cc, nm)
        eps.append(need(meth, f"_JaxtypingContext has no {nm} (own or inherited from a class of the package)"))
    for q in ("_storage.print_bindings", "_decorator._get_problem_arg"):
        eps.append(m.func(q))
    return eps


def run(ctx: RuleContext):
    r = roles_for(ctx.model)
    cg = CallGraph(ctx.model)
    ctx.sub(check_thread_locals, ctx, r, "C06.1")
    ctx.sub(check_shared_writes, ctx, r, cg, "C06.2", "C06.3")
    ctx.sub(check_no_memo_tables, ctx, r, cg, "C06.4")
    ctx.sub(check_no_call_time_closure_state, ctx, r)


def check_thread_locals(ctx, r, tag):
    m = ctx.model
    st = m.module("_storage")
    n = 0
    for (mod, name), v in sorted(r.thread_locals.items()):
        n += 1
        ctx.ok(tag, f"{mod}.{name}", "module-level storage object created by threading.local()")
    ctx.counters["thread_local_objects"] = n
    # every module-level object of _storage that functions store into must be a thread-local
    eff = Effects(m, r)
    written = set()
    for f in m.all_functions(include_typeguard=False):
        if f.module.short != "_storage":
            continue
        ctx.saw(f)
        for s in eff.stores(f):
            if s.kind in ("modvar", "global", "class", "ext"):
                written.add(s.root_name)
                ctx.bad(tag, f, s.node, f"check state is kept in `{s.root_name}`, which is not a threading.local(): "
                        "it is shared by all threads")
            elif s.kind == "tl":
                written.add(s.root_name)
                ctx.ok(tag, f.qualname, f"{s.how} on thread-local {s.root_name}.{s.attr}")
    ctx.counters["storage_objects_written"] = len(written)
    ctx.floor(tag, "storage_objects_written", 3)


def check_shared_writes(ctx, r, cg, tag, tag_param):
    m = ctx.model
    eff = Effects(m, r)
    eps = entry_points(ctx, r)
    ctx.counters["check_entry_points"] = len(eps)
    ctx.floor(tag, "check_entry_points", 8)
    pred = cg.reachable(eps)
    ctx.counters["functions_reachable_from_checks"] = len(pred)
    ctx.floor(tag, "functions_reachable_from_checks", 40)
    n_stores = 0
    param_writers = {}
    for q in sorted(pred):
        f = m.functions.get(q)
        if f is None:
            continue
        ctx.saw(f)
        for s in eff.stores(f):
            n_stores += 1
            if s.kind in ("modvar", "global", "class", "ext"):
                sup = SHARED_WRITE_SUPPRESSIONS.get(s.root_name)
                if sup is not None and (sup.get("function") in (None, q)) and _verify_suppression(ctx, cg, sup, pred):
                    ctx.note(f"suppressed shared write {s.root_name} in {q}: {sup['reason']}")
                    ctx.ok(tag, q, f"suppressed (named): {s.root_name}: {sup['reason']}")
                    continue
                if s.kind in ("modvar", "global", "class"):
                    # a keyed table: `M[key] = value`.  A memo whose value is a function of its key alone changes no verdict and
                    # is the same whichever thread fills it; one keyed by a rendering, or holding something that depends on the
                    # binding context, is the violation; anything else cannot be told apart statically
                    from ._memo import classify_keyed_store, keyed_store_parts

                    parts = keyed_store_parts(f, s.node)
                    if parts is not None and not isinstance(parts[1], ast.Constant):
                        verdict, why = classify_keyed_store(m, r, f, parts[1], parts[2], container=parts[0])
                        if verdict == "pure":
                            ctx.ok(tag, q, f"`{s.root_name}[{short(parts[1], 40)}] = ...` is a memo of a pure function of its key (parameters, constants, side-effect-free calls only)")
                            continue
                        if verdict == "unknown":
                            raise AnalysisError(f"{tag}: check-time code fills the shared table `{s.root_name}` in {q}; whether the entry is a pure function of its key cannot be "
                                                f"decided ({why})")
                        ctx.bad(tag, f, s.node, f"check-time code fills the shared table `{s.root_name}` with an entry that is not a function of its key alone ({why}): "
                                "what one check (or thread) stores is what another one gets; reachable from a check entry point via " + " -> ".join(cg.chain(pred, q)[-5:]))
                        continue
                ctx.bad(tag, f, s.node,
                        f"check-time code writes shared state: {s.how} on `{s.root_name}"
                        f"{'.' + s.attr if s.attr else ''}` ({s.kind}); reachable from a check entry point via "
                        + " -> ".join(cg.chain(pred, q)[-5:]))
            elif s.kind in ("unknown", "call-result"):
                # a store through the result of a call / unresolved root: flag only if it is a
                # mutator on something obviously shared; otherwise record
                ctx.ok(tag, q, f"store through {s.kind} `{s.root_name}` ({s.how}) -- object obtained at run time")
            else:
                ctx.ok(tag, q, f"{s.how} on {s.kind}-rooted `{s.root_name}{'.' + s.attr if s.attr else ''}`")
                if s.kind == "param":
                    param_writers.setdefault(q, set()).add(s.root_name)
    ctx.counters["store_sites_classified"] = n_stores
    ctx.floor(tag, "store_sites_classified", 40)
    # C06.3: arguments handed to parameter-writers
    n_args = 0
    for q, pnames in sorted(param_writers.items()):
        callee = m.functions[q]
        for caller, call in cg.callers(callee):
            if not isinstance(caller, FuncInfo) or caller.qualname not in pred or not isinstance(call, ast.Call):
                continue
            params = list(callee.params)
            t = m.resolve_call(caller, call)
            if callee.cls is not None and t.recv is not None and params:
                params = params[1:]
            bind = {}
            for i, a in enumerate(call.args):
                if i < len(params):
                    bind[params[i]] = a
            for k in call.keywords:
                if k.arg:
                    bind[k.arg] = k.value
            for p in pnames:
                a = bind.get(p)
                if a is None:
                    continue
                n_args += 1
                root = a
                while isinstance(root, (ast.Attribute, ast.Subscript)):
                    root = root.value
                if isinstance(root, ast.Name):
                    kind, rn = eff.root_kind(caller, root.id)
                    if kind in ("modvar", "class", "ext", "global"):
                        ctx.bad(tag_param, caller, call, f"`{norm(a)}` ({kind} {rn}, shared by all threads) is handed to "
                                f"{callee.qualname}, which writes through parameter `{p}`")
                        continue
                ctx.ok(tag_param, caller.qualname, f"argument `{short(a, 40)}` for written parameter `{p}` of {callee.name} is not a shared object")
    ctx.counters["written_parameter_bindings"] = n_args


def check_no_memo_tables(ctx, r, cg, tag):
    m = ctx.model
    eps = entry_points(ctx, r)
    pred = cg.reachable(eps)
    n = 0
    for f in m.all_functions():
        cached = None
        for d in f.decorators:
            t = d.func if isinstance(d, ast.Call) else d
            st = m.resolve_expr_static(f.parent or f.module, t)
            if isinstance(st, str) and st in ("functools.lru_cache", "functools.cache", "functools.cached_property"):
                cached = st
        if cached is None:
            continue
        n += 1
        if f.qualname in pred and _keys_are_annotation_attributes(m, cg, f, pred):
            ctx.ok(tag, f.qualname, f"`{cached}` table reachable from checks, but every call site keys it by attributes of the annotation class only "
                   "(immutable, built by jaxtyping): a pure function of its key")
            continue
        if f.qualname in pred:
            # memoising a function of run-time values: wrong when the result depends on the binding context / thread-local
            # state (one thread's verdict is handed to another); harmless when it is a pure function of hashable
            # arguments -- which cannot be established here (purity of callees, hashability of what is passed)
            from ._memo import classify_keyed_store

            rets = [x.value for x in ast.walk(f.node) if isinstance(x, ast.Return) and x.value is not None]
            verdicts = [classify_keyed_store(m, r, f, None, v) for v in rets]
            ctxdep = [w for k_, w in verdicts if k_ == "context"]
            writes = [s_ for s_ in Effects(m, r).stores(f) if s_.kind in ("modvar", "global", "class", "param")]
            rend = None
            if not (ctxdep or writes):
                from ._memo import returns_rendering_of_param

                rend = returns_rendering_of_param(f)
            if rend is not None:
                ctx.bad(tag, f, f.node, f"`{cached}` on a function reachable from a check entry point ({' -> '.join(cg.chain(pred, f.qualname)[-4:])}) that returns a rendering "
                        f"of its argument (`{rend[1]}`): the table is keyed by `==` of `{rend[0]}`, and equal arguments need not share that rendering (np.dtype(np.longlong) == "
                        "np.dtype(np.int64), different names), so the first one seen fixes the answer for all of them", construct=f"@{cached} def {f.name}: returns {rend[1]}")
            elif ctxdep or writes:
                why = ctxdep[0] if ctxdep else f"it writes `{writes[0].root_name}`"
                ctx.bad(tag, f, f.node, f"`{cached}` on a function reachable from a check entry point "
                        f"({' -> '.join(cg.chain(pred, f.qualname)[-4:])}) whose result is not a function of its arguments alone ({why}): a process-wide table hands "
                        "one check's (thread's) result to another", construct=f"@{cached} def {f.name}")
            else:
                raise AnalysisError(f"{tag}: `{cached}` on {f.qualname}, which runs at check time: whether it is a pure function of hashable arguments cannot be decided")
        else:
            ctx.ok(tag, f.qualname, f"`{cached}` table is used at annotation-construction / import time only (not reachable from checks)")
    ctx.counters["memoised_functions"] = n
    ctx.floor(tag, "memoised_functions", 2)


def _verify_suppression(ctx, cg, sup, pred) -> bool:
    v = sup.get("verify")
    if v is None:
        return True
    if v == "callers_pass_memo":
        m = ctx.model
        ok = True
        n = 0
        for q in ("_typeguard.check_argument_types", "_typeguard.check_return_type"):
            f = m.func_opt(q)
            if f is None:
                return False
            pidx = f.params.index("memo") if "memo" in f.params else None
            if pidx is None:
                return False
            for caller, call in cg.callers(f):
                if caller.qualname not in pred:
                    continue  # e.g. typeguard's profiler-hook class, never used by jaxtyping
                n += 1
                passed = len(call.args) > pidx or any(k.arg == "memo" for k in call.keywords)
                if not passed:
                    ok = False
            # the only call of find_function must be under `if memo is None`
            # the find_function call must sit under `if memo is None:`
            for iff in ast.walk(f.node):
                pass
            guarded_calls = set()
            for iff in ast.walk(f.node):
                if isinstance(iff, ast.If) and norm(iff.test) == "memo is None":
                    for x in iff.body:
                        for c in ast.walk(x):
                            if isinstance(c, ast.Call):
                                guarded_calls.add(id(c))
            for c in ast.walk(f.node):
                if isinstance(c, ast.Call) and isinstance(c.func, ast.Name) and c.func.id == "find_function":
                    if id(c) not in guarded_calls:
                        ok = False
        ff = m.func_opt("_typeguard.find_function")
        for caller, call in cg.callers(ff) if ff else []:
            if caller.qualname in pred and caller.qualname not in (
                "_typeguard.check_argument_types", "_typeguard.check_return_type"
            ):
                ok = False
        return ok and n >= 2
    return False


def _keys_are_annotation_attributes(m, cg, f, pred) -> bool:
    """All arguments at all reachable call sites are `cls.<attr>` chains of the annotation class
    (receiver of a metaclass method) or constants."""
    sites = [(c, call) for c, call in cg.callers(f) if isinstance(c, FuncInfo) and c.qualname in pred and isinstance(call, ast.Call)]
    if not sites:
        return False
    for caller, call in sites:
        if caller.cls is None or not m.is_metaclass(caller.cls) or not caller.params:
            return False
        recv = caller.params[0]
        for a in list(call.args) + [k.value for k in call.keywords]:
            if isinstance(a, ast.Constant):
                continue
            x = a
            while isinstance(x, ast.Attribute):
                x = x.value
            if not (isinstance(x, ast.Name) and x.id == recv and isinstance(a, ast.Attribute)):
                return False
    return True


# ------------------------------------------------------------------------ C06.5
_MUTATING_METHODS = {"append", "add", "update", "pop", "clear", "extend", "insert", "remove", "discard", "setdefault", "popitem", "appendleft", "__setitem__"}


def check_no_call_time_closure_state(ctx, r):
    """C06.5: the wrappers `jaxtyped` returns run on whatever thread calls the decorated function; an object created when the function
    was *decorated* (a list / dict / flag cell in `jaxtyped`'s scope) and written by the wrappers at call time is state of the function,
    shared by every thread that calls it -- a re-entrancy flag, a "first call" marker, a per-function cache of verdicts.  One thread's
    call then changes what another thread's concurrent call of the same function does."""
    m = ctx.model
    w = r.wrappers()
    n_fn = n_stores = 0
    for f in list(w["wraps"]) + list(w["impl"]):
        ctx.saw(f)
        n_fn += 1
        nonlocals = {nm for st in walk_scope(f.node) if isinstance(st, ast.Nonlocal) for nm in st.names}
        for st in walk_scope(f.node):
            root, what = None, None
            tgts = st.targets if isinstance(st, ast.Assign) else [st.target] if isinstance(st, (ast.AugAssign, ast.AnnAssign)) else []
            for t in tgts:
                x = t
                while isinstance(x, (ast.Subscript, ast.Attribute)):
                    x = x.value
                if isinstance(x, ast.Name) and (x is not t or x.id in nonlocals):
                    root, what = x.id, short(st, 50)
            if isinstance(st, ast.Call) and isinstance(st.func, ast.Attribute) and st.func.attr in _MUTATING_METHODS:
                x = st.func.value
                while isinstance(x, (ast.Subscript, ast.Attribute)):
                    x = x.value
                if isinstance(x, ast.Name):
                    root, what = x.id, short(st, 50)
            if root is None:
                continue
            b = m.resolve_name(f, root)
            if b.kind != "freevar":
                continue
            n_stores += 1
            ctx.bad("C06.5", f, st, f"`{what}` writes `{root}`, an object created when the function was decorated, from the per-call wrapper: it is shared by every thread that calls "
                    "the decorated function, so a concurrent call on another thread sees (and is steered by) this call's state", construct=f"call-time write to decoration-time object {root}")
    ctx.counters["wrapper_functions"] = n_fn
    ctx.floor("C06.5", "wrapper_functions", 3)
    if not n_stores:
        ctx.ok("C06.5", "_decorator.jaxtyped", f"none of the {n_fn} per-call wrapper functions writes an object of the decorator's own scope")
