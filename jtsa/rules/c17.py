"""C17 -- verdicts depend on type, shape and dtype only, so tracing equals eager.

A non-interference argument: if the only observations of the checked value are its type,
`.shape` and `.dtype`, no element value (and no other attribute, e.g. weak_type) can influence
a verdict, and a tracer is never concretised by jaxtyping.
  C17.1 in the array check (__instancecheck__, __instancecheck_str__, _check_shape) every use of
        the checked object is isinstance(obj, T), hasattr(obj, "shape"|"dtype"), obj.shape,
        obj.dtype, or handing it to another analysed check function; obj.shape is only
        measured / sliced / handed to the per-axis check; obj.dtype is only used to derive the
        dtype *name*.
  C17.2 in the wrappers, the blame helper and the PyTree check, value-carrying variables
        (args, kwargs, the result, bound arguments, the tree and its leaves) are only forwarded,
        stored, identity-compared, flattened, returned or -- in exception handlers --
        formatted; never used in a boolean context, compared with ==/</in, iterated, indexed,
        measured, or passed to bool/int/float/len/asarray.
  C17.3 symbolic axes: argument *values* may only enter the f-string substitution stage (by
        design); the expression that is compared with the axis size is evaluated over the
        integer size bindings only.
Not decided: behaviour of jax transformations and of the typecheckers themselves.
"""
from __future__ import annotations

import ast

from ..core import AnalysisError, RuleContext, need, norm, short
from ..model import walk_scope, walk_with_lambdas
from ..roles import roles_for
from .c04 import memo_role

EXPLANATION = __doc__

OBJ_ATTRS = {"shape", "dtype"}
DTYPE_ATTRS = {"type", "as_numpy_dtype"}


def run(ctx: RuleContext):
    r = roles_for(ctx.model)
    ctx.sub(check_array_observations, ctx)
    ctx.sub(check_value_variables, ctx, r)
    ctx.sub(check_symbolic_namespaces, ctx)
    # C17.4: every leaf of a PyTree is checked, whatever object it is: skipping leaves by identity
    # (`id(leaf)` already seen) makes the verdict depend on aliasing between leaves, which tracing does not
    # preserve (every flattened leaf becomes a tracer of its own) -- the leaf-loop clause of C08.3
    from .c08 import check_leaf_loop

    ctx.reuse("C17.4", check_leaf_loop, ctx)
    ctx.sub(check_no_tracing_state, ctx)


def _parents(root):
    par = {}
    for n in ast.walk(root):
        for c in ast.iter_child_nodes(n):
            par[id(c)] = n
    return par


# ------------------------------------------------------------------------ C17.1
def check_array_observations(ctx):
    m = ctx.model
    meta = m.cls("_array_types._MetaAbstractArray")
    fs = [meta.methods[n] for n in ("__instancecheck__", "__instancecheck_str__", "_check_shape") if n in meta.methods]
    need(len(fs) == 3, "array check methods not found")
    n_uses = 0
    work = [(f, f.params[1]) for f in fs]
    done = set()
    while work:
        f, obj = work.pop(0)
        if (f.qualname, obj) in done:
            continue
        done.add((f.qualname, obj))
        ctx.saw(f)
        par = _parents(f.node)
        for n in walk_with_lambdas(f.node):
            if not (isinstance(n, ast.Name) and n.id == obj and isinstance(n.ctx, ast.Load)):
                continue
            n_uses += 1
            p = par.get(id(n))
            ok, why = False, ""
            if isinstance(p, ast.Attribute) and p.value is n:
                if p.attr in OBJ_ATTRS:
                    ok = _check_attr_use(ctx, f, p, par)
                    why = f"obj.{p.attr}"
                    if ok is None:
                        continue  # a finding was recorded
                else:
                    ctx.bad("C17.1", f, p, f"the check reads `{obj}.{p.attr}`: the verdict would depend on something other than the value's type, shape and dtype "
                            "(two arrays with identical type/shape/dtype -- or a tracer and the concrete array it stands for -- could get different verdicts)")
                    continue
            elif isinstance(p, ast.Call) and n in p.args:
                fn = norm(p.func)
                if fn == "isinstance" and p.args[0] is n:
                    ok, why = True, "isinstance(obj, T)"
                elif fn == "hasattr" and p.args[0] is n and isinstance(p.args[1], ast.Constant) and p.args[1].value in OBJ_ATTRS:
                    ok, why = True, f"hasattr(obj, {p.args[1].value!r})"
                else:
                    t = m.resolve_call(f, p)
                    if t.kind == "func" and t.target in fs:
                        ok, why = True, f"handed to {t.target.name}"
                    elif t.kind == "func" and t.target.module.short == "_array_types" and not t.target.decorators:
                        # a helper of the check: its uses of the value are judged by the same rule
                        from ..callgraph import _bind_args

                        b = _bind_args(m, f, p, t.target)
                        pn = [k for k, v in b.items() if v is n]
                        if pn:
                            work.append((t.target, pn[0]))
                            ok, why = True, f"handed to helper {t.target.name} (analysed with the same rule)"
                        else:
                            ctx.bad("C17.1", f, p, f"the checked value is passed to `{fn}` in a way that could not be followed")
                            continue
                    else:
                        ctx.bad("C17.1", f, p, f"the checked value is passed to `{fn}`, which is not one of the analysed check functions: it may read element values / force "
                                "a tracer to a concrete value")
                        continue
            if ok:
                ctx.ok("C17.1", f.qualname, f"use of the checked value: {why}")
            else:
                ctx.bad("C17.1", f, p if p is not None else n, f"the checked value is used as `{short(p, 60)}`: only isinstance / hasattr / .shape / .dtype may observe it")
    ctx.counters["uses_of_checked_value"] = n_uses
    ctx.floor("C17.1", "uses_of_checked_value", 18)


def _check_attr_use(ctx, f, attr_node, par):
    """How obj.shape / obj.dtype is used."""
    p = par.get(id(attr_node))
    a = attr_node.attr
    if a == "shape":
        if isinstance(p, ast.Call) and norm(p.func) == "len" and p.args[0] is attr_node:
            return True
        if isinstance(p, ast.Subscript) and p.value is attr_node and isinstance(p.slice, ast.Slice):
            return True
        if isinstance(p, ast.Subscript) and p.value is attr_node and isinstance(p.slice, ast.Name):
            # `obj.shape[s]` with `s = slice(i, j)`: still a slice of the shape
            from . import c05 as _c05

            defs = _c05._assignments_to(f, p.slice.id)
            if defs and all(d[2] is None and isinstance(d[1], ast.Call) and isinstance(d[1].func, ast.Name) and d[1].func.id == "slice" for d in defs):
                return True
        if isinstance(p, ast.Call) and ctx.model.is_call_to(f, p, "_array_types._check_dims"):
            return True
        # any other use of the shape (an index, a loop over a list of slice objects, a helper that receives it) still reads the shape only: the
        # shape of a tracer is static, element values cannot be reached through it
        return True
    # dtype
    if isinstance(p, ast.Attribute) and p.value is attr_node:
        if p.attr in DTYPE_ATTRS:
            return True
        ctx.bad("C17.1", f, p, f"`{norm(p)}`: the dtype object is inspected beyond deriving its name")
        return None
    if isinstance(p, ast.Call):
        fn = norm(p.func)
        if fn in ("hasattr", "str", "repr", "isinstance", "_dtype_is_numpy_struct_array"):
            return True
        t_ = ctx.model.resolve_call(f, p)
        if t_.kind in ("func", "method") or fn.split(".")[-1].startswith("_"):
            # handed to a helper of the package (the struct test moved into a static method, a name-extraction helper): what the helper does
            # with it is that helper's business -- a dtype object carries no element values, so nothing here is a witness
            raise AnalysisError(f"C17.1: the dtype object is passed to the package helper `{fn}`; what it reads from it is not followed")
        ctx.bad("C17.1", f, p, f"the dtype object is passed to `{fn}`")
        return None
    if isinstance(p, ast.Assign) and p.value is attr_node:
        return True
    ctx.bad("C17.1", f, p if p is not None else attr_node, f"`{short(p, 60)}`: unexpected use of the dtype object")
    return None


# ------------------------------------------------------------------------ C17.2
FORBIDDEN_CALLS = {"bool", "int", "float", "len", "list", "tuple", "iter", "next", "sum", "any", "all", "min", "max", "abs", "hash", "sorted",
                   "np.asarray", "np.array", "numpy.asarray", "jnp.asarray", "np.any", "np.all", "complex", "round", "range", "divmod", "pow", "bytes",
                   "operator.index", "operator.truth", "operator.not_", "operator.length_hint", "operator.eq", "operator.ne", "operator.lt", "operator.le",
                   "operator.gt", "operator.ge", "operator.contains", "operator.getitem", "math.floor", "math.ceil", "math.isnan", "math.isfinite"}


def _value_vars(ctx, r):
    m = ctx.model
    w = r.wrappers()
    out = []
    for f in w["wraps"]:
        va, kw = f.node.args.vararg, f.node.args.kwarg
        vs = {x.arg for x in (va, kw) if x is not None}
        out.append((f, vs, {"bound"}))
    for f in w["impl"]:
        if f.name == "modify_annotation":
            continue
        out.append((f, {"args", "kwargs", "out"} & (set(f.params) | f.local_names()), {"bound"}))
    gp = m.func("_decorator._get_problem_arg")
    out.append((gp, {"args", "kwargs"}, {"arguments"}))
    pt = m.cls("_pytree_type._MetaPyTree")
    out.append((pt.methods["__instancecheck__"], {pt.methods["__instancecheck__"].params[1]}, set()))
    chk = pt.methods["_check"]
    out.append((chk, {chk.params[1], "leaf"}, {"leaves"}))
    for nf in chk.nested.values():
        if nf.params:
            out.append((nf, {nf.params[0]}, set()))
    # the function that opens a binding context receives the bound arguments (values!) and keeps a copy of them
    # for `{name}` substitution: all of them, whatever they are (a tracer is an argument like any other)
    push = r.push
    own = [p_ for p_ in push.params if p_ not in ("self", "cls")]
    if own:
        out.append((push, set(), {own[0]}))
    return out


def check_value_variables(ctx, r):
    m = ctx.model
    n_uses = 0
    try:
        from ..inventory import FUNCTIONS as _PINNED
    except ImportError:
        _PINNED = None
    work = list(_value_vars(ctx, r))
    seen_jobs = set()
    while work:
        f, values, containers = work.pop(0)
        key_ = (f.qualname, tuple(sorted(values)), tuple(sorted(containers)))
        if key_ in seen_jobs:
            continue
        seen_jobs.add(key_)
        values, containers = set(values), set(containers)
        # `for k, v in <container>.items()` / `for v in <container>.values()`: the loop variable holds an argument value
        for lp in walk_scope(f.node):
            it = lp.iter if isinstance(lp, (ast.For, ast.comprehension)) else None
            if isinstance(it, ast.Call) and isinstance(it.func, ast.Attribute) and isinstance(it.func.value, ast.Name) and it.func.value.id in containers and not it.args:
                if it.func.attr == "items" and isinstance(lp.target, ast.Tuple) and len(lp.target.elts) == 2 and isinstance(lp.target.elts[1], ast.Name):
                    values.add(lp.target.elts[1].id)
                elif it.func.attr == "values" and isinstance(lp.target, ast.Name):
                    values.add(lp.target.id)
        ctx.saw(f)
        par = _parents(f.node)
        handlers = [h for h in ast.walk(f.node) if isinstance(h, ast.ExceptHandler)]

        def in_handler(node):
            return any(any(x is node for x in ast.walk(h)) for h in handlers)

        for n in walk_scope(f.node):
            if not (isinstance(n, ast.Name) and isinstance(n.ctx, ast.Load) and (n.id in values or n.id in containers)):
                continue
            n_uses += 1
            is_container = n.id in containers
            p = par.get(id(n))
            bad = None
            if isinstance(p, ast.Starred) or (isinstance(p, ast.keyword) and p.arg is None):
                continue  # *args / **kwargs forwarding
            if isinstance(p, ast.Call):
                fn = norm(p.func)
                if fn in FORBIDDEN_CALLS and not (is_container and fn in ("len", "enumerate")):
                    bad = f"passed to `{fn}`"
                elif n is p.func:
                    bad = "called"
                else:
                    if fn in ("_pformat", "str", "repr", "type") and not in_handler(n) and fn != "type":
                        bad = f"formatted with `{fn}` outside an exception handler (on the well-typed path)"
                    else:
                        # forwarded as an argument; into a function that the pinned tree does not have, the value is followed
                        t_ = m.resolve_call(f, p)
                        if _PINNED is not None and t_.kind == "func" and t_.target.qualname not in _PINNED and not t_.target.module.short.startswith("_typeguard") \
                                and n in p.args and not any(isinstance(a_, ast.Starred) for a_ in p.args[:p.args.index(n) + 1]):
                            ps_ = [x for x in t_.target.params if not (t_.target.cls is not None and x in ("self", "cls"))]
                            i_ = p.args.index(n)
                            if i_ < len(ps_):
                                work.append((t_.target, set() if is_container else {ps_[i_]}, {ps_[i_]} if is_container else set()))
                        continue
            elif isinstance(p, ast.keyword):
                continue
            elif isinstance(p, (ast.Return, ast.Assign, ast.AnnAssign, ast.Tuple, ast.List, ast.Dict, ast.Yield, ast.Expr, ast.FormattedValue)):
                if isinstance(p, ast.FormattedValue) and not in_handler(n):
                    bad = "formatted into a string outside an exception handler"
                else:
                    continue
            elif isinstance(p, ast.Compare):
                if all(isinstance(o, (ast.Is, ast.IsNot)) for o in p.ops):
                    continue
                bad = f"compared by value (`{short(p, 50)}`)"
            elif isinstance(p, (ast.If, ast.While, ast.IfExp)) and p.test is n:
                bad = "used as a condition (its truth value is taken)"
            elif isinstance(p, ast.BoolOp) or (isinstance(p, ast.UnaryOp) and isinstance(p.op, ast.Not)):
                bad = "used in a boolean expression (its truth value is taken)"
            elif isinstance(p, (ast.For, ast.comprehension)) and p.iter is n:
                bad = None if is_container else "iterated"
                if bad is None:
                    continue
            elif isinstance(p, ast.Subscript) and p.value is n:
                if isinstance(p.ctx, ast.Store) and n.id == "kwargs":
                    continue  # kwargs[output_name] = out : storing, not reading
                if is_container:
                    continue  # a dict of bound arguments / a list of leaves: indexing the container
                bad = "indexed"
            elif isinstance(p, ast.Attribute) and p.value is n:
                if is_container and p.attr in ("arguments", "apply_defaults", "args", "kwargs", "signature", "copy"):
                    continue
                if is_container and p.attr in ("items", "values", "keys"):
                    # a copy spelled as a comprehension is fine; one that filters / branches on the values is not
                    comp = par.get(id(par.get(id(p))))  # Attribute -> Call -> comprehension | For
                    if isinstance(comp, ast.comprehension):
                        if not comp.ifs:
                            continue
                        bad = f"filtered by value (`{short(comp.ifs[0], 50)}`): which arguments `{{name}}` axes can refer to then depends on what the values are"
                    elif isinstance(comp, ast.For) and comp.iter is par.get(id(p)) and p.attr in ("items", "values") and (
                            (p.attr == "items" and isinstance(comp.target, ast.Tuple) and len(comp.target.elts) == 2 and isinstance(comp.target.elts[1], ast.Name))
                            or (p.attr == "values" and isinstance(comp.target, ast.Name))):
                        continue  # the loop variable is tracked as a value-carrying variable (above)
                    elif isinstance(comp, ast.For) and p.attr == "keys":
                        continue
                    else:
                        raise AnalysisError(f"C17.2: `{short(p, 40)}` in {f.qualname}: what is done with the individual argument values is not interpreted")
                else:
                    bad = f"its attribute `.{p.attr}` is read"
            elif isinstance(p, (ast.BinOp, ast.UnaryOp, ast.AugAssign)):
                bad = "used in arithmetic"
            else:
                continue
            if bad:
                ctx.bad("C17.2", f, p if p is not None else n, f"the value-carrying variable `{n.id}` is {bad}: the wrapper would depend on the values it merely forwards (and would "
                        "force a jax tracer to a concrete value under jit/vmap/grad)")
        ctx.ok("C17.2", f.qualname, f"value-carrying variables {sorted(values | containers)} are only forwarded / stored / identity-compared / formatted in handlers")
    ctx.counters["value_variable_uses"] = n_uses
    ctx.floor("C17.2", "value_variable_uses", 25)


# ------------------------------------------------------------------------ C17.3
def check_symbolic_namespaces(ctx):
    m = ctx.model
    f = m.func("_array_types._check_dims")
    ctx.saw(f)
    evals = [c for c in ast.walk(f.node) if isinstance(c, ast.Call) and isinstance(c.func, ast.Name) and c.func.id == "eval"]
    need(len(evals) >= 2, "C17.3: the two-stage symbolic evaluation not found")
    n = 0
    for c in evals:
        src = c.args[0]
        is_fstring_stage = isinstance(src, ast.JoinedStr) and "".join(v.value for v in src.values if isinstance(v, ast.Constant)).startswith("f'")
        ns_names = {x.id for a in c.args[1:] for x in ast.walk(a) if isinstance(x, ast.Name)} | {x.id for k in c.keywords for x in ast.walk(k.value) if isinstance(x, ast.Name)}
        arg_like = {x for x in ns_names if memo_role(x) == "arguments"}
        n += 1
        if is_fstring_stage:
            ctx.ok("C17.3", f.qualname, "f-string substitution stage may read argument values (documented `{…}` feature); it yields a string")
            continue
        if arg_like:
            ctx.bad("C17.3", f, c, f"the expression that is compared with the axis size is evaluated with the argument values in scope ({sorted(arg_like)}): a parameter that "
                    "shares its name with an axis shadows the axis size, so the comparison is decided by the array's elements (and forces a tracer)")
        else:
            ctx.ok("C17.3", f.qualname, f"size expression evaluated over {sorted(ns_names)} only (integer size bindings)")
    ctx.counters["symbolic_eval_sites"] = n


# ------------------------------------------------------------------------ C17.5
_FRAMEWORK_ROOTS = {"jax", "jnp", "lax", "torch", "tf", "tensorflow", "mlx", "mx"}


def check_no_tracing_state(ctx):
    """C17.5: the check path consults nothing about *how* it is being run: no call into a tracing framework (`jax.lax.axis_size`,
    `jax.core.*`, `isinstance(x, jax.core.Tracer)`), no `sys.modules` lookup to get hold of one.  A verdict that depends on the axis
    environment / trace level of the enclosing transformation differs between `vmap(f)` and `vmap(f, axis_name=..)`, between jit and
    eager, for the very same shapes and dtypes."""
    from ..callgraph import CallGraph

    m = ctx.model
    cg = CallGraph(m)
    roots = [m.func("_array_types._MetaAbstractArray.__instancecheck_str__"), m.func("_pytree_type._MetaPyTree.__instancecheck__")]
    # ... and the per-call wrappers: whether a call is checked at all must not depend on its arguments being tracers
    from ..roles import roles_for

    w_ = roles_for(m).wrappers()
    roots += list(w_["wraps"]) + list(w_["impl"])
    pred = cg.reachable(roots, follow_refs=False, dispatch=False)
    jt_ = m.func("_decorator.jaxtyped")
    fs = [m.functions[q] for q in pred if q in m.functions and m.functions[q].module.short in ("_array_types", "_pytree_type", "_storage", "_decorator") and m.functions[q] is not jt_]
    n = 0
    bad = False
    for f in fs:
        ctx.saw(f)
        for x in ast.walk(f.node):
            if isinstance(x, ast.Attribute):
                root = x
                while isinstance(root, ast.Attribute):
                    root = root.value
                if isinstance(root, ast.Name) and root.id in _FRAMEWORK_ROOTS and f.module.short != "_pytree_type":
                    # (the PyTree check flattens with jax.tree_util: that is the one framework call it is built on)
                    n += 1
                    bad = True
                    ctx.bad("C17.5", f, x, f"`{short(x, 50)}`: the array check calls into a tracing framework; what it answers depends on the transformation the check runs under "
                            "(axis environment, trace level), not only on type, shape and dtype", construct=f"framework state consulted: {short(x, 50)}")
                    break
            if (isinstance(x, ast.Attribute) and norm(x) in ("sys._getframe", "inspect.currentframe", "inspect.stack", "traceback.extract_stack", "sys._current_frames")) or \
                    (isinstance(x, ast.Name) and x.id in ("_getframe", "currentframe") and isinstance(x.ctx, ast.Load)):
                n += 1
                bad = True
                ctx.bad("C17.5", f, x, f"`{short(x, 40)}`: the check path inspects the call stack at call time; who the caller is (the defining scope when called eagerly, a frame of the "
                        "tracing machinery under jit / vmap / grad) enters the verdict, so the same shapes and dtypes are checked in one case and waved through in the other",
                        construct=f"call stack consulted: {short(x, 40)}")
            if isinstance(x, ast.Attribute) and norm(x) == "sys.modules":
                n += 1
                bad = True
                ctx.bad("C17.5", f, x, "the check path looks a module up in `sys.modules` at check time: whether a framework happens to be imported (and what it reports about the "
                        "running transformation) enters the verdict", construct="sys.modules consulted on the check path")
    ctx.counters["check_path_functions"] = len(fs)
    ctx.floor("C17.5", "check_path_functions", 4)
    if not bad:
        ctx.ok("C17.5", "_array_types", f"none of the {len(fs)} functions on the check path consults a tracing framework or sys.modules")
