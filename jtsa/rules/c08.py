"""C08 -- PyTree[L] accepts exactly the trees all of whose leaves match L.

The property as a whole quantifies over runtime tree values and jax.tree_util's flattening;
what is decided here are the clauses whose truth is in the shape of the code (each a
necessary condition: breaking it breaks the behaviour for some tree):
  C08.1 trivial acceptances come first: bare `PyTree` (no leaf type) accepts everything and a
        top-level None is accepted, before any binding is read.
  C08.2 the tree is flattened from the checked value itself with `is_leaf=` the leaf predicate;
        unless the leaf type is Any, the predicate that decides what counts as a leaf while
        flattening *is* the predicate that later checks each leaf (same function object), so a
        subtree that matches L is a leaf; for Any: flatten never stops early, every leaf passes.
  C08.3 every leaf is handed to the leaf check; a failing leaf rejects at once; acceptance
        (`return True`) is reachable only after the loop is exhausted.
  C08.4 the leaf predicate is a *full* type check of the leaf type by the vendored typeguard
        (`typechecked` function annotated with `cls.leaftype`), false exactly on TypeError.
  C08.5 shared context: the PyTree check and everything it calls directly never pushes or pops a
        binding context and does not go through `jaxtyped`, so array-annotated leaves share axis
        bindings with one another and with the rest of the context.
  C08.6 a rejected (or raising) tree binds nothing: the rollback typestate of C04.1/C04.2 at the
        PyTree site.
  C08.7 while flattening, array annotations only look at the array type: the flatten-mode flag
        is set around exactly the flatten call and has its entry value at every exit (C12.1).
Not decided: which containers jax.tree_util treats as nodes (None, empty containers,
namedtuples, registered nodes), PyTree[L] == PyTree[PyTree[L]] as sets of values.
"""
from __future__ import annotations

import ast

from ..callgraph import CallGraph
from ..core import AnalysisError, RuleContext, need, norm, short
from ..model import walk_scope
from ..roles import node_calls, roles_for
from ..typestate import NoReturn, StackBalance
from . import c04
from ._flags import run_flag_typestate

EXPLANATION = __doc__


def run(ctx: RuleContext):
    m = ctx.model
    r = roles_for(m)
    ctx.sub(check_trivial_acceptances, ctx, r)
    ctx.sub(check_flatten_and_predicates, ctx)
    ctx.sub(check_leaf_loop, ctx)
    ctx.sub(check_leaf_predicate, ctx)
    ctx.sub(check_shared_context, ctx, r)
    ctx.sub(check_rollback, ctx, r)
    ctx.sub(check_flatten_flag, ctx)
    ctx.sub(check_union_kinds_agree, ctx)


def _meta(ctx):
    return ctx.model.cls("_pytree_type._MetaPyTree")


# ------------------------------------------------------------------------ C08.1
def check_trivial_acceptances(ctx, r):
    m = ctx.model
    f = _meta(ctx).methods["__instancecheck__"]
    ctx.saw(f)
    g = NoReturn(m).cfg(f)
    dom = g.dominators()
    get_nodes = [n for n in g.live_nodes() if any(r.role_of_call(f, c) == "get_shape_memo" for c in node_calls(n))]
    need(get_nodes, "PyTree.__instancecheck__ no longer reads the context")
    cls_, obj = f.params[0], f.params[1]

    # walked on the CFG for the two input classes, however the guards are spelled (two ifs, one `or`,
    # flipped tests): the walk must end in `return True` without ever reaching the read of the context
    from ..absim import eval_bool, simulate

    get_ids = {n.id for n in get_nodes}

    def stop(n):
        return n.id in get_ids or n.kind in ("return", "raise", "exit", "exit_e", "exit_b", "falloff")

    def mk_atom(bare, none):
        def atom(e):
            t = norm(e)
            if isinstance(e, ast.Call) and norm(e.func) == "hasattr" and len(e.args) == 2 and norm(e.args[0]) == cls_ and isinstance(e.args[1], ast.Constant) and e.args[1].value == "leaftype":
                return None if bare is None else (not bare)
            if isinstance(e, ast.Compare) and len(e.ops) == 1 and isinstance(e.ops[0], (ast.Is, ast.IsNot)):
                l, r_ = norm(e.left), norm(e.comparators[0])
                if {l, r_} == {obj, "None"}:
                    if none is None:
                        return None
                    return none if isinstance(e.ops[0], ast.Is) else (not none)
            return None
        return atom

    # the bare form is told apart by `hasattr(cls, "leaftype")`: the base class itself must not carry that attribute
    # (the namespace it is created with, a class body, or an assignment on the class afterwards)
    pmod = m.module("_pytree_type")
    for st in ast.walk(pmod.tree):
        if isinstance(st, ast.Assign) and any(isinstance(t, ast.Name) and t.id == "PyTree" for t in st.targets) and isinstance(st.value, ast.Call) and len(st.value.args) == 3 \
                and isinstance(st.value.args[2], ast.Dict):
            keys = [k.value for k in st.value.args[2].keys if isinstance(k, ast.Constant)]
            if "leaftype" in keys:
                ctx.bad("C08.1", (pmod.relpath, "_pytree_type.<module>"), st, "the bare `PyTree` class is created with a `leaftype` attribute: `hasattr(cls, 'leaftype')` no longer tells "
                        "it apart, so `isinstance(x, PyTree)` flattens and checks x (and can raise) instead of accepting everything", construct="PyTree namespace defines leaftype")
            else:
                ctx.ok("C08.1", "_pytree_type.PyTree", f"the bare class is created without `leaftype` (namespace keys {keys})")
        if isinstance(st, ast.Assign) and any(isinstance(t, ast.Attribute) and isinstance(t.value, ast.Name) and t.value.id == "PyTree" and t.attr == "leaftype" for t in st.targets):
            ctx.bad("C08.1", (pmod.relpath, "_pytree_type.<module>"), st, "`PyTree.leaftype` is assigned on the bare class: `hasattr(cls, 'leaftype')` no longer tells the bare form apart",
                    construct="PyTree.leaftype = ...")
    for label, bare, none in (("bare `PyTree` (no leaf type) accepts everything", True, None), ("a top-level None is accepted", False, True)):
        outs = simulate(g, g.entry, stop, lambda n, a_=mk_atom(bare, none): eval_bool(n.ast, a_))
        need(outs, "C08.1: PyTree.__instancecheck__ has no path at all")
        reads = [o for o in outs if o.end.id in get_ids]
        rejects = [o for o in outs if o.end.id not in get_ids and not (o.end.kind == "return" and isinstance(o.end.ast.value, ast.Constant) and o.end.ast.value.value is True)]
        if reads:
            ctx.bad("C08.1", f, f.node, f"{label}: the accepting early return is gone (the check goes on to read the context and flatten the value)", construct=f"early accept: {label}")
        elif rejects:
            o = rejects[0]
            ctx.bad("C08.1", f, o.end.ast if o.end.ast is not None else f.node, f"{label}: this input ends in `{o.end.text()}` instead of `return True`")
        else:
            ctx.ok("C08.1", f.qualname, f"{label}: every path for this input returns True before any binding is read")
    # ... and nothing else is accepted that early: for an ordinary value (leaf type present, not None) no path returns True before the
    # context is read and the leaves are checked -- whatever other condition (a flag, a cache hit) guards it
    outs = simulate(g, g.entry, stop, lambda n, a_=mk_atom(False, False): eval_bool(n.ast, a_))
    early = [o for o in outs if o.end.id not in get_ids and o.end.kind == "return" and isinstance(o.end.ast.value, ast.Constant) and o.end.ast.value.value is True]
    if early:
        o = early[0]
        tests = [n_ for n_ in o.path if getattr(n_, "kind", None) == "test"] if hasattr(o, "path") else []
        under = f" (under `{short(tests[-1].ast, 60)}`)" if tests else ""
        if any(isinstance(x, ast.Attribute) and x.attr == "leaftype" for t_ in tests for x in ast.walk(t_.ast)):
            # a short cut decided by the leaf type itself (`cls.leaftype is Any`: every leaf matches) can be sound
            raise AnalysisError(f"C08.1: an early acceptance is guarded by a condition on the leaf type{under}; whether every leaf then matches is not decided statically")
        ctx.bad("C08.1", f, o.end.ast, f"a value that is neither None nor checked against the bare `PyTree` is accepted before its leaves were looked at{under}: "
                "`PyTree[L]` would accept trees with leaves that do not match L (or claim a whole subtree as one leaf of an enclosing PyTree)", construct="early accept of an ordinary value")
    else:
        ctx.ok("C08.1", f.qualname, "no other early acceptance: an ordinary value reaches the leaf check on every path")


# ------------------------------------------------------------------------ C08.2
def check_flatten_and_predicates(ctx):
    m = ctx.model
    f = _meta(ctx).methods["_check"]
    ctx.saw(f)
    obj = f.params[1]
    fl = [c for c in m.calls_in(f) if norm(c.func) in ("jtu.tree_flatten", "jax.tree_util.tree_flatten", "tree_flatten")]
    need(len(fl) == 1, f"PyTree._check: expected one tree_flatten call, found {len(fl)}")
    c = fl[0]
    if not (c.args and norm(c.args[0]) == obj):
        ctx.bad("C08.2", f, c, f"the tree that is flattened is `{norm(c.args[0]) if c.args else '?'}`, not the checked value")
    kw = {k.arg: k.value for k in c.keywords}
    pred = kw.get("is_leaf")
    if pred is None:
        ctx.bad("C08.2", f, c, "the tree is flattened without `is_leaf=`: a subtree that itself matches the leaf type (e.g. a tuple for PyTree[tuple[int, int]]) is "
                "taken apart instead of counting as a leaf")
        return
    need(isinstance(pred, ast.Name), "C08.2: is_leaf is not a plain name")
    ctx.ok("C08.2", f.qualname, f"tree_flatten({obj}, is_leaf={pred.id})")
    # the two branches on `cls.leaftype is Any`
    top = [st for st in f.body if isinstance(st, ast.If) and "leaftype is Any" in norm(st.test)]
    need(len(top) == 1, "C08.2: dispatch on `cls.leaftype is Any` not found")
    st = top[0]
    pol = not norm(st.test).startswith("not ") and "is not Any" not in norm(st.test)
    any_side, typed_side = (st.body, st.orelse) if pol else (st.orelse, st.body)
    # typed side: flatten predicate and check predicate are the same function
    same = [a for x in typed_side for a in ast.walk(x) if isinstance(a, ast.Assign) and len(a.targets) == 2 and {norm(t) for t in a.targets} == {"is_flatten_leaftype", "is_check_leaftype"}]
    if not same:
        fdefs = [norm(a.value) for x in typed_side for a in ast.walk(x) if isinstance(a, ast.Assign) and any(norm(t) == "is_flatten_leaftype" for t in a.targets)]
        cdefs = [norm(a.value) for x in typed_side for a in ast.walk(x) if isinstance(a, ast.Assign) and any(norm(t) == "is_check_leaftype" for t in a.targets)]
        if fdefs and cdefs and fdefs == cdefs:
            ctx.ok("C08.2", f.qualname, f"flatten predicate and check predicate are both `{fdefs[0]}`")
        else:
            ctx.bad("C08.2", f, st, f"what counts as a leaf while flattening ({fdefs or 'a separate def'}) is not the predicate that checks the leaves ({cdefs or 'a separate def'}): "
                    "a subtree matching L may be taken apart, or a non-matching one kept whole")
    else:
        ctx.ok("C08.2", f.qualname, f"flatten predicate and check predicate are the same function (`{norm(same[0].value)}`)")
    # ... and nowhere on the typed side is the *check* predicate re-defined as something that can accept a leaf without running the
    # acceptor on it now (`return id(x) in accepted or is_leaftype(x)`: what `is_leaf` answered during the flatten is shallow for every
    # leaf type that contains an array annotation -- the flatten-time short cut of the array check)
    for d_ in [y for x in typed_side for y in ast.walk(x) if isinstance(y, ast.FunctionDef) and y.name == "is_check_leaftype"]:
        rets_ = [y for y in ast.walk(d_) if isinstance(y, ast.Return) and y.value is not None]
        p0 = d_.args.args[0].arg if d_.args.args else None
        for rt in rets_:
            v_ = rt.value
            if isinstance(v_, ast.Call) and norm(v_.func) in ("is_leaftype", "accepts_leaftype") and [norm(a) for a in v_.args] == [p0]:
                continue
            if isinstance(v_, ast.BoolOp) and isinstance(v_.op, ast.Or) and any(isinstance(o_, ast.Call) and norm(o_.func) == "is_leaftype" for o_ in v_.values):
                other = [norm(o_) for o_ in v_.values if not (isinstance(o_, ast.Call) and norm(o_.func) == "is_leaftype")]
                ctx.bad("C08.2", f, rt, f"the predicate that checks the leaves accepts a leaf on `{' or '.join(other)}` without running the type-checked acceptor on it after the flatten: "
                        "the answer given while flattening is shallow for leaf types that contain an array annotation (only the array type was looked at), so leaves of any "
                        "dtype / shape are accepted and bind nothing", construct="check predicate short-cuts the acceptor")
            elif isinstance(v_, ast.Constant) and v_.value is True:
                ctx.bad("C08.2", f, rt, "the predicate that checks the leaves of a typed PyTree accepts unconditionally", construct="check predicate returns True")
            else:
                raise AnalysisError(f"C08.2: the check predicate is re-defined on the typed side (`{short(rt, 60)}`); what it accepts is not decided")
    # Any side: constants
    consts = {}
    for x in any_side:
        if isinstance(x, ast.FunctionDef):
            rets = [y for y in ast.walk(x) if isinstance(y, ast.Return)]
            if len(rets) == 1 and isinstance(rets[0].value, ast.Constant):
                consts[x.name] = rets[0].value.value
    # ... or names bound to a constant predicate defined elsewhere (`is_flatten_leaftype = _never_a_leaf`, a lambda)
    unknown_any = []
    for x in any_side:
        if isinstance(x, ast.Assign) and all(isinstance(t, ast.Name) for t in x.targets):
            v = x.value
            val = None
            if isinstance(v, ast.Lambda) and isinstance(v.body, ast.Constant):
                val = v.body.value
            elif isinstance(v, ast.Name):
                b_ = m.resolve_name(f, v.id)
                if b_.kind == "func":
                    rets = [y for y in ast.walk(b_.target.node) if isinstance(y, ast.Return)]
                    if len(rets) == 1 and isinstance(rets[0].value, ast.Constant):
                        val = rets[0].value.value
            for t in x.targets:
                if val is None:
                    unknown_any.append(t.id)
                else:
                    consts[t.id] = val
    if unknown_any and not ({"is_flatten_leaftype", "is_check_leaftype"} <= set(consts)):
        raise AnalysisError(f"C08.2: for PyTree[Any] the predicates {unknown_any} are bound to something the rule cannot evaluate")
    if consts.get("is_flatten_leaftype") is not False or consts.get("is_check_leaftype") is not True:
        ctx.bad("C08.2", f, st, f"for PyTree[Any] the flatten predicate / check predicate are {consts} (must be: never a leaf early -> False; every leaf passes -> True)",
                construct=f"Any predicates {consts}")
    else:
        ctx.ok("C08.2", f.qualname, "PyTree[Any]: flatten never stops early, every leaf passes")
    if pred.id != "is_flatten_leaftype":
        ctx.bad("C08.2", f, c, f"is_leaf is `{pred.id}`, not the flatten predicate")


# ------------------------------------------------------------------------ C08.3
def check_leaf_loop(ctx):
    m = ctx.model
    f = _meta(ctx).methods["_check"]
    g = NoReturn(m).cfg(f)
    hdrs = [n for n in g.live_nodes() if n.kind == "for" and isinstance(n.ast.iter, ast.Call) and norm(n.ast.iter.func) == "enumerate" and norm(n.ast.iter.args[0]) == "leaves"]
    if not hdrs:
        hdrs = [n for n in g.live_nodes() if n.kind == "for" and norm(n.ast.iter) == "leaves"]
    need(len(hdrs) == 1, "C08.3: the leaves loop not found")
    hdr = hdrs[0]
    tgt = hdr.ast.target
    leaf = tgt.elts[1].id if isinstance(tgt, ast.Tuple) else tgt.id
    # leaves come from the flatten call
    defs = [a for a in walk_scope(f.node) if isinstance(a, ast.Assign) and any("leaves" in [norm(e) for e in (t.elts if isinstance(t, ast.Tuple) else [t])] for t in a.targets)]
    if not any(isinstance(a.value, ast.Call) and "tree_flatten" in norm(a.value.func) for a in defs):
        ctx.bad("C08.3", f, hdr.ast, "the loop does not run over the leaves produced by tree_flatten")
    else:
        # ... by the flatten of *this* value in *this* activation: a second source (a remembered flatten result read back from the class or a
        # table) is stale as soon as the container was mutated in between -- leaves added since are never looked at
        obj_p = f.params[1] if len(f.params) > 1 else "obj"
        other = [a for a in defs if not (isinstance(a.value, ast.Call) and "tree_flatten" in norm(a.value.func) and a.value.args and norm(a.value.args[0]) == obj_p)
                 and not (isinstance(a.value, ast.Constant) and a.value.value is None)]  # (`leaves = None` before a `with` / `try` is a placeholder, not a source)
        if other:
            ctx.bad("C08.3", f, other[0], f"the leaves that are checked can also come from `{short(other[0].value, 50)}`, not from flattening the value being checked in this call: "
                    "a remembered flatten result misses leaves added to (or changed in) a mutable container since", construct="leaves not from this call's tree_flatten")
        else:
            ctx.ok("C08.3", f.qualname, "the checked leaves have one source: tree_flatten of the value, in this call")
    body_ids = g.reach_from([s for k, s in hdr.succ if k == "loop"][0], avoid=lambda n: n is hdr)
    checks = []
    for nid in body_ids:
        n = g.nodes[nid]
        for c in node_calls(n):
            # the leaf is handed to the check predicate, directly or through a helper
            if any(isinstance(a, ast.Name) and a.id == leaf for a in c.args) and m.resolve_call(f, c).kind in ("callout", "func", "method"):
                checks.append((n, c))
    if not checks:
        ctx.bad("C08.3", f, hdr.ast, "no call in the leaves loop receives the leaf: the leaves are not checked", construct="no check call on the leaf")
        return
    # a helper must (transitively) apply the check predicate it is given to the leaf it is given
    for n, c in checks:
        t = m.resolve_call(f, c)
        if t.kind == "func" and t.target.parent is not f:
            helper = t.target
            ok_h = False
            for c2 in m.calls_in(helper):
                t2 = m.resolve_call(helper, c2)
                if t2.kind == "callout" and any(isinstance(a, ast.Name) and a.id in helper.params for a in c2.args) and c2.func.id in helper.params:
                    ok_h = True
            if not ok_h:
                raise AnalysisError(f"C08.3: the leaf is handed to `{helper.qualname}`, in which the application of the leaf predicate to the leaf was not recognised")
    for n, c in checks:
        is_plain = n.kind == "stmt" and isinstance(n.ast, ast.Assign) and len(n.ast.targets) == 1 and isinstance(n.ast.targets[0], ast.Name) and n.ast.value is c
        is_ann = n.kind == "stmt" and isinstance(n.ast, ast.AnnAssign) and isinstance(n.ast.target, ast.Name) and n.ast.value is c  # `ok: bool = check(leaf)`
        if is_plain or is_ann:
            # `ok = check(leaf)` ... `if not ok: return False`: followed on the CFG for both results
            from ..absim import eval_bool, simulate

            var = n.ast.targets[0].id if is_plain else n.ast.target.id
            nxt = [s_ for k_, s_ in n.succ if k_ == "n"]
            need(len(nxt) == 1, "C08.3: the statement holding the leaf check has no unique successor")

            def stop(x):
                return x.kind in ("return", "raise", "exit", "exit_e", "exit_b", "falloff") or x is hdr or (x is not n and x.id in {y.id for y, _ in checks})

            verdicts = {}
            for val in ("false", "true"):
                outs = simulate(g, nxt[0], stop, lambda x: eval_bool(x.ast, lambda e: None), None, None, env0={var: val})
                verdicts[val] = outs
            rej = [o for o in verdicts["false"] if o.end.kind == "return" and isinstance(o.end.ast.value, ast.Constant) and o.end.ast.value.value is False]
            if len(rej) != len(verdicts["false"]) or not rej:
                o = next((o for o in verdicts["false"] if o not in rej), None)
                ctx.bad("C08.3", f, n.ast, "a leaf that fails the check does not make the tree be rejected: with a false result the walk reaches "
                        f"`{o.end.text()[:50] if o is not None else '?'}`")
            elif any(o.end.kind == "return" and isinstance(o.end.ast.value, ast.Constant) and o.end.ast.value.value is False for o in verdicts["true"]):
                ctx.bad("C08.3", f, n.ast, "a leaf that passes the check makes the tree be rejected")
            else:
                ctx.ok("C08.3", f.qualname, "a leaf that fails the check rejects the tree at once (result carried in a local)")
            continue
        if n.kind != "test":
            ctx.bad("C08.3", f, n.ast, "the result of the leaf check is not tested")
            continue
        t = n.ast
        neg = isinstance(t, ast.UnaryOp) and isinstance(t.op, ast.Not) and t.operand is c
        pos = t is c
        if not (neg or pos):
            ctx.bad("C08.3", f, t, f"the leaf check is combined with something else (`{norm(t)}`)")
            continue
        fail_side = "t" if neg else "f"
        ok = False
        from ..absim import eval_bool, simulate

        def stop_(x):
            return x.kind in ("return", "raise", "exit", "exit_e", "exit_b", "falloff") or x is hdr

        for k, s in n.succ:
            if k == fail_side:
                # every continuation of a failed leaf check ends in `return False` (directly, through the finally
                # that clears the leaf label, or through a verdict local of an inlined predicate)
                outs = simulate(g, s, stop_, lambda x: eval_bool(x.ast, lambda e: None), None, None)
                ok = bool(outs) and all(o.end.kind == "return" and isinstance(o.end.ast.value, ast.Constant) and o.end.ast.value.value is False for o in outs)
        if ok:
            ctx.ok("C08.3", f.qualname, "a leaf that fails the check rejects the tree at once (return False)")
        else:
            ctx.bad("C08.3", f, t, "a leaf that fails the check does not make the tree be rejected")
    # no accepting return inside the loop body; the accepting return follows the exhausted loop
    for nid in body_ids:
        n = g.nodes[nid]
        if n.kind == "return" and isinstance(n.ast.value, ast.Constant) and n.ast.value.value is True:
            ctx.bad("C08.3", f, n.ast, "the tree is accepted from inside the leaves loop (before every leaf was checked)")
    after = [s for k, s in hdr.succ if k == "done"]
    acc = False
    x = after[0] if after else None
    hops = 0
    while x is not None and hops < 6:
        hops += 1
        if x.kind == "return":
            acc = isinstance(x.ast.value, ast.Constant) and x.ast.value.value is True
            break
        nx = [y for kk, y in x.succ if kk == "n"]
        x = nx[0] if len(nx) == 1 else None
    if acc:
        ctx.ok("C08.3", f.qualname, "acceptance only after the loop is exhausted")
    else:
        ctx.bad("C08.3", f, hdr.ast, "after all leaves passed the tree is not accepted (`return True` does not follow the exhausted loop)")
    # every iteration passes a check node (shared with C16.6)
    check_ids = {n.id for n, _ in checks}
    seen, stack, skipped = set(), [s for k, s in hdr.succ if k == "loop"], False
    while stack:
        n = stack.pop()
        if n.id in seen or n.id in check_ids:
            continue
        seen.add(n.id)
        if n is hdr:
            skipped = True
            break
        for k, s in n.succ:
            if k in ("e", "b") or s.kind in ("exit", "exit_e", "exit_b"):
                continue
            stack.append(s)
    if skipped:
        ctx.bad("C08.3", f, hdr.ast, "an iteration of the leaves loop can go on to the next leaf without having checked this one", construct="leaves loop: iteration skips the check")
    else:
        ctx.ok("C08.3", f.qualname, "every iteration checks its leaf before the next one starts")


# ------------------------------------------------------------------------ C08.4
def check_leaf_predicate(ctx):
    m = ctx.model
    f = _meta(ctx).methods["_check"]
    acc = f.nested.get("accepts_leaftype")
    isl = f.nested.get("is_leaftype")
    acc_name, leaf_param = "accepts_leaftype", None
    if acc is not None and isl is None:
        # the predicate lifted to module level with the acceptor as an explicit parameter: `is_leaftype = lambda x: H(accepts_leaftype, x)`
        # (what `functools.partial(H, accepts_leaftype)` stands for): H is read with its first parameter standing for the acceptor
        for st in walk_scope(f.node):
            if isinstance(st, ast.Assign) and any(isinstance(t_, ast.Name) and t_.id in ("is_leaftype", "is_check_leaftype", "is_flatten_leaftype") for t_ in st.targets) \
                    and isinstance(st.value, ast.Lambda) and isinstance(st.value.body, ast.Call) and len(st.value.args.args) == 1 and len(st.value.body.args) == 2 \
                    and norm(st.value.body.args[0]) == "accepts_leaftype" and norm(st.value.body.args[1]) == st.value.args.args[0].arg:
                t_ = m.resolve_call(f, st.value.body)
                if t_.kind == "func" and len(t_.target.params) == 2:
                    isl = t_.target
                    acc_name, leaf_param = isl.params[0], isl.params[1]
    if acc is None or isl is None:
        raise AnalysisError("C08.4: the leaf predicate (accepts_leaftype / is_leaftype) is not present in a recognised form")
    ctx.saw(acc)
    ctx.saw(isl)
    decs = [m.resolve_expr_static(f, d.func if isinstance(d, ast.Call) else d) for d in acc.decorators]
    if not any(getattr(d, "qualname", "") == "_typeguard.typechecked" for d in decs):
        ctx.bad("C08.4", acc, acc.node, "the leaf acceptor is not type-checked by the vendored typeguard (`@typechecked`): compound leaf types such as tuple[int, int] or unions "
                "would be checked by a bare isinstance or not at all", construct="accepts_leaftype decorators")
    else:
        ctx.ok("C08.4", acc.qualname, "@typechecked (vendored typeguard): full check of compound leaf types")
    a = acc.node.args.args
    if not (len(a) == 1 and a[0].annotation is not None and norm(a[0].annotation) == f"{f.params[0]}.leaftype"):
        ctx.bad("C08.4", acc, acc.node, f"the leaf acceptor's parameter is annotated `{norm(a[0].annotation) if a and a[0].annotation is not None else None}`, not with the annotation's leaf type")
    else:
        ctx.ok("C08.4", acc.qualname, f"parameter annotated with {f.params[0]}.leaftype")
    tries = [t for t in walk_scope(isl.node) if isinstance(t, ast.Try)]
    ok = False
    if len(tries) == 1:
        t = tries[0]
        calls = [c for b in t.body for c in ast.walk(b) if isinstance(c, ast.Call) and norm(c.func) == acc_name and [norm(x) for x in c.args] == [leaf_param or isl.params[0]]]
        hs = [h for h in t.handlers if h.type is not None and norm(h.type) == "TypeError"]
        if calls and len(t.handlers) == 1 and hs and any(isinstance(x, ast.Return) and isinstance(x.value, ast.Constant) and x.value.value is False for x in hs[0].body) \
                and any(isinstance(x, ast.Return) and isinstance(x.value, ast.Constant) and x.value.value is True for x in t.orelse + [y for y in isl.body if y is not t]):
            ok = True
    if ok:
        ctx.ok("C08.4", isl.qualname, "leaf predicate: False exactly when the typeguard check raises TypeError, else True")
    else:
        ctx.bad("C08.4", isl, isl.node, "the leaf predicate is not 'run the type-checked acceptor on the leaf; False on TypeError (and only TypeError), else True'", construct="is_leaftype shape")


# ------------------------------------------------------------------------ C08.5
def check_shared_context(ctx, r):
    m = ctx.model
    f = _meta(ctx).methods["_check"]
    sb = StackBalance(m, r)
    cg = CallGraph(m)
    pred = cg.reachable([f], follow_refs=False, dispatch=False)
    for q in (r.push.qualname, r.pop.qualname, "_decorator.jaxtyped"):
        if q in pred:
            ctx.bad("C08.5", f, f.node, f"the PyTree check reaches `{q}` ({' -> '.join(cg.chain(pred, q))}): leaves would be checked in a context of their own and no longer share "
                    "axis bindings with one another and with the rest of the call", construct=f"_check reaches {q}")
    s = sb.summary(f)
    if s is not None and s.touches:
        ctx.bad("C08.5", f, f.node, "the PyTree check pushes or pops a binding context", construct="_check touches the context stack")
    else:
        ctx.ok("C08.5", f.qualname, f"{len(pred)} directly reachable functions; none pushes/pops a context or goes through jaxtyped")
    for nf in f.nested.values():
        for d in nf.decorators:
            t = m.resolve_expr_static(f, d.func if isinstance(d, ast.Call) else d)
            if getattr(t, "qualname", "") == "_decorator.jaxtyped" or norm(d).startswith("jaxtyped"):
                ctx.bad("C08.5", nf, nf.node, "the leaf acceptor is wrapped in `jaxtyped`: every leaf would get a fresh binding context")


# ------------------------------------------------------------------------ C08.6 / C08.7
def check_rollback(ctx, r):
    n0 = len(ctx.findings)
    sites = [s for s in c04.find_sites(ctx, r) if s.fn.module.short == "_pytree_type"]
    ctx.counters["pytree_rollback_sites"] = len(sites)
    ctx.floor("C08.6", "pytree_rollback_sites", 1)
    try:
        for s in sites:
            c04.check_site(ctx, r, s)
        # the restore itself must put every binding back ("a rejected tree binds nothing")
        from . import c05

        stack_tl, stack_attr, _ = c05.locate_stack(r)
        c05._check_set(ctx, r, r.set, stack_tl, stack_attr, "C08.6")
    finally:
        for f in ctx.findings[n0:]:
            f.rule = "C08.6"
        for o in ctx.obligations:
            if o.rule.startswith("C04."):
                o.rule = "C08.6"


def check_flatten_flag(ctx):
    m = ctx.model
    n0 = len(ctx.findings)
    try:
        run_flag_typestate(ctx, "C08.7", only_attr_of=lambda fl: not fl.guarded_setters and not fl.raising_getters)
    finally:
        pass
    # the flag is set before the flatten call (by a setter or a context-manager helper)
    from ..flagstate import discover_flags
    from . import c05

    f = _meta(ctx).methods["_check"]
    r = roles_for(m)
    g = NoReturn(m).cfg(f)
    stack_tl, _, _ = c05.locate_stack(r)
    flags = [fl for fl in discover_flags(m, r, stack_tl) if not fl.guarded_setters and not fl.raising_getters]
    need(len(flags) == 1, "C08.7: flatten-mode flag not identified")
    setters = {x.qualname for x in flags[0].setters + flags[0].mixed}
    # helpers (context managers of other modules, wrappers) that call a setter themselves
    for _round in range(2):
        for fn_ in m.all_functions(include_typeguard=False):
            if fn_.qualname in setters or fn_ is f:
                continue
            for c in m.calls_in(fn_):
                t = m.resolve_call(fn_, c)
                if t.kind == "func" and t.target.qualname in setters:
                    # (a context-manager helper may live in any module, the storage module included;
                    # whether it also clears the flag on every exit is the flag typestate's question)
                    if any(isinstance(x, (ast.Yield, ast.YieldFrom)) for x in walk_scope(fn_.node)) or fn_.name == "__enter__":
                        setters.add(fn_.qualname)

    cm_classes = {c.qualname for c in flags[0].cms}

    def sets(n):
        for c in node_calls(n):
            t = m.resolve_call(f, c)
            if t.kind == "func" and t.target.qualname in setters:
                return True
            if n.kind == "with_enter" and t.kind == "class" and (t.target.qualname in cm_classes or (
                    "__enter__" in t.target.methods and t.target.methods["__enter__"].qualname in setters)):
                return True  # a class-based context manager whose pairing is judged by the flag typestate
        return False

    set_nodes = [n for n in g.live_nodes() if sets(n)]
    flat_nodes = [n for n in g.live_nodes() if any("tree_flatten" in norm(c.func) for c in node_calls(n))]
    need(flat_nodes, "C08.7: tree_flatten call not found in the CFG")
    dom = g.dominators()
    for fn_ in flat_nodes:
        if not any(s_.id in dom[fn_.id] for s_ in set_nodes):
            # inside a `with` of a context manager of the package that this rule does not know as a setter: what its __enter__ does is not followed
            for w_ in ast.walk(f.node):
                if isinstance(w_, ast.With) and any(x_ is fn_.ast or any(y_ is fn_.ast for y_ in ast.walk(x_)) for x_ in w_.body):
                    for it_ in w_.items:
                        if isinstance(it_.context_expr, ast.Call) and m.resolve_call(f, it_.context_expr).kind != "ext":
                            raise AnalysisError(f"C08.7: the tree is flattened inside `with {short(it_.context_expr, 40)}:`; whether that context manager sets (and clears) the "
                                                "flatten-mode flag is not followed")
            ctx.bad("C08.7", f, fn_.ast, "the tree is flattened without the flatten-mode flag having been set: array leaf types would run full shape checks (binding axes, "
                    "evaluating '?' labels) while jax is still deciding what the leaves are")
        else:
            ctx.ok("C08.7", f.qualname, "flatten-mode flag set before tree_flatten")


# ------------------------------------------------------------------------ C08.8
def check_union_kinds_agree(ctx):
    """The leaf predicate is the vendored typeguard's `check_type`.  Every kind of union that jaxtyping itself treats
    as a union when an annotation is built (`_array_types._union_types`: `typing.Union` and, on Python >= 3.10,
    `types.UnionType` = `int | str`) must be dispatched to `check_union` there: `check_type` ends without raising
    for a type object it does not recognise, so an unrecognised union makes `PyTree[A | B]` accept every leaf.
    (Writer / reader agreement between two sibling tables of the package; defect F12.)"""
    m = ctx.model
    at = m.module("_array_types")
    kinds = set()
    for st in ast.walk(at.tree):
        if isinstance(st, ast.Assign) and any(isinstance(t, ast.Name) and t.id == "_union_types" for t in st.targets):
            for x in ast.walk(st.value):
                if isinstance(x, (ast.Name, ast.Attribute)) and norm(x).split(".")[-1] in ("Union", "UnionType"):
                    kinds.add(norm(x).split(".")[-1])
        if isinstance(st, ast.Call) and isinstance(st.func, ast.Attribute) and st.func.attr in ("append", "extend", "add") and norm(st.func.value) == "_union_types":
            for x in ast.walk(st):
                if isinstance(x, (ast.Name, ast.Attribute)) and norm(x).split(".")[-1] in ("Union", "UnionType"):
                    kinds.add(norm(x).split(".")[-1])
    need(kinds, "C08.8: the kinds of unions jaxtyping recognises (_array_types._union_types) were not found")
    tg = m.modules.get("_typeguard")
    need(tg is not None, "C08.8: the vendored typeguard module was not found")
    ct = m.functions.get("_typeguard.check_type")
    need(ct is not None, "C08.8: _typeguard.check_type not found")
    ctx.saw(ct)
    # names bound (at module level) to types.UnionType
    aliases = {"UnionType"}
    for st in tg.tree.body:
        if isinstance(st, ast.Assign) and any("UnionType" in norm(x) for x in ast.walk(st.value) if isinstance(x, (ast.Attribute, ast.Name, ast.Constant))):
            for t in st.targets:
                if isinstance(t, ast.Name):
                    aliases.add(t.id)
    handled = set()
    for st in ast.walk(ct.node):
        if isinstance(st, ast.If) and any(isinstance(c, ast.Call) and norm(c.func) == "check_union" for b in st.body for c in ast.walk(b)):
            names = {norm(x).split(".")[-1] for x in ast.walk(st.test) if isinstance(x, (ast.Name, ast.Attribute))}
            if names & aliases:
                handled.add("UnionType")
            if "Union" in names:
                handled.add("Union")
    # typing.Union[...] objects carry __origin__ = Union: dispatched through the origin table
    for st in tg.tree.body:
        if isinstance(st, ast.Assign) and any(isinstance(t, ast.Name) and t.id == "origin_type_checkers" for t in st.targets) and isinstance(st.value, ast.Dict):
            for k, v in zip(st.value.keys, st.value.values):
                if k is not None and norm(k).split(".")[-1] == "Union" and norm(v) == "check_union":
                    handled.add("Union")
    for k in sorted(kinds):
        if k in handled:
            ctx.ok("C08.8", ct.qualname, f"a `{k}` leaf type is dispatched to check_union")
        else:
            ctx.bad("C08.8", ct, ct.node, f"jaxtyping treats `{k}` as a union (_array_types._union_types) but the leaf predicate's check_type has no branch for it and ends "
                    f"without raising: `PyTree[A | B]` accepts every leaf", construct=f"check_type: no dispatch for {k}")
    ctx.counters["union_kinds"] = len(kinds)
    ctx.floor("C08.8", "union_kinds", 2)


def check_leaves_single_source(ctx, tag="C08.3"):
    """The list the leaves loop runs over is bound once per activation, from `tree_flatten(<the value>)`: a filtered / re-ordered / remembered
    list shifts or drops leaf positions (C16: the '?' label is the position in that list)."""
    m = ctx.model
    f = _meta(ctx).methods["_check"]
    obj_p = f.params[1] if len(f.params) > 1 else "obj"
    defs = [a for a in walk_scope(f.node) if isinstance(a, ast.Assign) and any("leaves" in [norm(e) for e in (t.elts if isinstance(t, ast.Tuple) else [t])] for t in a.targets)]
    need(any(isinstance(a.value, ast.Call) and "tree_flatten" in norm(a.value.func) for a in defs), f"{tag}: the binding of `leaves` from tree_flatten was not found")
    other = [a for a in defs if not (isinstance(a.value, ast.Call) and "tree_flatten" in norm(a.value.func) and a.value.args and norm(a.value.args[0]) == obj_p)
             and not (isinstance(a.value, ast.Constant) and a.value.value is None)]
    if other:
        ctx.bad(tag, f, other[0], f"the leaves that are checked can also come from `{short(other[0].value, 50)}`, not from flattening the value being checked in this call: "
                "leaf positions are shifted / dropped (a filtered list), or stale (a remembered one)", construct="leaves not from this call's tree_flatten")
    else:
        ctx.ok(tag, f.qualname, "the checked leaves have one source: tree_flatten of the value, in this call")
