"""Shared driver for the flag typestate (used by C12.1 and C16.1/C16.5)."""
from __future__ import annotations

import ast

from ..callgraph import CallGraph
from ..core import AnalysisError, RuleContext, need, norm, short
from ..flagstate import analyse_cm, analyse_flag_function, discover_flags, functions_touching
from ..roles import roles_for
from ..typestate import NoReturn
from . import c05


def run_flag_typestate(ctx: RuleContext, tag: str, only_attr_of=None, cg=None):
    """Runs the entry-value typestate for every flag and every function that sets or
    clears it.  Returns the list of (flag, result)."""
    m = ctx.model
    r = roles_for(m)
    cg = cg or CallGraph(m)
    stack_tl, _, _ = c05.locate_stack(r)
    flags = discover_flags(m, r, stack_tl)
    if only_attr_of is not None:
        flags = [f for f in flags if only_attr_of(f)]
    ctx.counters[f"{tag}:flags"] = len(flags)
    noret = NoReturn(m)
    results = []
    n_fn = 0
    for fl in sorted(flags, key=lambda f: f.name):
        need(fl.setters or fl.mixed, f"flag {fl.name}: no function sets it (role lost)")
        fns = functions_touching(m, cg, fl)
        jobs = [(fn, None) for fn in sorted(fns, key=lambda f: f.qualname)]
        for cmc in sorted(fl.cms, key=lambda c: c.qualname):
            cm_results, _ok = analyse_cm(m, r, cg, fl, cmc, noret)
            for cr in cm_results:
                jobs.append((cr.fn, cr))
        need(jobs, f"flag {fl.name}: nobody sets/clears it outside the primitive helpers (anchor lost)")
        for fn, pre in jobs:
            n_fn += 1
            ctx.saw(fn)
            res = pre if pre is not None else analyse_flag_function(m, r, cg, fl, fn, noret)
            results.append((fl, res))
            st = res.cfg.stats()
            ctx.count("cfg_nodes", st["nodes"])
            ctx.count("cfg_edges", st["edges"])
            ctx.count("product_states", res.flow.steps)
            if not res.bad:
                ctx.ok(tag, fn.qualname,
                       f"flag {fl.name}: value at every exit (return / Exception / BaseException) equals the value on "
                       f"entry ({res.flow.steps} product states; re-entrant={res.reentrant}, sole setter={res.sole_setter})")
                continue
            seen = set()
            for ex, stt in res.bad:
                v, e = stt[0], stt[1]
                label = {"exit": "normal return", "exit_e": "Exception exit", "exit_b": "BaseException exit"}[ex.kind]
                culprit = _culprit(res, ex, stt)
                if v == "SET":
                    why = (f"flag {fl.name} is still set when the function is left by a {label}: it outlives the "
                           "check that set it and changes the verdict of later, unrelated checks")
                    kind = "leak"
                elif v == "CLR":
                    if res.reentrant:
                        why = (f"flag {fl.name} is cleared on a path where this activation cannot know it owned it "
                               f"(left by a {label}): the function is re-entrant (a leaf type may itself be checked by "
                               "this function), so an inner activation resets the value an outer activation still relies on")
                    else:
                        why = (f"flag {fl.name} is cleared although this activation did not set it (left by a {label})")
                    kind = "foreign-clear"
                else:
                    why = f"flag {fl.name} has value {v} (entry knowledge {e}) at the {label}"
                    kind = "other"
                key = (kind, norm(culprit))
                if key in seen:
                    continue
                seen.add(key)
                ctx.bad(tag, fn, culprit, why, path=res.flow.witness(ex, stt),
                        construct=f"{fl.attr_name if hasattr(fl, 'attr_name') else fl.name}: {kind}: {short(culprit, 120)}")
    ctx.counters[f"{tag}:flag_functions"] = n_fn
    return results


def _culprit(res, ex, stt):
    """The last set/clear call statement on the witness path (the construct to blame)."""
    fl = res.flow
    key = (ex.id, stt)
    setq = {f.name for f in res.flag.setters} | {f.name for f in res.flag.clearers}
    # direct stores into the flag attribute count as well
    while key is not None:
        p = fl.pred.get(key)
        if p is None:
            break
        n = fl.cfg.nodes[p[0]]
        if n.ast is not None and n.kind in ("stmt", "return", "test"):
            for c in ast.walk(n.ast):
                if isinstance(c, ast.Call):
                    nm = c.func.id if isinstance(c.func, ast.Name) else getattr(c.func, "attr", None)
                    if nm in setq:
                        # a state change happened here on the path?
                        prev_state = p[1]
                        if prev_state[0] != key[1][0]:
                            return n.ast
            if isinstance(n.ast, ast.Assign) and p[1][0] != key[1][0]:
                return n.ast
        key = (p[0], p[1])
    return res.fn.node
