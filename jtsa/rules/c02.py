"""C02 -- a checked call is accepted iff one consistent axis assignment exists.

Decides only the structural part: arguments and return value are judged *in one and the same
binding context, forwarded unchanged*, by a sequential bind-or-compare walk whose failed
alternatives bind nothing:
  C02.1 one context: in the new-style wrapper the parameter check, the call of the body and
        the return check all lie between one push and its pop, with no other push / pop /
        replacement of the context in between (typestate on the wrapper and the checking
        implementation it delegates to).
  C02.2 forwarding: the parameter check, fn and the return check are each called with exactly
        `*args, **kwargs` (the return check with the one extra generated keyword holding the
        result), so positional stays positional and keyword stays keyword.
  C02.3 signature fidelity of the synthetic functions: all five parameter kinds, each group
        emitted once in grammar order with annotation and default (shared with C07.6); the
        parameter check sees the parameters' annotations with the return annotation blanked,
        the full check sees parameters *and* return; the dataclass clause:
        jaxtyped(cls) assigns cls.__init__ from jaxtyped(cls.__init__, typechecker=<same>).
  C02.4 bind-or-compare discipline of the walk (shared with C01.5): names and '*names' are
        bound only when absent, a plain '*name' use pins the binding.
  C02.5 a failed alternative binds nothing (shared with C04.1/C04.2: rollback typestate), so
        the verdict does not depend on which union member / parameter was tried first.
Not decided: the exists-assignment equivalence itself, order independence for value-level
reasons, checker independence -- value level.
"""
from __future__ import annotations

import ast

from ..callgraph import CallGraph
from ..cfg import Flow
from ..core import AnalysisError, RuleContext, need, norm, short
from ..model import walk_scope
from ..roles import node_calls, roles_for
from ..typestate import NoReturn, StackBalance
from . import c04, c05
from .c01 import check_bind_if_absent, check_axis_table
from .c07 import check_param_kinds, checker_vars
from .c19 import is_passthrough_call, new_style_wrappers

EXPLANATION = __doc__
NORMAL = ("n", "t", "f", "loop", "done", "ret", "brk", "cont", "caught", "fall")


def run(ctx: RuleContext):
    m = ctx.model
    r = roles_for(m)
    ctx.sub(check_one_context, ctx, r)
    ctx.sub(check_forwarding, ctx, r)
    ctx.sub(check_param_kinds, ctx, r, "C02.3")
    ctx.sub(check_signatures_and_dataclass, ctx, r)
    ctx.sub(_bind_discipline, ctx)
    ctx.sub(_rollback, ctx, r)
    # symbolic axes are evaluated over the bindings in force *at that axis* (a stale or shared scope makes a
    # consistent call be rejected / an inconsistent one raise the wrong error)
    from .c01 import check_eval_discipline

    ctx.reuse("C02.6", check_eval_discipline, ctx, "C02.6")
    # "one consistent assignment for the arguments and the return value *of this call*": the checks of a call see the frame of that call
    # on top of the stack only while push / pop are balanced around the body and nothing suspends inside (a generator wrapper that yields
    # with its frame pushed leaves it on top of its caller's: the caller's return value is checked against the generator's bindings) --
    # C05's balance / no-suspension clauses
    ctx.reuse("C02.8", _frame_discipline, ctx, r)
    ctx.sub(check_defaults_applied, ctx, r, "C02.9")
    # "in declaration order": within one annotation the axes are matched left to right too (C01.4: prefix before suffix, agreeing slices)
    from .c01 import check_slice_agreement

    ctx.reuse("C02.10", check_slice_agreement, ctx)


def _frame_discipline(ctx, r):
    from ..callgraph import CallGraph
    from ..typestate import StackBalance
    from . import c05

    c05.check_balance(ctx, StackBalance(ctx.model, r), CallGraph(ctx.model), "C02.8")


def _bind_discipline(ctx):
    n0 = len(ctx.findings)
    try:
        check_bind_if_absent(ctx)
        check_axis_table(ctx)
    finally:
        for f in ctx.findings[n0:]:
            f.rule = "C02.4"
        for o in ctx.obligations:
            if o.rule in ("C01.5", "C01.2"):
                o.rule = "C02.4"


def _rollback(ctx, r):
    n0 = len(ctx.findings)
    sites = c04.find_sites(ctx, r)
    ctx.counters["rollback_sites"] = len(sites)
    ctx.floor("C02.5", "rollback_sites", 2)
    try:
        for s in sites:
            c04.check_site(ctx, r, s)
    finally:
        for f in ctx.findings[n0:]:
            f.rule = "C02.5"
        for o in ctx.obligations:
            if o.rule.startswith("C04."):
                o.rule = "C02.5"


def check_one_context(ctx, r):
    m = ctx.model
    jt = m.func("_decorator.jaxtyped")
    cv = checker_vars(m, jt)
    sb = StackBalance(m, r)
    cg = CallGraph(m)
    ws = new_style_wrappers(m, r)
    ctx.counters["new_style_wrappers"] = len(ws)
    ctx.floor("C02.1", "new_style_wrappers", 1)
    for w, impl in ws:
        ctx.saw(w)
        ctx.saw(impl)
        # (a) in the wrapper: the implementation is called with exactly one context pushed
        s = sb.summary(w)
        g, fl = s.cfg, s.flow
        ok = True
        for n in g.live_nodes():
            for c in node_calls(n):
                t = m.resolve_call(w, c)
                if t.kind == "func" and t.target is impl:
                    for st in fl.states_at(n):
                        if st != 1:
                            ok = False
                            ctx.bad("C02.1", w, n.ast, f"the checking implementation runs with {st} binding context(s) pushed by this call (must be exactly one)",
                                    path=fl.witness(n, st))
        if ok:
            ctx.ok("C02.1", w.qualname, "checking implementation is invoked with exactly one context pushed by this call")
        # (b) inside the implementation: no push / pop / context replacement between the checks
        si = sb.summary(impl)
        if si is not None and si.touches:
            ctx.bad("C02.1", impl, impl.node, "the checking implementation itself pushes or pops a binding context between the parameter check and the return check: "
                    "arguments and return value would be judged in different contexts", construct="push/pop inside the checking implementation")
        else:
            ctx.ok("C02.1", impl.qualname, "no push/pop between parameter check, body and return check")
        for c in m.calls_in(impl):
            role = r.role_of_call(impl, c)
            if role in ("set_shape_memo", "push_shape_memo", "pop_shape_memo"):
                ctx.bad("C02.1", impl, c, f"`{role}` is called between the parameter check and the return check")
        # (c) order: parameter check, then fn, then full check, on every normal path with a return annotation
        gi = NoReturn(m).cfg(impl)
        dom = gi.dominators()

        def nodes_calling(pred):
            return [n for n in gi.live_nodes() if any(pred(c) for c in node_calls(n))]

        p_nodes = nodes_calling(lambda c: isinstance(c.func, ast.Name) and cv.get(c.func.id) == "param")
        f_nodes = nodes_calling(lambda c: isinstance(c.func, ast.Name) and c.func.id == "fn")
        r_nodes = nodes_calling(lambda c: isinstance(c.func, ast.Name) and cv.get(c.func.id) == "full")
        if not p_nodes:
            ctx.bad("C02.1", impl, impl.node, "the parameters are never checked", construct="no parameter-check call")
        if not r_nodes:
            ctx.bad("C02.1", impl, impl.node, "the return value is never checked against the parameters' bindings", construct="no return-check call")
        for rn in r_nodes:
            if not any(f_.id in dom[rn.id] for f_ in f_nodes):
                ctx.bad("C02.1", impl, rn.ast, "the return check is not preceded by the call of fn on every path")
            elif not any(p.id in dom[rn.id] for p in p_nodes):
                ctx.bad("C02.1", impl, rn.ast, "the return check is not preceded by the parameter check on every path")
            else:
                ctx.ok("C02.1", impl.qualname, "parameter check -> fn -> return check, each dominating the next")
        # the return check is skipped only when there is no return annotation
        for rn in r_nodes:
            guards = [gi.nodes[i] for i in dom[rn.id] if gi.nodes[i].kind == "test" and "return_annotation" in norm(gi.nodes[i].ast)]
            other = [gi.nodes[i] for i in dom[rn.id] if gi.nodes[i].kind == "test" and "return_annotation" not in norm(gi.nodes[i].ast) and gi.nodes[i].id > 0
                     and any(k == "t" for k, _ in gi.nodes[i].succ) and _controls(gi, gi.nodes[i], rn)]
            if other:
                ctx.bad("C02.1", impl, other[0].ast, f"the return check is additionally conditional on `{short(other[0].ast, 60)}`")


def _controls(g, tnode, target) -> bool:
    """target reachable from only one side of tnode"""
    sides = []
    for k, s in tnode.succ:
        if k in ("t", "f"):
            sides.append(target.id in g.reach_from(s))
    return len(sides) == 2 and sides[0] != sides[1]


def check_forwarding(ctx, r):
    m = ctx.model
    jt = m.func("_decorator.jaxtyped")
    cv = checker_vars(m, jt)
    for w, impl in new_style_wrappers(m, r):
        for c in m.calls_in(impl):
            if isinstance(c.func, ast.Name) and (c.func.id in cv or c.func.id == "fn"):
                if is_passthrough_call(c, c.func.id):
                    ctx.ok("C02.2", impl.qualname, f"{c.func.id}(*args, **kwargs)")
                else:
                    ctx.bad("C02.2", impl, c, f"`{short(c, 60)}` does not forward exactly `*args, **kwargs`: positional/keyword passing of the caller is not preserved, so the "
                            "verdict can differ between f(x, y) and f(x=x, y=y)")
        # the extra keyword for the return check is the generated name holding fn's result
        stores = [st for st in walk_scope(impl.node) if isinstance(st, ast.Assign) and isinstance(st.targets[0], ast.Subscript) and norm(st.targets[0].value) == "kwargs"]
        if len(stores) != 1 or norm(stores[0].targets[0].slice) != "output_name" or norm(stores[0].value) != "out":
            ctx.bad("C02.2", impl, stores[0] if stores else impl.node, "the value handed to the return check is not fn's result under the generated keyword (kwargs[output_name] = out)",
                    construct="kwargs[output_name] = out")
        else:
            ctx.ok("C02.2", impl.qualname, "return check receives fn's result under the generated keyword")


def check_signatures_and_dataclass(ctx, r):
    m = ctx.model
    jt = m.func("_decorator.jaxtyped")
    ctx.saw(jt)
    # param_signature = full_signature.replace(return_annotation=Any)
    defs = {norm(st.targets[0]): st.value for st in walk_scope(jt.node) if isinstance(st, ast.Assign) and len(st.targets) == 1 and isinstance(st.targets[0], ast.Name)}
    ps = defs.get("param_signature")
    # every definition of param_signature: `<S>.replace(return_annotation=Any)` with S = full_signature, or S the very object that
    # full_signature is bound to by the statement next to it (`full_signature = sig; param_signature = sig.replace(..)`)
    pdefs = []
    for blk_owner in ast.walk(jt.node):
        for fld in ("body", "orelse", "finalbody"):
            blk = getattr(blk_owner, fld, None)
            if not isinstance(blk, list):
                continue
            for i, st in enumerate(blk):
                if isinstance(st, ast.Assign) and len(st.targets) == 1 and norm(st.targets[0]) == "param_signature":
                    pdefs.append((st, blk[i - 1] if i else None, blk[i + 1] if i + 1 < len(blk) else None))
        for h_ in getattr(blk_owner, "handlers", []) or []:
            for i, st in enumerate(h_.body):
                if isinstance(st, ast.Assign) and len(st.targets) == 1 and norm(st.targets[0]) == "param_signature":
                    pdefs.append((st, h_.body[i - 1] if i else None, h_.body[i + 1] if i + 1 < len(h_.body) else None))
    verdicts = []
    for st, prev, nxt in pdefs:
        v_ = st.value
        if isinstance(v_, ast.Call) and isinstance(v_.func, ast.Attribute) and v_.func.attr == "replace" and not v_.args:
            kws = [k.arg for k in v_.keywords]
            src = norm(v_.func.value)
            same = src == "full_signature" or any(isinstance(x, ast.Assign) and len(x.targets) == 1 and norm(x.targets[0]) == "full_signature" and norm(x.value) == src for x in (prev, nxt) if x is not None)
            if kws == ["return_annotation"] and norm(v_.keywords[0].value) == "Any" and same:
                verdicts.append("ok")
            elif kws != ["return_annotation"] or norm(v_.keywords[0].value) != "Any":
                verdicts.append("bad")  # something else than the return annotation is replaced / it is not blanked to Any
            else:
                verdicts.append("unknown")
        elif isinstance(v_, ast.Name) and v_.id == "full_signature":
            verdicts.append("bad")  # the return annotation is checked together with the parameters
        else:
            verdicts.append("unknown")
    if not pdefs:
        verdicts.append("unknown")
    # ... and it is derived from the *final* full signature: a (re-)binding of full_signature that comes after the last derivation (string
    # annotations resolved by get_type_hints and put into the signature) is not seen by the parameter check -- every string annotation is `Any` there
    order_ = {}

    def _pre(n_):
        order_[id(n_)] = len(order_)
        for c_ in ast.iter_child_nodes(n_):
            _pre(c_)

    _pre(jt.node)
    full_defs = [st for st in ast.walk(jt.node) if isinstance(st, ast.Assign) and len(st.targets) == 1 and norm(st.targets[0]) == "full_signature"]
    if pdefs and full_defs and "bad" not in verdicts and "unknown" not in verdicts:
        last_p = max(order_[id(st)] for st, _, _ in pdefs)
        late = [st for st in full_defs if order_[id(st)] > last_p]
        if late:
            ctx.bad("C02.3", jt, late[0], f"`{short(late[0], 60)}` re-binds the full signature after the parameter-check signature was derived from it: the annotations resolved there (string "
                    "annotations, `from __future__ import annotations`) are missing from the parameter check, which then checks nothing; ill-typed arguments run the body and the "
                    "error, if any, blames the return value", construct="param_signature derived before full_signature is final")
            verdicts = ["reported"]
    if "bad" in verdicts:
        bad_st = pdefs[verdicts.index("bad")][0]
        ctx.bad("C02.3", jt, bad_st.value, "the parameter-check signature is not the full signature with (only) the return annotation replaced by Any")
    elif "unknown" in verdicts:
        raise AnalysisError("C02.3: how the parameter-check signature is derived from the full signature was not recognised")
    elif "reported" in verdicts:
        pass
    else:
        ctx.ok("C02.3", jt.qualname, "parameter check uses the full signature with only the return annotation blanked")
    calls = [st.value for st in walk_scope(jt.node) if isinstance(st, ast.Assign) and isinstance(st.value, ast.Call) and m.resolve_call(jt, st.value).kind == "func"
             and m.resolve_call(jt, st.value).target.name == "_make_fn_with_signature"]
    sigs = {}
    for c in calls:
        out = next((k.value.value for k in c.keywords if k.arg == "output" and isinstance(k.value, ast.Constant)), None)
        sigs[out] = norm(c.args[3]) if len(c.args) > 3 else None
    if sigs.get(True) != "full_signature" or sigs.get(False) != "param_signature":
        ctx.bad("C02.3", jt, jt.node, f"the synthetic checkers are built from the wrong signatures: {sigs}", construct=f"synthetic signatures {sigs}")
    else:
        ctx.ok("C02.3", jt.qualname, "full check built from full_signature (output=True), parameter check from param_signature")
    # both go through the same typechecker
    tcs = [st for st in walk_scope(jt.node) if isinstance(st, ast.Assign) and isinstance(st.value, ast.Call) and m.resolve_call(jt, st.value).kind == "func"
           and m.resolve_call(jt, st.value).target.name == "_apply_typechecker"]
    for st in tcs:
        a = st.value.args
        if not (len(a) == 2 and norm(a[0]) == "typechecker" and norm(a[1]) == norm(st.targets[0])):
            ctx.bad("C02.3", jt, st, "a synthetic function is not wrapped by the caller's typechecker")
    ctx.counters["typechecker_applications"] = len(tcs)
    ctx.floor("C02.3", "typechecker_applications", 2)
    # dataclass clause
    hits = [st for st in walk_scope(jt.node) if isinstance(st, ast.Assign) and norm(st.targets[0]) == "fn.__init__"]
    good = [st for st in hits if isinstance(st.value, ast.Call) and norm(st.value.func) == "jaxtyped" and norm(st.value.args[0]) == "fn.__init__"
            and any(k.arg == "typechecker" and norm(k.value) == "typechecker" for k in st.value.keywords)]
    if not good:
        ctx.bad("C02.3", jt, hits[0] if hits else jt.node, "a jaxtyped dataclass does not get cls.__init__ = jaxtyped(cls.__init__, typechecker=<same checker>)",
                construct="dataclass __init__ wrapping")
    else:
        ctx.ok("C02.3", jt.qualname, "dataclass: cls.__init__ = jaxtyped(cls.__init__, typechecker=typechecker)")
        ctx.sub(_check_dataclass_skip_is_own, ctx, jt, good[0])


def _check_dataclass_skip_is_own(ctx, jt, wrap_stmt):
    """C02.7: the only way around `cls.__init__ = jaxtyped(cls.__init__, ..)` is "this very __init__ is already ours".  A skip decided by
    something looked up on the *class* (`getattr(cls, marker)`, `hasattr(cls, ..)`, `cls.marker`) is inherited: a jaxtyped dataclass
    derived from a jaxtyped dataclass looks wrapped although its own, freshly generated `__init__` is not -- its construction is never
    checked."""
    m = ctx.model
    g = NoReturn(m).cfg(jt)
    wrap_nodes = [n for n in g.live_nodes() if n.ast is wrap_stmt]
    need(wrap_nodes, "C02.7: the __init__ wrapping statement is not in the CFG")
    wn = wrap_nodes[0]
    dom = g.dominators()
    # the test that selects the dataclass branch
    sel = [g.nodes[i] for i in dom[wn.id] if g.nodes[i].kind == "test" and "is_dataclass" in norm(g.nodes[i].ast)]
    need(sel, "C02.7: the test selecting the dataclass branch (dataclasses.is_dataclass(fn)) was not found")
    seln = sel[-1]
    # tests between the selector and the wrapping statement whose other side leaves without wrapping
    guards = [g.nodes[i] for i in dom[wn.id] if g.nodes[i].kind == "test" and seln.id in dom[i] and g.nodes[i] is not seln]
    # ... and every test of the branch from which the function can be left without reaching the wrapping statement (a skip inside a
    # try/else does not dominate the wrapping)
    inside = set()
    for k_, s_ in seln.succ:
        if k_ in ("t", "f") and (s_.id in dom[wn.id] or s_ is wn or wn.id in g.reach_from(s_, avoid=lambda n: False)):
            inside |= g.reach_from(s_, avoid=lambda n: n is wn)
    for nid in sorted(inside):
        n_ = g.nodes[nid]
        if n_.kind == "test" and n_ is not seln and n_ not in guards and seln.id in dom[nid]:
            guards.append(n_)
    n_atoms = 0
    for t in guards:
        exprs = [t.ast]
        # follow locals of the test to their definitions
        seen = set()
        work = [x.id for x in ast.walk(t.ast) if isinstance(x, ast.Name)]
        while work:
            nm = work.pop()
            if nm in seen or nm in jt.params:
                continue
            seen.add(nm)
            for d in c05._assignments_to(jt, nm):
                if d[1] is not None:
                    exprs.append(d[1])
                    work += [x.id for x in ast.walk(d[1]) if isinstance(x, ast.Name)]
        for e in exprs:
            for x in ast.walk(e):
                bad = None
                if isinstance(x, ast.Call) and isinstance(x.func, ast.Name) and x.func.id in ("getattr", "hasattr") and x.args and norm(x.args[0]) == "fn":
                    n_atoms += 1
                    if not (len(x.args) > 1 and isinstance(x.args[1], ast.Constant) and x.args[1].value in ("__init__", "__dict__")):
                        bad = norm(x)
                elif isinstance(x, ast.Attribute) and norm(x.value) == "fn" and isinstance(x.ctx, ast.Load):
                    n_atoms += 1
                    if x.attr not in ("__init__", "__dict__", "__mro__", "__bases__", "__name__", "__qualname__", "__module__"):
                        bad = norm(x)
                if bad:
                    ctx.bad("C02.7", jt, t.ast, f"wrapping a dataclass's __init__ is skipped on the strength of `{bad}`, which is looked up on the class and therefore inherited: "
                            "a jaxtyped dataclass deriving from a jaxtyped dataclass is taken for wrapped and its own __init__ is never checked",
                            construct=f"dataclass skip decided by inherited lookup {bad}")
    if not any(fd.rule == "C02.7" for fd in ctx.findings):
        ctx.ok("C02.7", jt.qualname, f"{len(guards)} guard(s) before the __init__ wrapping read only the class's own __init__ ({n_atoms} lookups on fn)")


# ------------------------------------------------------------------------ C02.9
def check_defaults_applied(ctx, r, tag="C02.9"):
    """The argument table of a call (what `{name}` axes and the error messages read) is `signature.bind(..)` *with the defaults applied*:
    `BoundArguments.apply_defaults()` fills in omitted parameters -- including `()` for an absent `*args` and `{}` for an absent `**kwargs`.
    A wrapper that hands `bound.arguments` to the push without it leaves those names undefined: `"{len(xs)}"` then raises NameError ->
    AnnotationError on a well-typed call.  A hand-written merge of the defaults is not interpreted (no verdict)."""
    m = ctx.model
    n = 0
    for w in r.wrappers()["wraps"]:
        binds = [c for c in m.calls_in(w) if isinstance(c.func, ast.Attribute) and c.func.attr in ("bind", "bind_partial")]
        pushes = [c for c in m.calls_in(w) if m.resolve_call(w, c).kind == "func" and m.resolve_call(w, c).target.qualname == r.push.qualname]
        if not binds or not pushes:
            continue
        ctx.saw(w)
        for b in binds:
            n += 1
            var = None
            for st in walk_scope(w.node):
                if isinstance(st, ast.Assign) and st.value is b and len(st.targets) == 1 and isinstance(st.targets[0], ast.Name):
                    var = st.targets[0].id
            if var is None:
                raise AnalysisError(f"{tag}: the result of `{short(b, 40)}` in {w.qualname} is not kept in a local; whether defaults are applied is not followed")
            # order of evaluation by a pre-order walk of the function (line numbers are unreliable after normalisation)
            order = {}

            def _pre(n_):
                order[id(n_)] = len(order)
                for c_ in ast.iter_child_nodes(n_):
                    _pre(c_)

            _pre(w.node)
            first_push = min(order.get(id(p_), 10 ** 9) for p_ in pushes)
            applied = [c for c in m.calls_in(w) if isinstance(c.func, ast.Attribute) and c.func.attr == "apply_defaults" and norm(c.func.value) == var
                       and order.get(id(b), -1) <= order.get(id(c), -1) <= first_push]
            if applied:
                ctx.ok(tag, w.qualname, f"`{var}.apply_defaults()` between the bind and the push")
                continue
            manual = [c for c in m.calls_in(w) if isinstance(c.func, ast.Attribute) and c.func.attr in ("setdefault", "update") and norm(c.func.value).startswith(var + ".arguments")]
            if manual:
                raise AnalysisError(f"{tag}: {w.qualname} merges defaults into `{var}.arguments` by hand (`{short(manual[0], 50)}`) instead of `{var}.apply_defaults()`; whether every "
                                    "omitted parameter (an absent *args -> (), an absent **kwargs -> {}) is filled in is not decided")
            ctx.bad(tag, w, b, f"`{var}.apply_defaults()` is not called between `{short(b, 40)}` and the push: omitted parameters (defaults, an absent *args / **kwargs) are missing from the "
                    "argument table, so a `{name}` axis that refers to one raises NameError -> AnnotationError on a well-typed call", construct=f"{var}.apply_defaults() missing")
    ctx.counters["bind_sites_with_push"] = n
    ctx.floor(tag, "bind_sites_with_push", 1)
