"""C09 -- PyTree structure names bind, compose, prefix and suffix as documented.

Decides three structural clauses (the composition / prefix / suffix semantics over trees are
value-level and depend on jax.tree_util):
  C09.1 unbound name inside a composite => AnnotationError: the memo lookup in the composite
        loop lies in a try whose KeyError handler raises AnnotationError, and no handler on the
        way to the caller swallows it (the leaf predicate catches TypeError only, and
        AnnotationError is not a TypeError).
  C09.2 building with a structure string raises only ValueError: every explicit raise in
        PyTree.__getitem__ is ValueError; non-string, empty string, wrong tuple length and
        every token that is neither an identifier nor a leading/trailing `...` are rejected
        on nodes that dominate the return of the new class; the builder validates exactly the
        tokens the checker later interprets (same whitespace tokenisation on both sides).
  C09.3 the identifier form is bind-if-absent / compare-for-equality.
  C09.4 mode table of the composite form: leading `...` => suffix mode, trailing `...` =>
        prefix mode, neither => exact; the rejections in each mode are the ones the statement
        names (structure inequality / prefix mismatch / bottom layer not made of T).  An
        additional rejection path cannot be judged statically and yields ANALYSIS-ERROR.
"""
from __future__ import annotations

import ast

from ..cfg import ExcHierarchy
from ..core import AnalysisError, RuleContext, need, norm, short
from ..model import walk_scope
from ..typestate import NoReturn

EXPLANATION = __doc__


def run(ctx: RuleContext):
    ctx.sub(check_unbound_composite, ctx)
    ctx.sub(check_builder, ctx)
    ctx.sub(check_identifier_form, ctx)
    ctx.sub(check_mode_table, ctx)


def _check_fn(ctx):
    return ctx.model.func("_pytree_type._MetaPyTree._check")


# ------------------------------------------------------------------------ C09.1
def check_unbound_composite(ctx):
    m = ctx.model
    f = _check_fn(ctx)
    ctx.saw(f)
    memo = f.params[2]
    looks = []
    for t in ast.walk(f.node):
        if isinstance(t, ast.Try):
            for a in t.body:
                if isinstance(a, ast.Assign) and isinstance(a.value, ast.Subscript) and norm(a.value.value) == memo:
                    looks.append((t, a))
    comp = [(t, a) for t, a in looks if not norm(a.value.slice).endswith(".structure")]
    if not comp:
        # maybe .get()/in: anything that does not raise AnnotationError
        ctx.bad("C09.1", f, f.node, "the lookup of a structure name inside a composite structure is no longer a KeyError-guarded lookup that raises AnnotationError",
                construct="composite lookup")
        return
    for t, a in comp:
        hk = [h for h in t.handlers if h.type is not None and "KeyError" in norm(h.type)]
        ok = False
        for h in hk:
            last = h.body[-1] if h.body else None
            if isinstance(last, ast.Raise) and isinstance(last.exc, ast.Call) and norm(last.exc.func) == "AnnotationError":
                ok = True
        if not ok:
            what = short(hk[0].body[-1], 50) if hk and hk[0].body else "no KeyError handler"
            ctx.bad("C09.1", f, t, f"a structure name that is not bound yet inside a composite structure does not raise AnnotationError (handler does `{what}`): the check "
                    "silently answers instead of reporting the misuse")
        else:
            ctx.ok("C09.1", f.qualname, f"unbound `{norm(a.value.slice)}` in a composite -> AnnotationError")
    # nothing on the way swallows it: handlers in _check / the leaf predicate
    h = ExcHierarchy(m)
    need(not h.is_sub("AnnotationError", "TypeError"), "AnnotationError became a TypeError")
    n = 0
    for g in [f] + list(f.nested.values()) + [m.func("_pytree_type._MetaPyTree.__instancecheck__")]:
        for t in ast.walk(g.node):
            if isinstance(t, ast.Try):
                for hd in t.handlers:
                    n += 1
                    rel = h.catches(hd.type, "AnnotationError")
                    reraises = hd.body and isinstance(hd.body[-1], ast.Raise) and (hd.body[-1].exc is None or (isinstance(hd.body[-1].exc, ast.Call) and norm(hd.body[-1].exc.func) == "AnnotationError"))
                    if rel in ("all", "may") and not reraises:
                        ctx.bad("C09.1", g, hd, f"`except {norm(hd.type) if hd.type is not None else ''}` can catch the AnnotationError of an unbound structure name and turns it into "
                                f"`{short(hd.body[-1], 40)}`")
    ctx.counters["handlers_on_check_path"] = n
    ctx.ok("C09.1", f.qualname, f"{n} handlers on the PyTree check path: none swallows AnnotationError")


# ------------------------------------------------------------------------ C09.2
def check_builder(ctx):
    m = ctx.model
    f = m.func("_pytree_type._MetaPyTree.__getitem__")
    ctx.saw(f)
    n = 0
    for st in ast.walk(f.node):
        if isinstance(st, ast.Raise) and st.exc is not None:
            n += 1
            cname = st.exc.func.id if isinstance(st.exc, ast.Call) and isinstance(st.exc.func, ast.Name) else norm(st.exc)
            if cname != "ValueError":
                ctx.bad("C09.2", f, st, f"building a PyTree annotation can fail with `{cname}`; a rejected structure must be a ValueError")
    ctx.counters["builder_raise_sites"] = n
    ctx.floor("C09.2", "builder_raise_sites", 3)
    g = NoReturn(m).cfg(f)
    dom = g.dominators()
    rets = [nd for nd in g.live_nodes() if nd.kind == "return"]
    need(rets, "PyTree.__getitem__: no return")
    # the 2-tuple branch: find tests
    tests = [nd for nd in g.live_nodes() if nd.kind == "test"]

    def has_test(pred):
        return [t for t in tests if pred(norm(t.ast))]

    t_str = has_test(lambda s: "isinstance(X.structure, str)" in s or "isinstance(item[1], str)" in s)
    t_empty = has_test(lambda s: "len(pieces) == 0" in s or s in ("not pieces", "X.structure == ''"))
    t_ident = has_test(lambda s: "isidentifier()" in s)
    t_len = has_test(lambda s: "len(item) == 2" in s or "len(item) != 2" in s)
    for label, ts in (("a non-string structure", t_str), ("the empty structure string", t_empty), ("a token that is not an identifier", t_ident), ("a tuple of the wrong length", t_len)):
        if not ts:
            ctx.bad("C09.2", f, f.node, f"{label} is no longer rejected when the annotation is built", construct=f"no test for {label}")
            continue
        from .c14 import _guard_raises_on_failure

        if not any(_guard_raises_on_failure(g, t) for t in ts):
            # the isidentifier test sits inside a loop: raise is the direct successor
            if not any(any(s.kind == "raise" for _, s in t.succ) for t in ts):
                ctx.bad("C09.2", f, ts[0].ast, f"the test for {label} does not lead to `raise ValueError`")
                continue
        ctx.ok("C09.2", f.qualname, f"{label} -> ValueError")
    # `.strip()` on the structure before it is known to be a string: same use-before-check shape
    # as the array subscript had; outside this property's quantifier ("all structure strings"): note only
    strips = [c for c in ast.walk(f.node) if isinstance(c, ast.Call) and isinstance(c.func, ast.Attribute) and c.func.attr == "strip"]
    if strips:
        ctx.note("PyTree.__getitem__ calls .strip() on the structure before the isinstance test (a non-string structure raises AttributeError); "
                 "outside C09's quantifier (structure *strings*), recorded as an observation")
    # the `...` exemption applies to end positions only
    loops = [x for x in ast.walk(f.node) if isinstance(x, ast.For) and isinstance(x.iter, ast.Call) and norm(x.iter.func) == "enumerate"]
    ok_pos = False
    for lp in loops:
        for st in ast.walk(lp):
            if isinstance(st, ast.If) and "== '...'" in norm(st.test):
                # must be nested in (or conjoined with) an end-position test
                outer = [o for o in ast.walk(lp) if isinstance(o, ast.If) and any(x is st for x in ast.walk(o)) and o is not st]
                cond = " ".join(norm(o.test) for o in outer) + " " + norm(st.test)
                if "== 0" in cond and "len(pieces) - 1" in cond:
                    ok_pos = True
    if ok_pos:
        ctx.ok("C09.2", f.qualname, "`...` is exempt from the identifier test only at the first or last position")
    else:
        ctx.bad("C09.2", f, f.node, "the `...` token is not restricted to the first / last position of the structure string", construct="`...` position test")
    # tokenisation agreement builder <-> checker
    chk = _check_fn(ctx)

    def token_exprs(fn, base_suffix):
        out = []
        for st in ast.walk(fn.node):
            if isinstance(st, ast.Assign) and isinstance(st.targets[0], ast.Name) and st.targets[0].id == "pieces" and isinstance(st.value, ast.Call):
                out.append(st.value)
        return out

    b_tok = token_exprs(f, "X.structure")
    c_tok = token_exprs(chk, "cls.structure")
    need(b_tok and c_tok, "C09.2: tokenisation of the structure string not found on both sides")
    bt = norm(b_tok[0]).replace("X.structure", "S")
    ct = norm(c_tok[0]).replace("cls.structure", "S")
    if bt != ct or bt != "S.split()":
        ctx.bad("C09.2", f, b_tok[0], f"the builder validates the tokens `{norm(b_tok[0])}` but the checker interprets `{norm(c_tok[0])}`: a structure string can pass validation and still "
                "contain a token the checker cannot interpret (e.g. `T...`), so it is not rejected with ValueError when the annotation is built",
                construct=f"tokenisation builder `{bt}` vs checker `{ct}`")
    else:
        ctx.ok("C09.2", f.qualname, "builder validates exactly the whitespace tokens (`split()`) that the checker interprets")


# ------------------------------------------------------------------------ C09.3
def check_identifier_form(ctx):
    f = _check_fn(ctx)
    memo = f.params[2]
    ifs = [st for st in ast.walk(f.node) if isinstance(st, ast.If) and norm(st.test) == "cls.structure.isidentifier()"]
    need(len(ifs) == 1, "C09.3: identifier-form branch not found")
    body = ifs[0].body
    tries = [x for x in body if isinstance(x, ast.Try)]
    if len(tries) != 1:
        ctx.bad("C09.3", f, ifs[0], "the identifier form is not 'look up; bind if absent; else compare'", construct="identifier form shape")
        return
    tr = tries[0]
    look = [a for a in tr.body if isinstance(a, ast.Assign) and isinstance(a.value, ast.Subscript) and norm(a.value.value) == memo and norm(a.value.slice) == "cls.structure"]
    hk = [h for h in tr.handlers if h.type is not None and "KeyError" in norm(h.type)]
    stores = [a for h in hk for a in h.body if isinstance(a, ast.Assign) and norm(a.targets[0]) == f"{memo}[cls.structure]" and norm(a.value) == "structure"]
    cmp = [x for x in tr.orelse if isinstance(x, ast.If)]
    ok = look and stores and len(cmp) == 1 and isinstance(cmp[0].test, ast.Compare) and isinstance(cmp[0].test.ops[0], ast.NotEq) \
        and {norm(cmp[0].test.left), norm(cmp[0].test.comparators[0])} == {norm(look[0].targets[0]), "structure"} \
        and any(isinstance(x, ast.Return) and isinstance(x.value, ast.Constant) and x.value.value is False for x in cmp[0].body)
    if ok:
        ctx.ok("C09.3", f.qualname, "identifier form: bind the tree's structure if the name is absent, else reject iff the structures differ")
    else:
        ctx.bad("C09.3", f, tr, "the identifier form does not bind the structure when the name is absent and reject exactly when a bound structure differs")


# ------------------------------------------------------------------------ C09.4
def check_mode_table(ctx):
    f = _check_fn(ctx)
    # mode selection
    sel = [st for st in ast.walk(f.node) if isinstance(st, ast.If) and norm(st.test) in ("pieces[0] == '...'",)]
    need(len(sel) == 1, "C09.4: mode selection on the first token not found")
    st = sel[0]

    def consts(stmts):
        return {norm(a.targets[0]): a.value.value for a in stmts if isinstance(a, ast.Assign) and isinstance(a.value, ast.Constant)}

    lead = consts(st.body)
    trail = {}
    neither = {}
    if len(st.orelse) == 1 and isinstance(st.orelse[0], ast.If) and norm(st.orelse[0].test) == "pieces[-1] == '...'":
        trail = consts(st.orelse[0].body)
        neither = consts(st.orelse[0].orelse)
    want = ({"prefix": False, "suffix": True}, {"prefix": True, "suffix": False}, {"prefix": False, "suffix": False})
    got = (lead, trail, neither)
    if got != want:
        ctx.bad("C09.4", f, st, f"mode table: leading `...` -> {lead}, trailing `...` -> {trail}, neither -> {neither}; the documentation says '... T' = suffix (bottom layer made of T), "
                "'T ...' = prefix, otherwise exact", construct=f"mode table {got}")
    else:
        ctx.ok("C09.4", f.qualname, "leading `...` -> suffix mode, trailing `...` -> prefix mode, neither -> exact")
    # the slices that drop the `...` token
    drops = {norm(a) for a in ast.walk(st) if isinstance(a, ast.Assign) and norm(a.targets[0]) == "pieces"}
    if drops != {"pieces = pieces[1:]", "pieces = pieces[:-1]"}:
        ctx.bad("C09.4", f, st, f"the `...` token is not removed from the right end of the token list: {sorted(drops)}")
    # rejections of the composite branch
    comp = [x for x in ast.walk(f.node) if isinstance(x, ast.If) and norm(x.test) == "prefix"]
    need(len(comp) == 1, "C09.4: dispatch on the mode not found")
    c = comp[0]
    rej = {}
    def rejections(stmts):
        out = []
        for s in stmts:
            for x in ast.walk(s):
                if isinstance(x, ast.Return) and isinstance(x.value, ast.Constant) and x.value.value is False:
                    out.append(x)
        return out

    pre = rejections(c.body)
    suf = exact = []
    if len(c.orelse) == 1 and isinstance(c.orelse[0], ast.If) and norm(c.orelse[0].test) == "suffix":
        suf = rejections(c.orelse[0].body)
        exact = rejections(c.orelse[0].orelse)
    # prefix: the only rejection is the ValueError of tree_map
    ok_pre = len(pre) == 1 and any(isinstance(t, ast.Try) and any(h.type is not None and norm(h.type) == "ValueError" and any(y is pre[0] for y in ast.walk(h)) for h in t.handlers)
                                   for t in ast.walk(c))
    ok_suf = len(suf) == 1
    ok_exact = len(exact) == 1
    # no other rejection anywhere in the composite branch
    ident = [x for x in ast.walk(f.node) if isinstance(x, ast.If) and norm(x.test) == "cls.structure.isidentifier()"]
    all_rej = rejections(ident[0].orelse) if ident else []
    known = {id(x) for x in pre + suf + exact}
    extra = [x for x in all_rej if id(x) not in known]
    if not (ok_pre and ok_suf and ok_exact) or extra:
        raise AnalysisError(f"C09.4: the composite-structure check has rejection paths the rule does not know (prefix {len(pre)}, suffix {len(suf)}, exact {len(exact)}, elsewhere {len(extra)}): "
                            "whether an additional early rejection is sound depends on tree values and cannot be decided statically")
    ex_if = [x for x in ast.walk(c) if isinstance(x, ast.If) and any(y is exact[0] for y in x.body)]
    if not any(norm(x.test) in ("structure != named_structure", "named_structure != structure") for x in ex_if):
        ctx.bad("C09.4", f, exact[0], "exact mode does not reject exactly when the tree's structure differs from the composed structure")
    else:
        ctx.ok("C09.4", f.qualname, "exact: reject iff structure != composed structure; prefix: reject iff tree_map raises; suffix: reject iff some bottom-layer piece is not T")
