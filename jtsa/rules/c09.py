"""C09 -- PyTree structure names bind, compose, prefix and suffix as documented.

Decides three structural clauses (the composition / prefix / suffix semantics over trees are
value-level and depend on jax.tree_util):
  C09.1 unbound name inside a composite => AnnotationError: the memo lookup in the composite
        loop lies in a try whose KeyError handler raises AnnotationError, and no handler on the
        way to the caller swallows it (the leaf predicate catches TypeError only, and
        AnnotationError is not a TypeError).
  C09.2 building with a structure string raises only ValueError: every explicit raise in
        PyTree.__getitem__ is ValueError; non-string, empty string, wrong tuple length and
        every token that is neither an identifier nor a leading/trailing `...` are rejected
        on nodes that dominate the return of the new class; the builder validates exactly the
        tokens the checker later interprets (same whitespace tokenisation on both sides).
  C09.3 the identifier form is bind-if-absent / compare-for-equality.
  C09.4 mode table of the composite form: leading `...` => suffix mode, trailing `...` =>
        prefix mode, neither => exact; the rejections in each mode are the ones the statement
        names (structure inequality / prefix mismatch / bottom layer not made of T).  An
        additional rejection path cannot be judged statically and yields ANALYSIS-ERROR.
"""
from __future__ import annotations

import ast

from ..cfg import ExcHierarchy
from ..core import AnalysisError, RuleContext, need, norm, short
from ..model import walk_scope
from ..typestate import NoReturn

EXPLANATION = __doc__


def run(ctx: RuleContext):
    ctx.sub(check_unbound_composite, ctx)
    ctx.sub(check_builder, ctx)
    ctx.sub(check_identifier_form, ctx)
    ctx.sub(check_mode_table, ctx)
    ctx.reuse("C09.5", check_failed_check_binds_no_structure, ctx)
    ctx.sub(check_structure_before_leaves, ctx)
    ctx.sub(check_structure_is_leaftype_relative, ctx)
    ctx.sub(check_every_name_is_substituted, ctx)


def check_every_name_is_substituted(ctx):
    """C09.8: 'S T' is S with every leaf replaced by T: each name of a composite is substituted into the structure composed so far with
    `tree_map(lambda _: <the name's tree>, <composed>)` -- also when the structure composed so far has *no* leaves (`()`, `[]`, `{}`: the
    result is that leafless structure again).  A short cut that *replaces* the accumulator on some condition of the accumulator itself
    (`if not named_pytree: named_pytree = prev_pytree`: the start value `0` is falsy, but so is an empty container) composes something else."""
    m = ctx.model
    f = m.func("_pytree_type._MetaPyTree._check")
    ctx.saw(f)
    n = 0
    for lp in [x for x in ast.walk(f.node) if isinstance(x, ast.For)]:
        subs = [st for st in ast.walk(lp) if isinstance(st, ast.Assign) and len(st.targets) == 1 and isinstance(st.targets[0], ast.Name) and isinstance(st.value, ast.Call)
                and norm(st.value.func).split(".")[-1] == "tree_map" and len(st.value.args) == 2 and norm(st.value.args[1]) == st.targets[0].id]
        if not subs:
            continue
        acc = subs[0].targets[0].id
        n += 1
        others = [st for st in ast.walk(lp) if isinstance(st, (ast.Assign, ast.AugAssign)) and st not in subs and any(
            isinstance(t, ast.Name) and t.id == acc for t in (st.targets if isinstance(st, ast.Assign) else [st.target]))]
        for st in others:
            ctx.bad("C09.8", f, st, f"`{short(st, 60)}`: inside the loop over the names of a composite the structure composed so far (`{acc}`) is replaced, not substituted into: when it "
                    "has no leaves (S bound to `()`), 'S T' must still be that leafless structure, but the next name takes its place", construct=f"composite accumulator {acc} replaced in the loop")
        if not others:
            ctx.ok("C09.8", f.qualname, f"every name is substituted into `{acc}` by tree_map; nothing else re-binds it in the loop")
    ctx.counters["composition_loops"] = n
    ctx.floor("C09.8", "composition_loops", 1)


def check_structure_is_leaftype_relative(ctx):
    """C09.7: "the structure of a tree" is relative to the leaf type: a tuple is one leaf of `PyTree[tuple[int, int]]`.  It is computed
    once, by `tree_flatten(<value>, is_leaf=<leaf predicate>)`; every comparison works on that structure (or on placeholder trees rebuilt
    from it).  A comparison that hands the raw value to `tree_map` / `tree_leaves` / `tree_structure` again -- without the leaf predicate --
    takes container leaves apart and compares a different structure than the one that was bound."""
    m = ctx.model
    f = m.func("_pytree_type._MetaPyTree._check")
    ctx.saw(f)
    obj = f.params[1] if len(f.params) > 1 else "obj"
    uses = [x for x in ast.walk(f.node) if isinstance(x, ast.Name) and x.id == obj and isinstance(x.ctx, ast.Load)]
    parents = {}
    for p_ in ast.walk(f.node):
        for c_ in ast.iter_child_nodes(p_):
            parents[id(c_)] = p_
    n_ok = 0
    for u in uses:
        c = parents.get(id(u))
        if isinstance(c, ast.Call) and any(u is a for a in c.args):
            fn_ = norm(c.func).split(".")[-1]
            leaf_pred = any(k.arg == "is_leaf" and "leaftype" in norm(k.value) for k in c.keywords)
            if fn_ == "tree_flatten" and leaf_pred:
                n_ok += 1
                continue
            if fn_ in ("tree_map", "tree_leaves", "tree_structure", "tree_flatten", "tree_flatten_with_path", "tree_leaves_with_path"):
                ctx.bad("C09.7", f, c, f"`{short(c, 70)}` walks the raw value again, without the leaf-type predicate: for a leaf type that is itself a container (`PyTree[tuple[int, int], ..]`) "
                        "the leaves are taken apart, so the structure that is compared is not the structure that was bound under the name", construct=f"raw value re-walked by {fn_}")
    ctx.counters["flatten_with_leaf_predicate"] = n_ok
    ctx.floor("C09.7", "flatten_with_leaf_predicate", 1)
    if not any(fd.rule == "C09.7" for fd in ctx.findings):
        ctx.ok("C09.7", f.qualname, f"the value is walked once, by tree_flatten(.., is_leaf=<leaf predicate>); comparisons use the resulting structure ({len(uses)} use(s) of `{obj}`)")


def check_structure_before_leaves(ctx):
    """C09.6: 'using a structure name that is not yet bound inside a composite raises AnnotationError' -- for
    every candidate, also one whose leaves are of the wrong type: the structure stage (where the names are
    resolved) is passed on every path to the leaf checks, so a leaf that fails cannot turn the misuse into a
    plain `False`."""
    from ..typestate import NoReturn

    m = ctx.model
    f = _check_fn(ctx)
    g = NoReturn(m).cfg(f)
    hdrs = [n for n in g.live_nodes() if n.kind == "for" and (norm(n.ast.iter) == "leaves" or (isinstance(n.ast.iter, ast.Call) and norm(n.ast.iter.func) == "enumerate"
                                                                                                   and n.ast.iter.args and norm(n.ast.iter.args[0]) == "leaves"))]
    stests = [n for n in g.live_nodes() if n.kind == "test" and norm(n.ast) in ("cls.structure is not None", "cls.structure is None", "not cls.structure is None")]
    # the structure test that guards the structure stage is the one that is not inside the leaves loop
    loop_nodes = set()
    for h in hdrs:
        starts = [s_ for k, s_ in h.succ if k == "loop"]
        if starts:
            loop_nodes |= g.reach_from(starts[0], avoid=lambda n: n is h)
    stage = [n for n in stests if n.id not in loop_nodes]
    if not stage:
        # the structure stage lives in a helper: the call of a function that reads `<x>.structure`
        from ..core import region
        from ..roles import node_calls

        for n in g.live_nodes():
            if n.id in loop_nodes:
                continue
            for c_ in node_calls(n):
                t_ = m.resolve_call(f, c_)
                if t_.kind == "func" and any(isinstance(x, ast.Attribute) and x.attr == "structure" for h_ in region(m, t_.target, depth=2) for x in ast.walk(h_.node)) \
                        and any(isinstance(x, ast.Subscript) and "memo" in norm(x.value) for h_ in region(m, t_.target, depth=2) for x in ast.walk(h_.node)):
                    stage.append(n)
    need(len(hdrs) == 1 and stage, "C09.6: the leaves loop / the structure stage of PyTree._check were not both found")
    dom = g.dominators()
    if not any(s_.id in dom[hdrs[0].id] for s_ in stage):
        ctx.bad("C09.6", f, hdrs[0].ast, "the leaves are checked before the structure string is resolved: for a candidate with a wrong-typed leaf an unbound name in a "
                "composite structure ('S T', 'T ...', '... T') gives a plain False instead of AnnotationError", construct="leaf checks before the structure stage")
    else:
        ctx.ok("C09.6", f.qualname, "the structure stage precedes the leaf checks on every path")


def check_failed_check_binds_no_structure(ctx):
    """C09.5: 'binds T on first use and afterwards accepts only identical structures' presupposes
    that a check that *fails* (or raises) binds nothing: a structure name left behind by a rejected tree
    makes later, valid trees be rejected.  Decided by the rollback typestate of the PyTree check (C04.1/
    C04.2 for that site) and the restore rule (C04.4)."""
    from ..roles import roles_for
    from . import c04, c05

    r = roles_for(ctx.model)
    sites = [s_ for s_ in c04.find_sites(ctx, r) if s_.fn.module.short == "_pytree_type"]
    need(sites, "C09.5: the rollback site of the PyTree check was not found")
    for s_ in sites:
        c04.check_site(ctx, r, s_)
    stack_tl, stack_attr, _ = c05.locate_stack(r)
    c05._check_set(ctx, r, r.set, stack_tl, stack_attr, "C09.5")


def _check_fn(ctx):
    _polarity_guard(ctx)
    return ctx.model.func("_pytree_type._MetaPyTree._check")


def _pt_functions(ctx):
    """Functions of jaxtyping/_pytree_type.py that take part in the check (the check itself and
    helpers extracted from it), excluding the builder."""
    m = ctx.model
    return [x for x in m.all_functions(include_typeguard=False) if x.module.short == "_pytree_type" and x.name not in ("__getitem__", "__pdoc__", "__call__")]


def _polarity_guard(ctx):
    """The rules read `return False` in the PyTree check as 'reject'.  If the check function was renamed, make sure its
    result still means 'matches': in `__instancecheck__` the truthy side of the call must be the accepting one.  An inverted
    predicate (`_mismatches`) is not interpreted."""
    cache = ctx.__dict__.setdefault("_c09_polarity", {})
    if "v" in cache:
        if cache["v"] is not True:
            raise AnalysisError(cache["v"])
        return
    m = ctx.model
    cache["v"] = True
    if "_pytree_type._MetaPyTree._check" in m.functions and "_pytree_type._MetaPyTree._check" not in getattr(m, "changed_functions", ()):
        return  # (a function renamed back by the normalisation pass is a changed function)
    ic = m.functions.get("_pytree_type._MetaPyTree.__instancecheck__")
    if ic is None:
        return
    try:
        target = m.func("_pytree_type._MetaPyTree._check").name
    except AnalysisError:
        return
    resvars = {a_.targets[0].id for a_ in ast.walk(ic.node) if isinstance(a_, ast.Assign) and len(a_.targets) == 1 and isinstance(a_.targets[0], ast.Name)
               and isinstance(a_.value, ast.Call) and isinstance(a_.value.func, ast.Attribute) and a_.value.func.attr == target}
    for st in ast.walk(ic.node):
        if isinstance(st, ast.If):
            t, neg = st.test, False
            while isinstance(t, ast.UnaryOp) and isinstance(t.op, ast.Not):
                t, neg = t.operand, not neg
            is_res = (isinstance(t, ast.Call) and isinstance(t.func, ast.Attribute) and t.func.attr == target) or (isinstance(t, ast.Name) and t.id in resvars)
            if is_res:
                truthy = st.orelse if neg else st.body
                rets = [x for b_ in truthy for x in ast.walk(b_) if isinstance(x, ast.Return) and isinstance(x.value, ast.Constant)]
                if rets and rets[-1].value.value is False:
                    cache["v"] = (f"C09: the PyTree check predicate `{target}` answers True for a *mismatch* (its truthy side rejects in __instancecheck__): "
                                  "the rules read `return False` as 'reject' and do not interpret an inverted predicate")
                    raise AnalysisError(cache["v"])


def _find_in_check(ctx, pred, what):
    _polarity_guard(ctx)
    hits = []
    for g_ in _pt_functions(ctx):
        for n in ast.walk(g_.node):
            if pred(n):
                hits.append((g_, n))
    if len(hits) != 1:
        raise AnalysisError(f"C09: {what}: found {len(hits)} candidates in jaxtyping/_pytree_type.py (expected 1)")
    return hits[0]


# ------------------------------------------------------------------------ C09.1
def check_unbound_composite(ctx):
    m = ctx.model
    f = _check_fn(ctx)
    ctx.saw(f)
    from .c04 import memo_role

    # lookups of a structure name in the structure memo, in any function of the module (the
    # composite branch may have been extracted into a helper)
    looks = []
    reads = []
    for g_ in [x for x in m.all_functions(include_typeguard=False) if x.module.short == "_pytree_type"]:
        memos = {p_ for p_ in g_.params if memo_role(p_) == "pytree"}
        if not memos:
            continue
        for t in ast.walk(g_.node):
            if isinstance(t, ast.Try):
                for a in t.body:
                    if isinstance(a, ast.Assign) and isinstance(a.value, ast.Subscript) and norm(a.value.value) in memos:
                        looks.append((g_, t, a))
        for x in ast.walk(g_.node):
            if isinstance(x, ast.Subscript) and isinstance(x.ctx, ast.Load) and norm(x.value) in memos:
                reads.append((g_, x))
            if isinstance(x, ast.Call) and isinstance(x.func, ast.Attribute) and x.func.attr in ("get", "setdefault") and norm(x.func.value) in memos:
                reads.append((g_, x))
    def is_own_name(g_, sl):
        """the annotation's own structure string (`cls.structure`, or a local bound once to it): the identifier form"""
        t_ = norm(sl)
        if t_.endswith(".structure"):
            return True
        if isinstance(sl, ast.Name):
            defs = [a for a in ast.walk(g_.node) if isinstance(a, ast.Assign) and any(isinstance(tg, ast.Name) and tg.id == sl.id for tg in a.targets)]
            others = [x for x in ast.walk(g_.node) if isinstance(x, ast.Name) and x.id == sl.id and isinstance(x.ctx, ast.Store)]
            return len(defs) == 1 and len(others) == 1 and norm(defs[0].value).endswith(".structure")
        return False

    comp = [(g_, t, a) for g_, t, a in looks if not is_own_name(g_, a.value.slice)]
    unguarded = [(g_, x) for g_, x in reads if isinstance(x, ast.Subscript) and not is_own_name(g_, x.slice) and not any(a.value is x for _, _, a in looks)]
    unguarded += [(g_, x) for g_, x in reads if isinstance(x, ast.Call) and not (x.args and is_own_name(g_, x.args[0]))]
    for g_, x in unguarded:
        if isinstance(x, ast.Call):
            ctx.bad("C09.1", g_, x, f"a structure name is looked up with `{short(x, 50)}`: a name that is not bound yet does not raise AnnotationError")
        else:
            ctx.bad("C09.1", g_, x, f"`{short(x, 50)}`: the lookup of a structure name in a composite is not inside a try whose KeyError handler raises AnnotationError")
    if not comp and not unguarded:
        raise AnalysisError("C09.1: the lookup of the structure names of a composite structure was not found in jaxtyping/_pytree_type.py")
    for f, t, a in comp:
        hk = [h for h in t.handlers if h.type is not None and "KeyError" in norm(h.type)]
        ok = False
        for h in hk:
            last = h.body[-1] if h.body else None
            if isinstance(last, ast.Raise) and isinstance(last.exc, ast.Call) and norm(last.exc.func) == "AnnotationError":
                ok = True
            elif isinstance(last, ast.Raise) and isinstance(last.exc, ast.Name):
                # `err = AnnotationError(..); err.name = ..; raise err from e`: what the local was bound to in this handler
                ds = [a_ for a_ in ast.walk(h) if isinstance(a_, ast.Assign) and any(isinstance(tg, ast.Name) and tg.id == last.exc.id for tg in a_.targets)]
                if ds and all(isinstance(a_.value, ast.Call) and norm(a_.value.func) == "AnnotationError" for a_ in ds):
                    ok = True
                elif not ds:
                    raise AnalysisError(f"C09.1: `{short(last, 50)}` raises a local that is not bound in the handler; what it is was not followed")
        if not ok:
            what = short(hk[0].body[-1], 50) if hk and hk[0].body else "no KeyError handler"
            ctx.bad("C09.1", f, t, f"a structure name that is not bound yet inside a composite structure does not raise AnnotationError (handler does `{what}`): the check "
                    "silently answers instead of reporting the misuse")
        else:
            ctx.ok("C09.1", f.qualname, f"unbound `{norm(a.value.slice)}` in a composite -> AnnotationError")
        # every name of the composite is looked up: no iteration of the names loop leaves (break) or moves on (continue) before the lookup --
        # a name that is skipped is never reported as unbound
        loops = [lp for lp in ast.walk(f.node) if isinstance(lp, (ast.For, ast.While)) and any(x is t for b_ in lp.body for x in ast.walk(b_))]
        if loops:
            lp = loops[-1]  # the innermost loop that contains the lookup
            gg = NoReturn(m).cfg(f)
            hdr = next((n_ for n_ in gg.live_nodes() if n_.kind in ("for", "while") and (n_.ast is lp or n_.ast is getattr(lp, "test", None))), None)
            look = next((n_ for n_ in gg.live_nodes() if n_.ast is a), None)
            if hdr is not None and look is not None:
                start = [s_ for k_, s_ in hdr.succ if k_ in ("loop", "t")]
                skipping = None
                if start:
                    seen_ = set()
                    work_ = [start[0]]
                    while work_ and skipping is None:
                        n_ = work_.pop()
                        if n_.id in seen_ or n_ is look:
                            continue
                        seen_.add(n_.id)
                        for k_, s_ in n_.succ:
                            if k_ in ("brk", "cont") or s_ is hdr:
                                skipping = n_
                                break
                            if k_ in ("n", "t", "f", "loop", "done"):
                                work_.append(s_)
                if skipping is not None:
                    ctx.bad("C09.1", f, skipping.ast if skipping.ast is not None else lp, f"an iteration of the loop over the names of a composite structure can end (`{skipping.text()[:50]}`) before "
                            f"`{norm(a.value)}` is looked up: a name that is not bound yet is then not reported with AnnotationError, the check silently answers",
                            construct="composite names loop skips a lookup")
                else:
                    ctx.ok("C09.1", f.qualname, "every iteration of the names loop reaches the lookup")
    # nothing on the way swallows it: handlers in _check / the leaf predicate
    h = ExcHierarchy(m)
    need(not h.is_sub("AnnotationError", "TypeError"), "AnnotationError became a TypeError")
    n = 0
    for g in [f] + list(f.nested.values()) + [m.func("_pytree_type._MetaPyTree.__instancecheck__")]:
        for t in ast.walk(g.node):
            if isinstance(t, ast.Try):
                for hd in t.handlers:
                    n += 1
                    rel = h.catches(hd.type, "AnnotationError")
                    reraises = hd.body and isinstance(hd.body[-1], ast.Raise) and (hd.body[-1].exc is None or (isinstance(hd.body[-1].exc, ast.Call) and norm(hd.body[-1].exc.func) == "AnnotationError"))
                    if rel in ("all", "may") and not reraises:
                        ctx.bad("C09.1", g, hd, f"`except {norm(hd.type) if hd.type is not None else ''}` can catch the AnnotationError of an unbound structure name and turns it into "
                                f"`{short(hd.body[-1], 40)}`")
    ctx.counters["handlers_on_check_path"] = n
    ctx.ok("C09.1", f.qualname, f"{n} handlers on the PyTree check path: none swallows AnnotationError")


# ------------------------------------------------------------------------ C09.2
def check_builder(ctx):
    m = ctx.model
    f = m.func("_pytree_type._MetaPyTree.__getitem__")
    ctx.saw(f)
    n = 0
    for st in ast.walk(f.node):
        if isinstance(st, ast.Raise) and st.exc is not None:
            n += 1
            cname = st.exc.func.id if isinstance(st.exc, ast.Call) and isinstance(st.exc.func, ast.Name) else norm(st.exc)
            if cname != "ValueError":
                ctx.bad("C09.2", f, st, f"building a PyTree annotation can fail with `{cname}`; a rejected structure must be a ValueError")
    ctx.counters["builder_raise_sites"] = n
    ctx.floor("C09.2", "builder_raise_sites", 3)
    g = NoReturn(m).cfg(f)
    dom = g.dominators()
    rets = [nd for nd in g.live_nodes() if nd.kind == "return"]
    need(rets, "PyTree.__getitem__: no return")
    # the 2-tuple branch: find tests
    tests = [nd for nd in g.live_nodes() if nd.kind == "test"]

    def has_test(pred):
        return [t for t in tests if pred(norm(t.ast))]

    t_str = has_test(lambda s: "isinstance(X.structure, str)" in s or "isinstance(item[1], str)" in s)
    t_empty = has_test(lambda s: "len(pieces) == 0" in s or s in ("not pieces", "X.structure == ''"))
    t_ident = has_test(lambda s: "isidentifier()" in s)
    t_len = has_test(lambda s: "len(item) == 2" in s or "len(item) != 2" in s)
    for label, ts in (("a non-string structure", t_str), ("the empty structure string", t_empty), ("a token that is not an identifier", t_ident), ("a tuple of the wrong length", t_len)):
        if not ts:
            ctx.bad("C09.2", f, f.node, f"{label} is no longer rejected when the annotation is built", construct=f"no test for {label}")
            continue
        from .c14 import _guard_raises_on_failure

        if not any(_guard_raises_on_failure(g, t) for t in ts):
            # the isidentifier test sits inside a loop: raise is the direct successor
            if not any(any(s.kind == "raise" for _, s in t.succ) for t in ts):
                ctx.bad("C09.2", f, ts[0].ast, f"the test for {label} does not lead to `raise ValueError`")
                continue
        ctx.ok("C09.2", f.qualname, f"{label} -> ValueError")
    # `.strip()` on the structure before it is known to be a string: same use-before-check shape
    # as the array subscript had; outside this property's quantifier ("all structure strings"): note only
    strips = [c for c in ast.walk(f.node) if isinstance(c, ast.Call) and isinstance(c.func, ast.Attribute) and c.func.attr == "strip"]
    if strips:
        ctx.note("PyTree.__getitem__ calls .strip() on the structure before the isinstance test (a non-string structure raises AttributeError); "
                 "outside C09's quantifier (structure *strings*), recorded as an observation")
    # tokenisation agreement builder <-> checker
    chk = _check_fn(ctx)

    def token_exprs(fn, base_suffix):
        out = []
        for st in ast.walk(fn.node):
            if isinstance(st, ast.Assign) and isinstance(st.targets[0], ast.Name) and st.targets[0].id == "pieces" and isinstance(st.value, ast.Call):
                out.append(st.value)
        return out

    b_tok = token_exprs(f, "X.structure")
    c_tok = []
    for g_ in _pt_functions(ctx):
        c_tok += token_exprs(g_, "cls.structure")
    need(b_tok and c_tok, "C09.2: tokenisation of the structure string not found on both sides")
    import re as _re2

    bt = _re2.sub(r"[A-Za-z_][A-Za-z_0-9]*\.structure", "S", norm(b_tok[0]))
    import re as _re

    ct = _re.sub(r"[A-Za-z_][A-Za-z_0-9]*\.structure", "S", norm(c_tok[0]))
    if "S" not in bt or "S" not in ct:
        # one side tokenises something that is not spelled `<x>.structure` (a parameter of a helper, a
        # field of a parsed-structure object ...): what it stands for is not followed here
        raise AnalysisError(f"C09.2: cannot relate the strings tokenised by the builder (`{norm(b_tok[0])}`) and by the checker (`{norm(c_tok[0])}`)")
    if bt != ct or bt != "S.split()":
        ctx.bad("C09.2", f, b_tok[0], f"the builder validates the tokens `{norm(b_tok[0])}` but the checker interprets `{norm(c_tok[0])}`: a structure string can pass validation and still "
                "contain a token the checker cannot interpret (e.g. `T...`), so it is not rejected with ValueError when the annotation is built",
                construct=f"tokenisation builder `{bt}` vs checker `{ct}`")
    else:
        ctx.ok("C09.2", f.qualname, "builder validates exactly the whitespace tokens (`split()`) that the checker interprets")
    # the per-token validation as a branch table over {identifier, `...`, other} x {first, middle, last}
    loops = [x for x in ast.walk(f.node) if isinstance(x, ast.For)]
    loops = [lp for lp in loops if any(isinstance(c, ast.Call) and isinstance(c.func, ast.Attribute) and c.func.attr == "isidentifier" for c in ast.walk(lp))]
    if len(loops) != 1:
        raise AnalysisError("C09.2: the per-token validation loop of the structure string was not recognised")
    lp = loops[0]
    if isinstance(lp.iter, ast.Call) and norm(lp.iter.func) == "enumerate" and isinstance(lp.target, ast.Tuple) and len(lp.target.elts) == 2:
        ivar, pvar = lp.target.elts[0].id, lp.target.elts[1].id
        seq = norm(lp.iter.args[0])
    elif isinstance(lp.target, ast.Name):
        ivar, pvar = "<no index>", lp.target.id
        seq = norm(lp.iter)
    else:
        raise AnalysisError("C09.2: the per-token validation loop has an unrecognised target")
    aliases = {}
    for a in ast.walk(f.node):
        if isinstance(a, ast.Assign) and len(a.targets) == 1 and isinstance(a.targets[0], ast.Name) and not any(y is a for y in ast.walk(lp)):
            aliases[a.targets[0].id] = a.value

    def ev(e, cls, env):
        kind, pos = cls
        if isinstance(e, ast.BoolOp):
            vals = [ev(v, cls, env) for v in e.values]
            return all(vals) if isinstance(e.op, ast.And) else any(vals)
        if isinstance(e, ast.UnaryOp) and isinstance(e.op, ast.Not):
            return not ev(e.operand, cls, env)
        if isinstance(e, ast.Name) and e.id in env:
            return env[e.id]
        if isinstance(e, ast.Call) and isinstance(e.func, ast.Attribute) and e.func.attr == "isidentifier" and norm(e.func.value) == pvar:
            return kind == "identifier"
        if isinstance(e, ast.Compare) and len(e.ops) == 1 and isinstance(e.ops[0], (ast.Eq, ast.NotEq)):
            l, r_ = e.left, e.comparators[0]
            res = None
            if norm(l) == pvar and isinstance(r_, ast.Constant) and r_.value == "...":
                res = kind == "ellipsis"
            elif norm(l) == ivar:
                rr = aliases.get(r_.id, r_) if isinstance(r_, ast.Name) else r_
                if isinstance(rr, ast.Constant) and rr.value == 0:
                    res = pos in ("first", "only")
                elif norm(rr) in (f"len({seq}) - 1",):
                    res = pos in ("last", "only")
            if res is not None:
                return res if isinstance(e.ops[0], ast.Eq) else not res
        if isinstance(e, ast.Compare) and len(e.ops) == 1 and isinstance(e.ops[0], ast.In) and norm(e.left) == ivar:
            r_ = e.comparators[0]
            if isinstance(r_, (ast.Tuple, ast.List, ast.Set)):
                vals = []
                for x in r_.elts:
                    xx = aliases.get(x.id, x) if isinstance(x, ast.Name) else x
                    if isinstance(xx, ast.Constant) and xx.value == 0:
                        vals.append(pos in ("first", "only"))
                    elif norm(xx) == f"len({seq}) - 1":
                        vals.append(pos in ("last", "only"))
                    else:
                        raise AnalysisError(f"C09.2: unrecognised position `{norm(x)}` in the token validation")
                return any(vals)
        raise AnalysisError(f"C09.2: unrecognised atom `{norm(e)}` in the token validation")

    def run_body(stmts, cls, env):
        for st in stmts:
            if isinstance(st, ast.Assign) and len(st.targets) == 1 and isinstance(st.targets[0], ast.Name):
                env[st.targets[0].id] = ev(st.value, cls, env)
            elif isinstance(st, ast.If):
                out = run_body(st.body if ev(st.test, cls, env) else st.orelse, cls, env)
                if out is not None:
                    return out
            elif isinstance(st, ast.Raise):
                nm = st.exc.func.id if isinstance(st.exc, ast.Call) and isinstance(st.exc.func, ast.Name) else "?"
                return "raise:" + nm
            elif isinstance(st, ast.Continue):
                return "ok"
            elif isinstance(st, (ast.Expr, ast.Pass)):
                continue
            else:
                raise AnalysisError(f"C09.2: unsupported statement `{short(st, 50)}` in the token validation loop")
        return None

    wrong = []
    for kind in ("identifier", "ellipsis", "other"):
        for pos in ("only", "first", "middle", "last"):
            got = run_body(lp.body, (kind, pos), {}) or "ok"
            want = "ok" if kind == "identifier" or (kind == "ellipsis" and pos != "middle") else "raise:ValueError"
            if got != want:
                wrong.append((kind, pos, got))
    if wrong:
        for kind, pos, got in wrong:
            ctx.bad("C09.2", f, lp, f"a token of kind '{kind}' at the {pos} position of the structure string gives `{got}` when the annotation is built "
                    f"(expected: identifiers pass, `...` passes only first/last, everything else ValueError)", construct=f"token validation: {kind}@{pos} -> {got}")
    else:
        ctx.ok("C09.2", f.qualname, "token validation over {identifier, ..., other} x {only, first, middle, last}: identifiers pass, `...` only at the ends, everything else ValueError")


# ------------------------------------------------------------------------ C09.3
def check_identifier_form(ctx):
    from .c04 import memo_role

    f, if0 = _find_in_check(ctx, lambda n: isinstance(n, ast.If) and norm(n.test).endswith(".structure.isidentifier()"), "identifier-form branch")
    negated = isinstance(if0.test, ast.UnaryOp) and isinstance(if0.test.op, ast.Not)
    sname = norm(if0.test.operand if negated else if0.test)[: -len(".isidentifier()")]
    ident_stmts = if0.body
    if negated:
        if if0.orelse:
            ident_stmts = if0.orelse
        else:
            # `if not <name>.isidentifier(): return <composite>` ... the identifier form is what follows
            need(if0.body and isinstance(if0.body[-1], (ast.Return, ast.Raise, ast.Break, ast.Continue)), "C09.3: the composite side of the identifier test does not leave the block (return / raise / break)")
            blocks = [getattr(n, fld) for n in ast.walk(f.node) for fld in ("body", "orelse", "finalbody") if isinstance(getattr(n, fld, None), list)]
            blk = next((b_ for b_ in blocks if any(x is if0 for x in b_)), None)
            need(blk is not None, "C09.3: the block holding the identifier test was not found")
            ident_stmts = blk[[i for i, x in enumerate(blk) if x is if0][0] + 1:]
            need(ident_stmts, "C09.3: nothing follows the identifier test")
    memos = [p_ for p_ in f.params if memo_role(p_) == "pytree"]
    need(memos, f"C09.3: {f.qualname} has no structure-memo parameter")
    memo = memos[0]
    # locals that stand for the structure name (`name = cls.structure`), bound once in the branch
    region_mod = ast.Module(body=ident_stmts, type_ignores=[])
    if not any(isinstance(x, ast.Subscript) and norm(x.value) == memo for x in ast.walk(region_mod)) and not any(
            isinstance(x, ast.Compare) and any(norm(c_) == memo for c_ in x.comparators) for x in ast.walk(region_mod)):
        raise AnalysisError(f"C09.3: the branch guarded by `{norm(if0.test)}` never touches the structure memo `{memo}`: the bind-or-compare of a single structure name "
                            "happens somewhere the rule did not find (the test only classifies the string)")
    stores = {}
    for x in ast.walk(f.node):
        if isinstance(x, ast.Name) and isinstance(x.ctx, ast.Store):
            stores[x.id] = stores.get(x.id, 0) + 1
    snames = {sname} | {a.targets[0].id for a in ast.walk(region_mod) if isinstance(a, ast.Assign) and len(a.targets) == 1 and isinstance(a.targets[0], ast.Name)
                        and norm(a.value) == sname and stores.get(a.targets[0].id) == 1}
    # the branch may carry its verdict in a local (`ok = False; break` ... `if not ok: return False`, the shape an
    # extracted-and-inlined predicate has): the statement testing that local belongs to the branch
    verdict_vars = {a.targets[0].id for a in ast.walk(region_mod) if isinstance(a, ast.Assign) and len(a.targets) == 1 and isinstance(a.targets[0], ast.Name)
                    and isinstance(a.value, ast.Constant) and isinstance(a.value.value, bool)}
    tail_ifs = []
    if verdict_vars:
        for x in ast.walk(f.node):
            if isinstance(x, ast.If) and not any(x is y for y in ast.walk(region_mod)):
                t_ = x.test.operand if isinstance(x.test, ast.UnaryOp) and isinstance(x.test.op, ast.Not) else x.test
                if isinstance(t_, ast.Name) and t_.id in verdict_vars:
                    tail_ifs.append(x)
    # the branch is walked on the CFG for {name absent, name bound & same structure, name bound & different
    # structure}: absent -> the tree's structure is stored under the name and the check goes on; same -> goes
    # on without storing; different -> `return False`.  Insensitive to try/except-else vs `in` tests vs guard
    # clauses.
    from ..absim import eval_bool, simulate
    from ..typestate import NoReturn

    g = NoReturn(ctx.model).cfg(f)
    inside = set()
    region_ids = {id(x) for st in list(ident_stmts) + tail_ifs for x in ast.walk(st)}
    for n in g.live_nodes():
        if n.kind in ("exit", "exit_e", "exit_b", "entry", "falloff"):
            continue
        if n.ast is None or id(n.ast) in region_ids:
            inside.add(n.id)  # statements, tests, handlers of the branch (and the ast-less unwind nodes between them)
    first = ident_stmts[0]
    while isinstance(first, (ast.Try, ast.With)):  # the entry of a try / with statement is its first inner statement
        first = first.body[0]
    starts = [n for n in g.nodes_of_stmt(first) if n.kind not in ("dispatch", "handler", "finally", "unwind")]
    if isinstance(first, (ast.If, ast.While)):
        starts = [n for n in g.live_nodes() if n.ast is first.test] or starts
    need(starts and inside, "C09.3: the identifier-form branch is not in the CFG")
    lookvars = {norm(a.targets[0]) for a in ast.walk(ast.Module(body=ident_stmts, type_ignores=[])) if isinstance(a, ast.Assign)
                and isinstance(a.value, ast.Subscript) and norm(a.value.value) == memo and norm(a.value.slice) in snames}
    gets = [c for c in ast.walk(ast.Module(body=ident_stmts, type_ignores=[])) if isinstance(c, ast.Call) and isinstance(c.func, ast.Attribute)
            and c.func.attr == "get" and norm(c.func.value) == memo]
    if gets:
        raise AnalysisError(f"C09.3: the structure name is looked up with `{short(gets[0], 50)}`; whether absence is told apart from a falsy value is not interpreted")

    def stop(n):
        return n.id not in inside or n.kind in ("return", "raise")

    def event_of(n):
        a_ = n.ast
        if n.kind == "stmt" and isinstance(a_, ast.Assign) and isinstance(a_.targets[0], ast.Subscript) and norm(a_.targets[0].value) == memo:
            k_ = norm(a_.targets[0].slice)
            return f"bind:{sname if k_ in snames else k_}={norm(a_.value)}"
        return None

    from ..absim import env_truth

    verdicts = {}
    for label, bound, same in (("absent", False, None), ("same", True, True), ("different", True, False)):
        def atom(e, bound=bound, same=same):
            v_ = env_truth(e)
            if v_ is not None:
                return v_
            if isinstance(e, ast.Compare) and len(e.ops) == 1:
                l, r_, op = norm(e.left), norm(e.comparators[0]), e.ops[0]
                if isinstance(op, (ast.In, ast.NotIn)) and r_ == memo and l in snames:
                    return bound if isinstance(op, ast.In) else not bound
                if isinstance(op, (ast.Eq, ast.NotEq)) and ({l, r_} & lookvars or any(f"{memo}[{s_}]" in (l, r_) for s_ in snames)) and "structure" in (l, r_):
                    if same is None:
                        return None
                    return same if isinstance(op, ast.Eq) else not same
            return None

        def raise_oracle(n, bound=bound):
            if n.ast is None or n.kind not in ("stmt", "test", "return"):
                return None
            for x in ast.walk(n.ast):
                if isinstance(x, ast.Subscript) and isinstance(x.ctx, ast.Load) and norm(x.value) == memo and norm(x.slice) in snames and not bound:
                    return "KeyError"
            return None

        outs = simulate(g, starts[0], stop, lambda n: eval_bool(n.ast, atom), raise_oracle, event_of)
        need(outs, "C09.3: the identifier-form branch has no path")
        res = set()
        for o in outs:
            binds = [e for e in o.events if e.startswith("bind:")]
            rejected = o.end.kind == "return" and isinstance(o.end.ast.value, ast.Constant) and o.end.ast.value.value is False
            raised = o.end.kind == "raise" or o.end.kind in ("exit_e", "exit_b")
            res.add(("reject" if rejected else "raise" if raised else "go-on") + ("+bind" if binds else "") + (":wrong-value" if binds and not all(b_ == f"bind:{sname}=structure" for b_ in binds) else ""))
        verdicts[label] = res
    want = {"absent": {"go-on+bind"}, "same": {"go-on"}, "different": {"reject"}}
    if verdicts == want:
        ctx.ok("C09.3", f.qualname, "identifier form: bind the tree's structure if the name is absent, else reject iff the structures differ")
    else:
        bad = {k: sorted(v) for k, v in verdicts.items() if v != want[k]}
        ctx.bad("C09.3", f, if0, f"the identifier form does not bind the structure when the name is absent and reject exactly when a bound structure differs: {bad} "
                f"(expected absent -> bind and go on, same -> go on, different -> reject)", construct=f"identifier form: {bad}")


# ------------------------------------------------------------------------ C09.4
def _is_ellipsis_test(e, which):
    """`<tokens>[0] == '...'` (which=0) / `<tokens>[-1] == '...'` (which=-1); returns the tokens name or None."""
    if isinstance(e, ast.Compare) and len(e.ops) == 1 and isinstance(e.ops[0], ast.Eq):
        l, r_ = e.left, e.comparators[0]
        if isinstance(l, ast.Constant):
            l, r_ = r_, l
        if isinstance(r_, ast.Constant) and r_.value == "..." and isinstance(l, ast.Subscript) and isinstance(l.value, ast.Name):
            i = l.slice
            v = i.value if isinstance(i, ast.Constant) else -i.operand.value if isinstance(i, ast.UnaryOp) and isinstance(i.op, ast.USub) and isinstance(i.operand, ast.Constant) else None
            if v == which:
                return l.value.id
    return None


def check_mode_table(ctx):
    """'... T' = suffix, 'T ...' = prefix, otherwise exact -- decided by walking the composite branch on the CFG
    once per mode (leading `...` / trailing `...` / neither): which token is dropped and which of the three
    comparisons can reject.  Insensitive to how the mode is carried (two flags, flags computed from
    expressions, elif chain vs guard clauses, verdict in a local of an inlined predicate)."""
    from ..absim import env_truth, eval_bool, simulate
    from ..typestate import NoReturn

    hits = []
    for g_ in _pt_functions(ctx):
        for n in ast.walk(g_.node):
            if isinstance(n, ast.Compare) and _is_ellipsis_test(n, 0):
                hits.append((g_, n))
    if len(hits) != 1:
        raise AnalysisError(f"C09: mode selection on the first token: found {len(hits)} candidates in jaxtyping/_pytree_type.py (expected 1)")
    f, first_test = hits[0]
    toks = _is_ellipsis_test(first_test, 0)
    g = NoReturn(ctx.model).cfg(f)
    # start: the CFG node (test or statement) that evaluates the leading-token comparison
    starts = [n for n in g.live_nodes() if n.ast is not None and n.kind in ("test", "stmt") and any(x is first_test for x in ast.walk(n.ast))]
    need(len(starts) == 1, "C09.4: the node evaluating the leading-`...` test is not unique in the CFG")
    # the per-leaf loop: over the flattened leaves of the value (not the loop over the bottom-layer pieces `dummy_leaves` of the suffix comparison)
    leaf_loops = {n.id for n in g.live_nodes() if n.kind == "for" and ("leaves" in norm(n.ast.iter)) and "dummy" not in norm(n.ast.iter)
                  and not any(isinstance(x_, ast.Call) and isinstance(x_.func, ast.Name) and "has_structure" in x_.func.id for b_ in n.ast.body for x_ in ast.walk(b_))}

    # the three comparison algorithms, recognised by what decides them
    def site_kind(x):
        """x: a `return False` / `flag = False` statement.  P: in the ValueError handler of a try around tree_map;
        S: under a test over `tree_leaves(.., is_leaf=..)` pieces; E: under `structure != <composed>`."""
        for t in ast.walk(f.node):
            if isinstance(t, ast.Try):
                for h in t.handlers:
                    if any(y is x for y in ast.walk(h)) and h.type is not None and norm(h.type) == "ValueError" \
                            and any(isinstance(c_, ast.Call) and norm(c_.func).split(".")[-1] == "tree_map" for b_ in t.body for c_ in ast.walk(b_)):
                        return "P"
        if isinstance(x, ast.Assign) and not isinstance(x.value, ast.Constant):
            # `ok = <the comparison itself>`
            v_ = norm(x.value)
            if v_ in ("structure == named_structure", "named_structure == structure", "not structure != named_structure", "not named_structure != structure"):
                return "E"
            if ("any(" in v_ or "all(" in v_) and ("has_structure" in v_ or "dummy_leaves" in v_ or "tree_leaves" in v_ or "tree_structure" in v_):
                return "S"
            return "?"
        guards = [i for i in ast.walk(f.node) if isinstance(i, ast.If) and any(y is x for b_ in i.body + i.orelse for y in ast.walk(b_))]
        # the S comparison spelled as a loop over the bottom-layer pieces: `for piece in dummy_leaves: if not has_structure(piece): return False`
        for lp_ in ast.walk(f.node):
            if isinstance(lp_, ast.For) and ("dummy_leaves" in norm(lp_.iter) or "tree_leaves" in norm(lp_.iter)) and isinstance(lp_.target, ast.Name):
                for i in guards:
                    if any(i is y for b_ in lp_.body for y in ast.walk(b_)) and any(y is x for b_ in i.body for y in ast.walk(b_)):
                        tt_ = i.test
                        if isinstance(tt_, ast.UnaryOp) and isinstance(tt_.op, ast.Not) and isinstance(tt_.operand, ast.Call) and "has_structure" in norm(tt_.operand.func) \
                                and [norm(a_) for a_ in tt_.operand.args] == [lp_.target.id]:
                            return "S"
        for i in sorted(guards, key=lambda i_: -i_.lineno):
            t_ = norm(i.test)
            in_body = any(y is x for b_ in i.body for y in ast.walk(b_))
            if in_body and t_ in ("structure != named_structure", "named_structure != structure"):
                return "E"
            if not in_body and t_ in ("structure == named_structure", "named_structure == structure"):
                return "E"
            if ("any(" in t_ or "all(" in t_) and ("has_structure" in t_ or "dummy_leaves" in t_ or "tree_leaves" in t_):
                return "S"
            if isinstance(i.test, ast.Compare) and len(i.test.ops) == 1 and isinstance(i.test.left, ast.Attribute) and isinstance(i.test.comparators[0], ast.Attribute) \
                    and i.test.left.attr == i.test.comparators[0].attr and {norm(i.test.left.value), norm(i.test.comparators[0].value)} == {"structure", "named_structure"}:
                return "E-weak:" + i.test.left.attr
        return "?"

    # locals carrying the verdict of an (inlined) predicate: `if not ok: return False`
    verdict_vars = set()
    for i_ in ast.walk(f.node):
        if isinstance(i_, ast.If) and isinstance(i_.test, ast.UnaryOp) and isinstance(i_.test.op, ast.Not) and isinstance(i_.test.operand, ast.Name) \
                and any(isinstance(y, ast.Return) and isinstance(y.value, ast.Constant) and y.value.value is False for y in i_.body):
            verdict_vars.add(i_.test.operand.id)

    def cmp_kind(n):
        """which of the three comparisons this node evaluates (P: the tree_map that raises; S: the test over the bottom-layer pieces;
        E: structure vs composed structure)"""
        a_ = n.ast
        if a_ is not None and n.kind == "for" and isinstance(a_, ast.For):
            # the S comparison spelled as a loop: `for piece in <bottom-layer pieces>: if not has_structure(piece): return False`
            it_ = norm(a_.iter)
            body_ = " ; ".join(norm(x_) for x_ in a_.body)
            if ("dummy_leaves" in it_ or "tree_leaves" in it_) and ("has_structure" in body_ or "tree_structure" in body_) and \
                    any(isinstance(x_, ast.Return) and isinstance(x_.value, ast.Constant) and x_.value.value is False for b_ in a_.body for x_ in ast.walk(b_)):
                return "S"
            return None
        if a_ is None or n.kind not in ("stmt", "test"):
            return None
        t_ = norm(a_)
        if n.kind == "stmt" and any(isinstance(c_, ast.Call) and norm(c_.func).split(".")[-1] == "tree_map" for c_ in ast.walk(a_)) and any(k in ("e", "ValueError") for k, _ in n.succ):
            return "P"
        if ("any(" in t_ or "all(" in t_) and ("has_structure" in t_ or "dummy_leaves" in t_ or "tree_leaves" in t_ or "tree_structure" in t_):
            return "S"
        for x in ast.walk(a_):
            if isinstance(x, ast.Compare) and len(x.ops) == 1 and isinstance(x.ops[0], (ast.Eq, ast.NotEq)) and {norm(x.left), norm(x.comparators[0])} == {"structure", "named_structure"}:
                return "E"
        return None

    def event_of(n):
        a_ = n.ast
        if n.kind == "stmt" and isinstance(a_, ast.Assign) and len(a_.targets) == 1 and isinstance(a_.targets[0], ast.Name):
            if a_.targets[0].id in verdict_vars and not (isinstance(a_.value, ast.Constant) and a_.value.value is True):
                return f"F:{a_.targets[0].id}:{id(a_)}"
            if a_.targets[0].id == toks:
                return f"drop:{norm(a_.value)}"
        return None

    by_id = {id(x): x for x in ast.walk(f.node)}
    table = {}
    uncompared = {}
    for mode, lead, trail in (("leading", True, None), ("trailing", False, True), ("neither", False, False)):
        def atom(e, lead=lead, trail=trail):
            v_ = env_truth(e)
            if v_ is not None:
                return v_
            if _is_ellipsis_test(e, 0) == toks:
                return lead
            if _is_ellipsis_test(e, -1) == toks:
                return trail
            return None

        def stop(n):
            return n.kind in ("return", "raise", "exit", "exit_e", "exit_b", "falloff") or n.id in leaf_loops

        def may_raise(n):
            # the prefix comparison is decided by tree_map raising ValueError
            if n.ast is not None and n.kind == "stmt" and any(isinstance(c_, ast.Call) and norm(c_.func).split(".")[-1] == "tree_map" for c_ in ast.walk(n.ast)) \
                    and any(k == "e" or k == "ValueError" for k, _ in n.succ):
                return ("maybe", "ValueError")
            return None

        outs = simulate(g, starts[0], stop, lambda n: eval_bool(n.ast, atom), may_raise, event_of, limit=20000, bool_values=atom, for_exits=True)
        need(outs, "C09.4: the composite branch has no path")
        # a second walk that stops at the first comparison: a path that reaches the leaves (or accepts) without meeting one
        outs2 = simulate(g, starts[0], lambda n: stop(n) or cmp_kind(n) is not None, lambda n: eval_bool(n.ast, atom), may_raise, None, limit=20000, bool_values=atom, for_exits=True)
        for o in outs2:
            if o.end.id in leaf_loops or (o.end.kind == "return" and isinstance(o.end.ast.value, ast.Constant) and o.end.ast.value.value is True):
                uncompared.setdefault(mode, o)
        sites, drops = set(), set()
        for o in outs:
            ds = tuple(e[5:] for e in o.events if e.startswith("drop:"))
            drops.add(ds)
            rejected = o.end.kind == "return" and isinstance(o.end.ast.value, ast.Constant) and o.end.ast.value.value is False
            if rejected:
                # `if not ok: return False` after an inlined predicate: the rejection is where `ok` became False
                var = None
                for i_ in ast.walk(f.node):
                    if isinstance(i_, ast.If) and any(y is o.end.ast for y in i_.body):
                        t_ = i_.test.operand if isinstance(i_.test, ast.UnaryOp) and isinstance(i_.test.op, ast.Not) else None
                        if isinstance(t_, ast.Name):
                            var = t_.id
                fs = [e for e in o.events if var is not None and e.startswith(f"F:{var}:")]
                sites.add(int(fs[-1].split(":")[2]) if fs else id(o.end.ast))
        table[mode] = (sites, drops)

    # which token is dropped
    want_drop = {"leading": {(f"{toks}[1:]",)}, "trailing": {(f"{toks}[:-1]",)}, "neither": {()}}
    got_drop = {k: v[1] for k, v in table.items()}
    if all(not any(d for d in ds) for ds in got_drop.values()):
        raise AnalysisError("C09.4: how the `...` token is removed from the token list was not recognised")
    if got_drop != want_drop:
        ctx.bad("C09.4", f, first_test, f"the `...` token is not removed from the right end of the token list: "
                + ", ".join(f"{k} `...` -> {sorted(' then '.join(d) or 'nothing dropped' for d in v)}" for k, v in got_drop.items()),
                construct="token drop table " + str({k: sorted(v) for k, v in got_drop.items()}))
    # which comparison decides
    kinds = {}
    for mode, (sites, _) in table.items():
        kinds[mode] = sorted(site_kind(by_id[s_]) for s_ in sites)
    want = {"leading": ["S"], "trailing": ["P"], "neither": ["E"]}
    weak = [k_ for v in kinds.values() for k_ in v if k_.startswith("E-weak:")]
    if weak and kinds["neither"] == weak:
        x = by_id[next(iter(table["neither"][0]))]
        ctx.bad("C09.4", f, x, f"exact mode does not reject exactly when the tree's structure differs from the composed structure: it compares only `.{weak[0][7:]}` of the two")
        return
    # no mode lets a structure through without comparing it at all
    if uncompared and any(cmp_kind(n_) for n_ in g.live_nodes()):
        for mode, o in sorted(uncompared.items()):
            tests = [n_ for n_ in (o.path or ()) if getattr(n_, "kind", None) == "test"]
            under = f" (last test on that path: `{short(tests[-1].ast, 60)}`)" if tests else ""
            looks = [t_ for t_ in tests if any(isinstance(x, ast.Name) and x.id in ("named_structure", "structure", "prev_structure") for x in ast.walk(t_.ast))]
            if looks:
                # a short cut guarded by a condition on the structures themselves: sound for some conditions (the bound structure is one
                # leaf: a prefix and a suffix of everything), unsound for others (`treedef_is_leaf` is also true of empty containers) --
                # that is a property of tree values
                raise AnalysisError(f"C09.4: with {mode + ' `...`' if mode != 'neither' else 'no `...`'} a path reaches the leaves without any of the three comparisons, guarded by "
                                    f"`{short(looks[-1].ast, 70)}`: whether that condition implies the comparison is value-level and cannot be decided statically")
            ctx.bad("C09.4", f, tests[-1].ast if tests else first_test, f"with {mode + ' `...`' if mode != 'neither' else 'no `...`'} a path goes on to the leaves without having compared the tree's "
                    f"structure with the composed structure in any way{under}: every tree is accepted on it", construct=f"composite structure accepted uncompared ({mode})")
    if any("?" in v or len(v) != 1 for v in kinds.values()):
        raise AnalysisError(f"C09.4: the composite-structure check has rejection paths the rule does not know ({kinds}; P = tree_map raised, S = a bottom-layer piece is not T, "
                            "E = structures differ): whether an additional early rejection is sound depends on tree values and cannot be decided statically")
    if kinds != want:
        ctx.bad("C09.4", f, first_test, f"mode table: a leading `...` is decided by {kinds['leading']}, a trailing `...` by {kinds['trailing']}, neither by {kinds['neither']} "
                "(P = prefix comparison, S = suffix comparison, E = exact comparison); the documentation says '... T' = suffix (bottom layer made of T), 'T ...' = prefix, otherwise exact",
                construct=f"mode table {kinds}")
    else:
        ctx.ok("C09.4", f.qualname, "leading `...` -> suffix comparison, trailing `...` -> prefix comparison, neither -> exact comparison; the `...` token is dropped from the matching end")
    # suffix mode delegates "the bottom layer consists of copies of T" to jax: flatten the tree with
    # `is_leaf = has the structure T` and require every piece to have it.  A hand-written traversal (e.g. over
    # PyTreeDef.children()) decides what a node / an empty container is on its own: value-level, no verdict.
    delegated = [x for x in ast.walk(f.node) if isinstance(x, ast.Call) and norm(x.func).split(".")[-1] in ("tree_leaves", "tree_flatten")
                 and any(k.arg == "is_leaf" and "structure" in norm(k.value) for k in x.keywords)]
    if not delegated:
        raise AnalysisError("C09.4: the suffix ('... T') comparison does not flatten the tree with jax's tree_leaves(..., is_leaf=<has structure T>); "
                            "a hand-written traversal of the tree structure cannot be judged statically")
    ctx.ok("C09.4", f.qualname, "exact: reject iff structure != composed structure; prefix: reject iff tree_map raises; suffix: reject iff some bottom-layer piece is not T")
